from config.common import *  # noqa

CHECK = {
        "package": "p_table",
        "level": EXPLORATION,
        "level_text": "Generated peer graphs and completion orders against the real lookup engine (lookup.run over the harness' query function) "
                      "inside a testing/synctest bubble: after every synctest.Wait() all started queries are parked and the plan chooses which one "
                      "completes, so every reply order and every cancellation point is reachable, replayable and shrinkable; non-termination is "
                      "decided (lookup pending, nothing outstanding, slowdown timer elapsed), not timed out. Search, not proof.",
        "level_note": "Trusted: the query log and the closest-k specification (harness/model/kad/lookup.go), rapid, Go's synctest experiment. "
                      "Hook: VerifRunLookup (newLookup(...).run()) and the table driver; the table is the real one with its loop running in the "
                      "bubble, so trackRequest feedback flows as in production. The real-instance part (exported Lookup/ContentLookup over a "
                      "simulated network) is the second run spec (TestC10_Net* in p_proto).",
        "technique": "property-based testing (rapid, plan-first) with an owned schedule under testing/synctest; oracle from the query log and a closest-k specification",
        "crash_is_violation": True,
        "runs": [
            {"name": "engine", "run": "^TestC10_Engine$", "checks": {"quick": 4000, "thorough": 20000}, "shards": {"quick": 1, "thorough": 16}},
            {"name": "busy", "run": "^TestC10_EngineBusyCancel$", "checks": {"quick": 20, "thorough": 100}, "shards": {"quick": 3, "thorough": 8}},
            # exported Lookup / ContentLookup of a real instance over the simulated network against scripted discv5 peers (package p_proto)
            {"name": "net", "package": "p_proto", "run": "^TestC10_Net$", "checks": {"quick": 25, "thorough": 50}, "shards": {"quick": 6, "thorough": 16}, "rounds": {"quick": 1, "thorough": 4}},
            # Stop while the table's own refresh lookup (and a caller's lookup) has queries outstanding at late / silent peers: everything must finish
            {"name": "stoprefresh", "package": "p_proto", "run": "^TestC10_StopDuringRefresh$", "checks": {"quick": 12, "thorough": 40}, "shards": {"quick": 4, "thorough": 16}, "shrink_exec": 6},
        ],
        "rule": "[stop-during-refresh run] 1..8 scripted peers seeded into the table, each answering FINDNODES after 0..250 ms or never; a table refresh is requested, optionally a caller's "
                "Lookup is started, and after 0..200 ms the protocol is stopped: Stop, the refresh lookup and the caller's lookup must all finish (20 s bound; a query is outstanding for 300 ms at most); "
                "non-trivial = the refresh was running and a peer was holding a query at the moment of Stop. "
                "[real-instance run] rapid draws 1..24 scripted discv5 peers {FINDNODES answer kind: honest at the asked distances / plus the asker and itself / duplicates / wrong "
                "distances / undecodable / empty / silent; FINDCONTENT answer kind: ENRs / content / empty content / connection id nobody serves / garbage / empty / silent; known peers; delay}, "
                "0..5 table seeds, a target, node or content lookup; judged from the peers' request logs: each peer asked at most once, at most 3 requests in flight, result <= 16 distinct supplied "
                "nodes sorted by distance without the local node and with no closer seed omitted; content result is something a queried peer supplied, not-found iff nobody supplied. "
                "[engine run] A plan is 0..200 peers, each with an answer function (honest closest-N of partial knowledge, arbitrary subset, duplicates incl. a second "
                "record version, the asker itself, itself and two fixed peers (cycles), empty, error, error with nodes, 25..40 nodes), a chain of up to "
                "40 peers ever closer to the target, a target (arbitrary / the local id / a peer's id / next to the local id), 0..30 peers seeded into "
                "the table, a list of completion choices, optionally a cancellation step (alone or in the same instant as a reply, or before the "
                "start) and optionally a table that was already closed. Judged: every queried id was supplied before by the table or a reply, is not "
                "the local id and is queried once; never more than 3 queries in flight; queries <= peers; the lookup returns; the result has <=16 "
                "distinct supplied records strictly sorted by XOR distance and equals the 16 closest of table seed + all replies (after a "
                "cancellation: contains every certainly-processed node that is closer than its last element, and nothing that was not supplied by a "
                "certainly- or possibly-processed reply). Non-trivial: >=4 queries with >=2 parked at some step (an order choice existed), a "
                "non-honest answer was returned to the engine, or a cancellation hit queries in flight; distinct = distinct plan digests.",
        "assumptions": [
            "query functions never return nil nodes (every production query function filters them)",
            "at engine level the asker's own record is an ordinary node of the result (the production worker removes it before the engine sees it; that is checked in the real-instance run)",
        ],
        "required_classes": {"quick": ["stop-with-refresh-queries-outstanding", "content-found", "content-not-found", "node-lookup-queried", "late-replies-after-lookup-ended", "cancel-while-scanning-a-long-reply", "queries>=4-with-order-choice", "adversarial-answer-processed", "cancel-with-queries-in-flight",
                                       "cancel-and-reply-in-the-same-instant", "empty-table-start", "seen>16", "in-flight-reached-3", "peers:61-200", "peers:0"]},
    }
