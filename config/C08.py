from config.common import *  # noqa

CHECK = {
    "package": "p_proto",
    "level": EXPLORATION,
    "level_text": "Generated-input search with two real protocol instances (asker, responder) running real discv5 and uTP over an in-memory network: "
                  "generated content sizes (0, 1, every size within +-12 of the 1175-byte inline threshold, SSZ limit edges, up to 64 KiB), keys, "
                  "version sets on either side, routing tables up to full buckets with 300-byte ENRs, asker in/out of the table, clean / lossy / "
                  "duplicating / reordering links. The bytes the asker ends up with are compared with the stored bytes; 'not held' replies are judged "
                  "record by record against the responder's table; every datagram the responder emits is measured.",
    "level_note": "Trusted: harness/simnet (datagram log, fault policy), harness MemStore as the responder's store, discv5/uTP libraries. Under a faulty link an "
                  "error result is tolerated, a wrong result never; 25 s without a result is counted as inconclusive, not judged. Schedule of discv5/uTP goroutines is the OS scheduler's.",
    "technique": "property-based testing (rapid): end-to-end differential (received bytes == stored bytes) and validity predicate over ENR replies, with injected link faults and measured datagram sizes",
    "runs": [
        {"name": "fc", "run": "^TestC08_", "checks": {"quick": 45, "thorough": 50}, "shards": {"quick": 6, "thorough": 16}, "rounds": {"quick": 2, "thorough": 6}},
    ],
    "rule": "rapid draws (version set asker, version set responder, held?, size, key, table spec list, asker in table?, link policy, direct/end-to-end, second concurrent asker). "
            "Non-trivial = size within +-12 of the inline threshold, inline or uTP payload compared, non-empty or size-truncated ENR reply; distinct = distinct plan digests.",
    "assumptions": [
        "the responder's store is a harness content-id store (the real adapters are exercised under C01/C04)",
        "pairs without a common protocol version are expected to fail uTP transfers (C19 owns that) and are only required to succeed inline",
    ],
    "required_classes": {"quick": ["size-near-threshold", "e2e-utp", "e2e-inline", "enrs-non-empty", "enrs-truncated-by-size", "lossy-link", "asker-in-table", "after-unopened-streams:limit=1"]},
}
