from config.common import *  # noqa

CHECK = {
        "package": "p_wire",
        "level": EXPLORATION,
        "level_text": "Generated-input search with a reference model: the code's joiner/splitter is compared with an independent LEB128 "
                      "splitter on thousands of lists and hostile byte strings per run (plus coverage-guided fuzzing in the thorough tier). "
                      "This is the right level for a pure function over byte strings; absence of counterexamples is not a proof.",
        "level_note": "Trusted: the reference splitter/joiner (harness/model/framing.go), rapid's generators, the Go toolchain. "
                      "Hook: exported wrappers of the four framing helpers and decode/encodeUtpContent.",
        "technique": "property-based testing (rapid) against a reference LEB128 splitter: round-trip + differential; native go fuzz in thorough",
        "runs": [
            {"name": "c15", "run": "^TestC15_", "checks": {"quick": 3000, "thorough": 40000}, "shards": {"quick": 1, "thorough": 16}},
        ],
        "fuzz": [{"name": "FuzzC15Split", "time": "60s"}],
        "rule": "rapid draws (a) lists of 0..64 byte strings (one plan in eight: 63..300 short ones - the framing knows nothing of the 64-key limit of an offer) with lengths biased to 0,1,127,128,16383,16384,2^21-1,2^21 and random, "
                "joined by the code and by a reference LEB128 joiner, decoded back and compared item by item; (b) decoder inputs: valid streams, "
                "truncations at every position, prefixes exceeding the rest, 5-byte varints with high bits, 6+-byte varints, non-minimal varints, "
                "trailing bytes, splices and raw bytes, each judged by a reference splitter (malformed => must be rejected, well-formed => same split); "
                "(c) single-item streams for peers negotiating version 0 or 1. A case is non-trivial when the list has an empty item and an item "
                ">= 128 bytes, when the input is malformed by the reference, or when it decodes to >= 1 item; distinct = distinct plan digests.",
        "assumptions": [
            "reference LEB128 splitter in harness/model/framing.go is correct (it is itself exercised against the code's encoder)",
            "non-minimal varints (e.g. 80 00) are neither required nor forbidden by the statement; the check accepts both verdicts for them",
        ],
        "required_classes": {"quick": ["malformed:mframing: truncated", "malformed:mframing: varint overflows 32 bits", "v1-exact", "empty+>=128", "list-longer-than-64-items", "malformed-behind-64-or-more-good-items", "other-list-joined-in-between", "stream-as-body-of-an-accepted-offer"]},
    }
