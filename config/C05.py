from config.common import *  # noqa

CHECK = {
        "package": "p_store",
        "level": EXPLORATION,
        "level_text": "Generated-history search with a ground-truth oracle: put histories (sequential, and rounds of 2..32 goroutines putting "
                      "simultaneously) run against the real pebble.ContentStorage on a database the harness opens itself; after every put "
                      "(sequential) or every round (concurrent) the harness scans that database and recomputes the bytes held, the persisted "
                      "usage record and the key sets, and judges them against the statement. Concurrent schedules are whatever the Go "
                      "scheduler produces, not enumerated. Absence of counterexamples is not a proof.",
        "level_note": "Trusted: pebble's iterator for ground truth, the arithmetic of the oracle (harness/model/storemodel), rapid, the Go toolchain. "
                      "No hook. Harness precondition: the database is closed only after prune()'s un-joined compaction goroutine has ended.",
        "technique": "property-based testing (rapid) of the real store, oracle recomputed from a scan of the database; concurrent rounds with barrier start",
        "runs": [
            {"name": "seq", "run": "^TestC05_Seq$", "checks": {"quick": 150, "thorough": 1000}, "shards": {"quick": 1, "thorough": 16}},
            {"name": "conc", "run": "^TestC05_Conc$", "checks": {"quick": 60, "thorough": 400}, "shards": {"quick": 1, "thorough": 16}},
        ],
        "rule": "sequential: node id (zero, all-ones, single bit, random), capacity 0/1/2/3 MB, 1..90 operations (put with fresh / existing / "
                "single-bit-neighbour id, reopen, flush); value sizes relative to 5% of the capacity: tiny, 25-100% of 5%, exactly 5%, 5%+1, 1-4x, "
                "half the capacity, around and above the capacity; half of the histories keep every item <= 5%. Per put, from scans before/after: "
                "if held-old+new > capacity then freed >= 5% of capacity or nothing is left; if every item so far is <= 5% then held <= capacity; "
                "usage record >= held; dropped keys all >= kept keys in big-endian order; no foreign keys. Concurrent: sequential prefill to "
                "0-99% of the capacity, then 1..4 rounds of G in {2,3,4,8,16,32} goroutines issuing G..2G puts at once; after each round: "
                "record >= held, held <= capacity when all items <= 5%, every item is a value some put wrote under that id, no put failed. "
                "Non-trivial: a sequential history with >= 1 put that had to prune or an overwrite of a live id; a concurrent round in which "
                ">= 2 puts each cross the capacity on their own. distinct = distinct plan digests.",
        "assumptions": [
            "an item is 'no larger than 5% of the capacity' when key (32 bytes) + value <= capacity/20",
            "'frees at least 5% of the capacity (or everything it holds)' is judged on real bytes: (held_before - old + new) - held_after >= capacity/20, or held_after == 0",
            "over-reporting of the usage record (e.g. after overwrites) is allowed by the statement and only counted",
            "capacity 0 is an edge configuration: 5% is 0 bytes, so only the accounting and farthest-first clauses bind",
            "concurrent interleavings are sampled by the Go scheduler (schedule-dependent defects may need several rounds to show)",
        ],
        "required_classes": {"quick": ["prune", "overwrite-live", "drop-multiple", "all-items<=5%", "item>5%", "capacity-0",
                                       "conc-round>=2-puts-cross-capacity", "goroutines=32", "rec-over-reports", "pass-over-more-than-a-thousand-tiny-far-items"]},
    }
