from config.common import *  # noqa

CHECK = {
    "package": "p_proto",
    "level": EXPLORATION,
    "level_text": "Generated histories against a real protocol instance (history, state and beacon configuration) with a running routing table and no offer "
                  "workers: tables of 0..272 nodes, radii delivered by generated interleavings of PINGs (through the talk handler) and PONGs (through the "
                  "pong processor) in every payload type incl. unsupported / truncated ones, then one gossip call with a generated source and batch. "
                  "After every report the radius cache is compared with a last-writer model; the gossip result is judged by a validity predicate "
                  "(<= 8, covered under the XOR rule, among the 32 nearest with log-distance ties tolerated, never the source, never an unknown radius, "
                  "the forced four closest present) and the offer queue must hold exactly one offer with the whole batch per chosen peer.",
    "level_note": "Trusted: table snapshot / radius cache / offer queue accessors (hooks), the XOR in-range reference, quiescence detection of the asynchronous "
                  "ping goroutines by scanning goroutine stacks. Known finding D19 (back-to-back pings processed out of order) is classified, not hidden.",
    "technique": "stateful property-based testing (rapid): last-writer model of the radius cache + validity predicate over the gossip target set and the offer queue",
    "runs": [
        {"name": "gossip", "run": "^TestC20_", "checks": {"quick": 60, "thorough": 140}, "shards": {"quick": 6, "thorough": 16}, "rounds": {"quick": 1, "thorough": 4}},
    ],
    "rule": "rapid draws (network, table spec list, list of radius reports {node, ping|pong, payload type, radius class relative to the node's distance, truncated?, "
            "back-to-back?}, source kind, content key, batch size 1..64); 40% of the plans use a content id within log-distance 246 of the local id (found by hashing about a thousand candidate keys), so that table nodes in buckets 247..256 "
            "lie at different log-distances from the content: 'window' tables (two full buckets plus 1..3 covered nodes in the next one, the source mostly among the nearest 32) and 'ladder' tables (0..3 nodes per bucket, most covered). Up to two table nodes are real discv5 endpoints that answer the node's request for their record with an empty list: their pings/pongs may announce a newer record, the refresh fails, and the reported radius must be recorded all the same. Half of the plans give the local store a radius that is no byte palindrome (the pongs the node sends are compared with it). Non-trivial = > 8 covered candidates, source among the closest covered nodes, an "
            "unknown-radius node among the nearest 32, a radius reported twice, a gossip that selected >= 1 peer; distinct = distinct plan digests.",
    "assumptions": [
        "reports carry an ENR sequence number not above the node's, so no ENR refresh round trip is triggered (outside this property)",
        "at distance == radius either coverage verdict is tolerated",
        "a case in which the table changed during the gossip call is discarded and counted",
    ],
    "required_classes": {"quick": [">8-covered-candidates", "source-among-closest", "unknown-radius-among-nearest-32", "radius-updated-twice", "gossip-sent", "back-to-back-ping", "net:beacon", "net:state", "source-is-covered-candidate-beyond-the-closest-four", "covered-node-just-outside-the-32-nearest", ">12-covered-candidates-at-distinct-log-distances", "radius-updated-by-message-announcing-newer-record", "local-radius-not-a-palindrome", "local-radius-changed-between-two-pongs", "record-of-a-table-node-added-by-hand-again"]},
}
