from config.common import *  # noqa

CHECK = {
    "package": "p_proto",
    "level": EXPLORATION,
    "level_text": "Generated offers against a real protocol instance (real discv5 + uTP over an in-memory network, harness store with a settable radius): "
                  "0..64 keys in any mix of stored / unstored / already-in-flight / out-of-radius, both accept encodings, slot limits 0/1/2/50 with 0..2 slots "
                  "already in use, validation queue of capacity 1/2/50 empty or full. The ACCEPT reply is decoded with the negotiated encoding and judged key by key; "
                  "when >= 1 key is accepted a second real instance dials the announced connection id over uTP and sends a generated stream (right item count, one "
                  "fewer, one more, undecodable, truncated, trailing byte, or never dials); what reaches the validation queue is compared item by item. A second "
                  "offer of the same keys is issued once the first transfer is observably in flight.",
    "level_note": "Trusted: harness MemStore, in-range wrapper (C06 owns its correctness), slot accounting hook (free slots by try-acquire), simnet, discv5/uTP libraries. "
                  "Truly simultaneous overlapping offers are not ordered by the harness (OS scheduler); the overlap clause is asserted only after the first transfer is observable. "
                  "A transfer that has not finished within 10 s is counted inconclusive.",
    "technique": "property-based testing (rapid) with fault injection on the transfer stream: per-key verdict predicate + end-to-end differential (queued element == accepted keys/contents)",
    "runs": [
        {"name": "offer", "run": "^TestC09_Offer$", "checks": {"quick": 30, "thorough": 50}, "shards": {"quick": 6, "thorough": 16}, "rounds": {"quick": 2, "thorough": 6}},
        {"name": "dial", "run": "^TestC09_OfferSideDial$", "checks": {"quick": 20, "thorough": 40}, "shards": {"quick": 4, "thorough": 16}, "rounds": {"quick": 1, "thorough": 3}},
        {"name": "concurrent", "run": "^TestC09_ConcurrentOffers$", "checks": {"quick": 12, "thorough": 25}, "shards": {"quick": 6, "thorough": 16}, "rounds": {"quick": 2, "thorough": 5}},
    ],
    "rule": "rapid draws (version sets, key specs {seed, stored|unstored|inflight, content length 0..20000}, radius class max/zero/split-at-kth-key, slot limit, slots in use, "
            "queue capacity, queue full?, stream class, second offer?), and for the sending side (2..8 offers of different contents issued at the same time by one real instance to 1..3 real receivers, "
            "each receiver must be handed every offer addressed to it as a whole, keys and contents in order). Non-trivial = mixed verdicts, rate-limited reply, completed transfer compared, discarded wrong-count/undecodable "
            "stream, lost transfer, overlapping offer; distinct = distinct plan digests.",
    "assumptions": [
        "pairs without a common protocol version are skipped here (C19)",
        "with a full validation queue a correctly transferred element may be dropped (the statement only constrains what is handed over)",
    ],
    "required_classes": {"quick": ["mixed-verdicts", "rate-limited-reply", "transfer-completed", "lost-transfer", "overlapping-offer", "version:0", "version:1", "stream-discarded:more", "stream-discarded:truncated", "offer-after-overlapping-offer-ended", "concurrent-offers:4", "concurrent-offers-of-different-sizes", "accepted-all-64-keys:stream=more", "dial:stream-opened:cid=0x0000", "dial:nothing-accepted-nothing-sent", "third-party-speaks-version-0", "offer-after-overlapping-version-0-offer-ended"]},
}
