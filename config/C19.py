from config.common import *  # noqa

CHECK = {
    "package": "p_proto",
    "level": EXPLORATION,
    "level_text": "Exhaustive enumeration of the negotiation function on all 49 ordered pairs of non-empty subsets of {0,1,2} (both listing orders), "
                  "generated pairs of subsets of 0..255, generated ENRs with set / missing / empty / malformed version entries against a real "
                  "instance (first and repeated call), and for generated pairings of the implemented version sets one OFFER/ACCEPT transfer "
                  "and one uTP FINDCONTENT between two real protocol instances over an in-memory network, payload compared byte for byte.",
    "level_note": "Trusted: in-memory UDP hub (harness/simnet), real discv5 + uTP libraries, max-of-intersection reference. Instances run only "
                  "versions this code implements ({0,1}); other numbers only appear in advertised sets. uTP/discv5 time-outs are counted as "
                  "inconclusive, never as violations. Open known finding D16 is classified (second model: cached-after-error).",
    "technique": "exhaustive small-domain enumeration + property-based testing (rapid) with a max(A∩B) reference; end-to-end differential transfer check between two real instances",
    "runs": [
        {"name": "neg", "run": "^TestC19_(Negotiate|NegotiateExhaustive|PeerVersion)$", "checks": {"quick": 1500, "thorough": 20000}, "shards": {"quick": 1, "thorough": 8}},
        {"name": "xfer", "run": "^TestC19_Transfer$", "checks": {"quick": 60, "thorough": 70}, "shards": {"quick": 2, "thorough": 16}, "rounds": {"quick": 1, "thorough": 3}},
    ],
    "rule": "negotiation: every ordered pair of non-empty subsets of {0,1,2} (exhaustive, 49 pairs) and rapid-drawn subsets of 0..255; peer lookup: rapid-drawn "
            "(local set, peer ENR kind, peer set, number of calls); transfers: rapid-drawn (set A, set B, offered item sizes, FINDCONTENT size > inline threshold). "
            "Non-trivial = differing sets, no common version, repeated call after an error, cross-version transfer, uTP transfer; distinct = distinct plan digests.",
    "assumptions": [
        "a malformed or empty version entry may be answered with an error or treated as 'advertises none' (the statement fixes only missing => base version)",
        "pairings whose highest common version is not implemented (2) are evaluated for the negotiated number only",
    ],
    "required_classes": {"quick": ["exhaustive-pair", "no-common", "repeat-after-error", "cross-version", "utp-findcontent", "no-common-version", "peer:missing", "all-declined-for-lack-of-a-slot:version=0"]},
}
