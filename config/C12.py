from config.common import *  # noqa

CHECK = {
        "package": "p_beacon",
        "level": EXPLORATION,
        "level_text": "Generated-input search with reference predicates: synthetic 512-member BLS sync committees (real BLS12-381 keys from a "
                      "deterministic secret pool, aggregate signatures made with the sum of the participating secrets), light-client updates of "
                      "every kind and container over a synthetic beacon-state tree whose finalized-root / next-committee / current-committee "
                      "generalized indices are real, fed to the real ConsensusLightClient through its public Verify*/Apply*/Sync/Advance entry "
                      "points. Every accepted update is re-judged condition by condition by an independent model (own SSZ hashing, Merkle "
                      "branches, fork schedule, signing root; signature validity decided by re-signing with the summed secrets). Absence of "
                      "counterexamples over the generated space is evidence, not a proof.",
        "level_note": "Trusted: harness/model/lightclient.go (altair sync-protocol predicates on sha256), the BLS library for hash-to-curve and "
                      "scalar multiplication (also used by the code under test), rapid, the Go toolchain. No hook: Store is an exported field, "
                      "all entry points are exported.",
        "technique": "property-based testing (rapid), plan-first: single updates with one corrupted field against arbitrary stores; histories "
                     "across sync-committee period boundaries; bootstrap+Sync()+Advance() against a harness ConsensusAPI with a shadow client "
                     "as step-by-step reference",
        "runs": [
            {"name": "verify", "run": "^TestC12_Verify$", "checks": {"quick": 350, "thorough": 2500}, "shards": {"quick": 8, "thorough": 16}},
            {"name": "history", "run": "^TestC12_History$", "checks": {"quick": 50, "thorough": 700}, "shards": {"quick": 8, "thorough": 16}},
            {"name": "sync", "run": "^TestC12_Sync$", "checks": {"quick": 45, "thorough": 500}, "shards": {"quick": 8, "thorough": 16}},
        ],
        "rule": "(a) verify: a store set through the exported field (any period incl. the ones around the altair/bellatrix fork epochs, next committee "
                "known or not, optimistic ahead or not, also a store beyond slot 10^9) meets ONE update (full/finality/optimistic; altair/capella/deneb "
                "container) described relative to it: signature period store-1..store+2, any slot offset, attested before/at/after the finalized "
                "header, finalized header 2 epochs behind/equal/ahead/absent, participation 0,1,341,342,511,512 or random, and at most one corrupted "
                "field (signature bit, signature over another message, infinity signature, one participation bit added/dropped, other signer set, "
                "one finality/next-committee branch node, each attested and finalized header field, one next-committee key or its aggregate key, the current committee served as next committee with its own branch, one "
                "key of the STORE's committee, signed by another period's committee, wrong fork version / genesis root / domain type, signature slot "
                "in the future). Oracle: accepted => every condition of the statement holds by the reference; verification leaves the store "
                "untouched; after apply: finalized/optimistic slots monotone, optimistic >= finalized, finalized header or a committee changed => "
                "participation*3 >= 1024, new current committee == previous next committee, store contents come from verified updates only. "
                "(b) history: 3-8 (thorough 3-10) such updates, mostly honest, applied in sequence to a bootstrapped store. (c) sync: a harness "
                "ConsensusAPI serves a bootstrap (4 containers, right/4 wrong checkpoints, 4 branch layouts, one flipped branch node, corrupted or "
                "foreign committee) then updates; Sync() and Advance() must fail without touching the store on a bad bootstrap and otherwise end "
                "exactly where verifying+applying the same objects one by one ends. A case is non-trivial when the reference finds exactly ONE "
                "failing condition (classes only:<condition>; for branch/signature these reach the last verification stages), when an update "
                "with 341 or 342 participants is accepted, when a history rotates the committee (>= 2 rotations counted separately), or when a "
                "bootstrap is decided by the real entry point; distinct = distinct plan digests.",
        "assumptions": [
            "SyncCommitteeBits is 64 bytes and committees have 512 keys (the SSZ decoders in types/beacon enforce it before the light client sees an update)",
            "past slots are < 5*10^6 and future slots > 10^9 (mainnet genesis time), so only the phase0/altair/bellatrix fork versions occur for past "
            "signature slots; the dependency's Spec.ForkVersion maps Capella-era slots to the Deneb version and later slots to the Electra version "
            "(its mainnet config has no Electra epoch) - not exercised",
            "updates are applied only after they passed verification (what Sync/Advance do); applying unverified updates is not a caller behaviour",
            "Sync()/Advance() stop at the first served object that fails verification (the shadow client of the sync sub-check mirrors that)",
            "BLS signatures are unique: 'valid for exactly the participating keys' is decided by comparing with the signature made by the summed secrets",
            "electra update containers are refused by the client before verification ('unknown update type') and are not generated",
            "the one-directional statement does not require honest objects to be accepted: that is only a health condition of the check "
            "(exit 2), with three documented exceptions where the client is stricter than the protocol (update without finality, without next committee, genesis finality)",
        ],
        "required_classes": {"quick": [
            "accepted", "all-conditions-hold",
            "only:signature", "only:finality-branch", "only:next-committee-branch", "only:period", "only:relevant", "only:slot-order",
            "only:future", "only:participants",
            "accepted:n=342", "accepted:n=341", "applied:rotated", "history:rotations>=2", "applied:no-change-below-two-thirds",
            "sig-slot:first-of-fork",
            "sync:bootstrap-accepted", "sync:invalid-bootstrap-rejected", "sync:completed", "clock:current-slot=sig-1", "clock:current-slot=sig+0"]},
    }
