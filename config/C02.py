from config.common import *  # noqa

CHECK = {
        "package": "p_valid",
        "level": EXPLORATION,
        "level_text": "Generated-input search with a reference model: (key, content, header source) triples built from the repository's "
                      "genuine mainnet vectors of all four eras and from synthetic blocks, mutated and cross-paired, are judged by an "
                      "independent 'bound to key and trusted roots' predicate; soundness (accepted => bound) is the property, acceptance of "
                      "genuine vectors a health condition. Absence of counterexamples is not a proof.",
        "level_note": "Trusted: the reference SSZ readers, ordered-trie root calculator and Merkle verifier (harness/model/vmodel: "
                      "histcontent.go, mpt.go, merkle.go, headerproof.go; unit-tested on the genuine vectors), go-ethereum's RLP/transaction/"
                      "receipt codecs (library), rapid. The node's own SSZ decoders are consulted only to weaken the oracle (a body the node "
                      "decodes leniently is judged by what it decodes to). No hook; the real ValidationOracle runs over rpc.DialInProc.",
        "technique": "property-based testing (rapid) against a reference binding predicate; plan-first with structural, byte-level and key mutations; scripted in-process RPC as header source",
        "runs": [
            {"name": "c02", "run": "^TestC02_(HistoryContent|GenuineVectors)$", "checks": {"quick": 9000, "thorough": 25000}, "shards": {"quick": 1, "thorough": 16}},
            {"name": "c02getters", "run": "^TestC02_Getters$", "checks": {"quick": 70, "thorough": 100}, "shards": {"quick": 4, "thorough": 16}, "rounds": {"quick": 2, "thorough": 5}},
            {"name": "c02gate", "run": "^TestC02_NetworkGate$", "checks": {"quick": 2500, "thorough": 8000}, "shards": {"quick": 1, "thorough": 16}},
        ],
        "rule": "rapid draws a key selector (header by hash / by number, body, receipts), a key block and a second block, each a genuine "
                "vector (13 headers with valid proofs of four eras, 7 blocks with body and receipts, 3 headers in an obsolete proof format) "
                "or a synthetic block (0..40 legacy/2930/1559/blob transactions, 0..2 uncles, 0..16 withdrawals from Shanghai on, 0..40 "
                "receipts with logs; header derived from them), whether the content is taken from the key block or the other one, "
                "optionally a content kind that does not fit the key, a header source (honest oracle; oracle answering with another "
                "header; real ValidationOracle over an RPC that is honest / answers with another header / answers undecodably / serves "
                "made-up historical summaries) and 0..2 mutations: list element dropped/duplicated/swapped/altered/taken from the other "
                "block for transactions, uncles, withdrawals, receipts; withdrawals left out (legacy container) or an empty list added; "
                "header field/number/proof altered, proof or header swapped with the other block's; bit flips, truncation, extension, "
                "offset arithmetic; key selector/byte/length/number changes. Non-trivial = the reference reached a root/hash/proof "
                "comparison, or the case is a cross-pairing or uses a lying source. A second check sends batches of 1..4 such items (some keys already "
                "present) through history.Network.validateContents of a real Network over a recording ContentStorage: every Put must be a bound "
                "item of the batch, byte for byte, under sha256(key); a batch that passes must be bound throughout.",
        "assumptions": [
            "an implementation of the validation.Oracle interface returns the header with the requested hash or an error: a test double "
            "breaking that contract (source 'lying-oracle') is judged against the header it returned; the production implementation "
            "(ValidationOracle over RPC) is judged against the true header",
            "withdrawals: a body without a withdrawals list is bound only to a header whose withdrawals root is absent or the empty-list "
            "root; a body with one only to a header having exactly that root (weakest reading; the repository's encoder writes the legacy "
            "container for an empty list)",
            "a non-canonical but equivalent encoding of a transaction/receipt/uncle list is judged by what it decodes to",
            "empty content keys are property C01's subject and not generated",
            "the three Bellatrix entries of types/history/testdata/header_with_proof.yaml are moved into today's field order by the loader",
        ],
        "required_classes": {"quick": ["getter:refused-then-same", "getter:refused-then-genuine", "getter:body:returned", "honest-bound:header:genuine", "honest-bound:body:genuine", "honest-bound:receipts:genuine",
                                       "honest-bound:body:synthetic", "honest-bound:receipts:synthetic",
                                       "ref:tx-root", "ref:uncle-hash", "ref:withdrawals-root", "ref:withdrawals-missing", "ref:withdrawals-unexpected",
                                       "ref:receipts-root", "ref:key-mismatch", "ref:proof:leaf-branch-mismatch",
                                       "source:lying-oracle", "source:rpc-honest", "source:rpc-lying", "source:rpc-undecodable", "source:rpc-forged-summaries",
                                       "cross-pairing", "content-kind-under-other-key", "legacy-body-for-withdrawals-header",
                                       "shanghai-body-for-pre-shanghai-header",
                                       "genuine-accepted:premerge:sel0", "genuine-accepted:bellatrix:sel0", "genuine-accepted:capella:sel0", "genuine-accepted:deneb:sel0",
                                       "genuine-accepted:capella:sel1", "genuine-accepted:deneb:sel2",
                                       "key-era:premerge", "key-era:bellatrix", "key-era:capella", "key-era:deneb",
                                       "gate:stored", "gate:partly-stored", "gate:unbound-refused", "gate:key-already-present", "gate:multi-item-batch", "gate:rpc-source"]},
    }
