from config.common import *  # noqa

CHECK = {
        "package": "p_valid",
        "level": EXPLORATION,
        "level_text": "Generated-input search with a reference model: the header validator is built over synthetic accumulators "
                      "(hook) and compared, in both directions, with an independent SHA-256 Merkle-branch verifier by generalized "
                      "index on thousands of honest and corrupted proofs per run. Absence of counterexamples is not a proof.",
        "level_note": "Trusted: the reference verifier and sparse Merkle tree (harness/model/vmodel/merkle.go, headerproof.go; unit-tested "
                      "against the repository's genuine proofs of all four eras), go-ethereum's header hashing, rapid. "
                      "Hook: validation.VerifNewHeaderValidator (constructor over caller-supplied accumulators).",
        "technique": "property-based testing (rapid), differential against a reference Merkle verifier; plan-first with structural mutations",
        "runs": [
            {"name": "c03", "run": "^TestC03_HeaderProofs$", "checks": {"quick": 8000, "thorough": 30000}, "shards": {"quick": 1, "thorough": 16}},
            {"name": "c03default", "run": "^TestC03_DefaultValidators$", "checks": {"quick": 1500, "thorough": 20000}, "shards": {"quick": 1, "thorough": 8}},
            {"name": "c03prover", "run": "^TestC03_RepoProver$", "checks": {"quick": 60, "thorough": 400}, "shards": {"quick": 1, "thorough": 16}},
        ],
        "rule": "[production wiring] validators built as the node builds them (embedded mainnet accumulators; 1..4 instances per process, the last one judged) on the repository's genuine "
                "mainnet header proofs with the proof slot moved by 0/+-1/2/757..759 periods, 0..3 accumulator lengths and 0/+-1/8191 slots; verdict must equal the reference's against the "
                "embedded accumulators. [synthetic accumulators] rapid draws a world: an era for the header's block number (first/last/+-1 of each era = the fork boundaries, or random), "
                "pre-merge an epoch accumulator of 1..8192 records (SSZ list root with length mix-in) placed in a 1897-entry epoch list, "
                "post-merge a beacon block root committing to the header hash at gindex 3228/6444 placed at a slot of a sparse or full "
                "8192-leaf block_roots vector that is committed by a historical root (depth 14) or a historical summary (depth 13, held by "
                "the validator or only served by its oracle); then 0..2 mutations: sibling/root byte flips, slot arithmetic incl. positions "
                "beyond the list and below the Capella start, header field or number changes (other era, +-1, +-8192), truncation/extension, "
                "sibling swap, neighbour's branch, accumulator truncated/shifted/flipped, proof built with another era's layout. "
                "Every case is judged by the reference (accept <=> reference verifies); a panic is a violation. Non-trivial = an honest proof, or a mutated one whose reference verdict was reached by a hash or position comparison "
                "(a proof rejected for its size alone is only counted); classes record honest/era and the reference's rejection reason per era. A second check uses the "
                "repository's own prover as the honest party: chains of 1..8192 real headers through history.Accumulator, proofs by "
                "history.BuildProof for the first, last and random records, each verified by the code and by the reference.",
        "assumptions": [
            "pre-merge accumulators handed to the validator have the production length of 1897 epochs (production never uses another length)",
            "summaries served by the oracle extend the ones the validator already holds (historical_summaries is append-only)",
            "block numbers fit in 64 bits",
        ],
        "required_classes": {"quick": ["honest:premerge", "honest:bellatrix", "honest:capella", "honest:deneb",
                                       "verdict:position-out-of-range:bellatrix", "verdict:position-out-of-range:capella",
                                       "verdict:position-out-of-range:deneb", "verdict:leaf-branch-mismatch:premerge",
                                       "verdict:beacon-branch-mismatch:bellatrix", "verdict:beacon-branch-mismatch:deneb",
                                       "full-epoch-chain", "full-block-roots", "mutated-but-valid", "fork-boundary-number",
                                       "oracle-consulted", "cross-era", "prover:honest", "prover:full-epoch"]},
    }
