from config.common import *  # noqa

CHECK = {
        "package": "p_table",
        "level": EXPLORATION,
        "level_text": "Generated operation sequences against the real routing table, judged after every step: (a) serial mode applies one "
                      "table operation at a time (handleAddNode / handleTrackRequest / deleteNode / revalidation.run / handleResponse) with a "
                      "simulated clock and a seeded table RNG; (b) concurrent mode runs the real Table.loop() inside a testing/synctest bubble "
                      "with virtual time and issues 1..8 operations per round from as many goroutines, sampling the invariants whenever every "
                      "goroutine is idle. This explores histories and (by real parallel execution inside the bubble) some schedules; it is a "
                      "search, not a proof, and interleavings that need two goroutines inside one few-nanosecond window are effectively out of reach.",
        "level_note": "Trusted: the invariant checker (harness/p_table/c07_test.go) and its own log-distance / bucket / LAN / /24 functions "
                      "(harness/model/kad), rapid, Go's synctest experiment. Hooks: portalwire/verif_export.go table driver and snapshot "
                      "(VerifTransport, VerifNewTable, VerifHandle*, VerifRevalRun, VerifHandleNextRevalResponse, VerifLoop, VerifSnapshot).",
        "technique": "stateful property-based testing (rapid, plan-first) of the table with parked liveness pings; concurrent mode under "
                     "testing/synctest with the real loop goroutine",
        "runs": [
            {"name": "serial", "run": "^TestC07_Serial", "checks": {"quick": 4000, "thorough": 12000}, "shards": {"quick": 1, "thorough": 16}},
            {"name": "loop", "run": "^TestC07_Loop", "checks": {"quick": 2500, "thorough": 8000}, "shards": {"quick": 1, "thorough": 16}},
        ],
        "crash_is_violation": True,
        "rule": "A plan is a prefill (0..30 nodes per bucket, or one crowded /24 spread over all buckets) plus 0..80 (thorough 160) operations over "
                "{add found (+/- force-live), add inbound, delete, advance clock and run the revalidation scheduler, answer a parked ping "
                "(dead / alive / alive with a higher sequence number => record request returns a record with same or changed endpoint and any "
                "sequence number, or fails), lookup feedback (fruitless x1..7 or with 1..4 found nodes), refresh (concurrent mode)}. Node ids come "
                "from 6 distance classes x 12..30 ids (bucket 0 with true log-distances 9,120,200,239,240; 241; 248; 254; 255; 256), the local id, or "
                "'the i-th node currently in the table'; addresses from 5 public /24s (one crowded), 4 LAN, loopback, 0.0.0.0 and no address; "
                "sequence numbers 0..4. After EVERY step the snapshot must satisfy: <=16 entries and <=10 replacements per bucket, each id at "
                "most once in the whole table, local id absent, every node in the bucket of its log-distance (own computation), and per /24 of "
                "non-LAN addresses <=2 nodes per bucket and <=10 per table counted over the nodes present (entries+replacements); serial mode "
                "also requires every entry to be in exactly the revalidation list it names and every list member to be an entry (the "
                "precondition of the bookkeeping panics). Any panic is a violation. A case is non-trivial when a step ran on a full bucket, an "
                "add was rejected by a /24 limit, an entry's endpoint changed, an entry left a bucket that had replacements, or (concurrent "
                "mode) a round issued >=2 operations at once; distinct = distinct plan digests.",
        "assumptions": [
            "operations are generated within what callers can produce: lookup feedback reports success iff nodes were found and names a node that has an address; "
            "a revalidation's fetched record has the pinged node's id and a usable address (the FINDNODES response filter guarantees both)",
            "the table's internal /24 counters are not compared with the real counts (an over-count only makes the table stricter, which the statement allows)",
            "in concurrent mode the revalidation-list consistency is reported as a class, not judged (the statement does not mention the lists)",
            "concurrent-mode failures are schedule dependent; their replay files may need several runs to reproduce",
        ],
        "required_classes": {"quick": ["step-on-full-bucket", "ip-limit-rejection:bucket", "ip-limit-rejection:table", "endpoint-change",
                                       "delete-with-replacements", "liveness-removal-with-replacements", "bucket0",
                                       "loop:round-with>=2-concurrent-ops", "loop:ping-answered", "loop:sample-with-full-bucket"]},
    }
