from config.common import *  # noqa

CHECK = {
    "package": "p_proto",
    "level": EXPLORATION,
    "level_text": "Generated fault sequences against real protocol instances over an in-memory network. Outbound: 1..24 offers (serial or concurrent) to a silent endpoint, "
                  "a scripted peer (empty / wrong code / undecodable / wrong verdict count / all declined / accepts but nobody answers the dial / slower than the request time-out) "
                  "or a real receiver (success), unencodable offers (65 keys, 2049-byte key), gossip rounds, with or without offer workers, Stop() at a generated point; after "
                  "everything ended the number of obtainable outbound slots must equal the limit. Inbound: 1..12 concurrent offers answered by the real handler, then transfers "
                  "that never dial / dial and stay silent / send garbage / send the wrong count / succeed, ended by Stop() or by the 15 s accept time-out; never more grants than the "
                  "limit, and all slots obtainable again afterwards. Limits 0, 1, 2, 3, 50.",
    "level_note": "Trusted: slot accounting hook (free slots by try-acquire/release), simnet, shortened uTP library timers (hook on the socket config; the 15 s/60 s constants of the code are untouched). "
                  "Schedules of discv5/uTP goroutines belong to the OS scheduler: a violation seen is real, not seeing one is weaker evidence. Quiescence is awaited up to 20 s (25 s for the accept time-out path).",
    "technique": "property-based testing (rapid) with injected faults (scripted peers, silent endpoints, stream corruption, shutdown points): conservation invariant on obtainable slots after quiescence",
    "runs": [
        {"name": "out", "run": "^TestC16_Outbound$", "checks": {"quick": 25, "thorough": 50}, "shards": {"quick": 6, "thorough": 16}, "rounds": {"quick": 1, "thorough": 4}},
        {"name": "queuerace", "run": "^TestC16_GossipQueueRace$", "checks": {"quick": 15, "thorough": 40}, "shards": {"quick": 4, "thorough": 16}},
        {"name": "reuse", "run": "^TestC16_Reuse$", "checks": {"quick": 2, "thorough": 12}, "shards": {"quick": 6, "thorough": 16}},
        {"name": "in", "run": "^TestC16_Inbound$", "checks": {"quick": 8, "thorough": 20}, "shards": {"quick": 8, "thorough": 16}, "rounds": {"quick": 1, "thorough": 3}},
    ],
    "rule": "outbound: rapid draws (limit, offer list {target kind, scripted reply kind, key count, unencodable?}, serial?, stop point, gossip rounds, workers?); inbound: rapid draws "
            "(limit, offer list {key count, transfer outcome}, queue capacity, finish by Stop or by time-out). Non-trivial = at least one unhappy path, the limit reached (an offer "
            "refused / peak == limit), a stop mid-way; distinct = distinct plan digests.",
    "assumptions": [
        "no caller gossips through an instance after stopping it (gossip rounds are only drawn before the stop point)",
        "a peer that opens a uTP connection and closes it without data keeps the receiver reading until the 60 s read time-out; that outcome is only used in runs ended by Stop()",
    ],
    "required_classes": {"quick": ["unhappy-path", "limit-reached", "stop-mid-way", "peak-equals-limit", "gossip-rounds", "no-workers", "finish:stop", "late-release-of-finished-transfer", "gossip-rounds-competed-for-the-last-places", "second-wave-while-limit-transfers-are-in-their-data-phase"]},
}
