from config.common import *  # noqa

CHECK = {
        "package": "p_store",
        "level": EXPLORATION,
        "level_text": "Model-based generated-history search: op lists (put / get / hold / churn / flush / reopen) drawn by rapid are executed "
                      "against the real pebble.ContentStorage on a database the harness opens itself (in-memory file system, 64 KiB memtable "
                      "and block cache) and judged step by step against a map model plus ground truth read by scanning the database. "
                      "Absence of counterexamples over the explored histories is not a proof.",
        "level_note": "Trusted: the map model in the check, pebble's iterator used for ground truth, rapid, the Go toolchain. No hook needed. "
                      "Harness precondition: the database is closed only after prune()'s un-joined compaction goroutine has ended.",
        "technique": "property-based model-based testing (rapid) of the real store with a deliberately tiny cache/memtable; "
                     "second configuration: the history hybrid adapter over two stores",
        "runs": [
            {"name": "store", "run": "^TestC04_Store$", "checks": {"quick": 1200, "thorough": 5000}, "shards": {"quick": 1, "thorough": 16}},
            {"name": "hybrid", "run": "^TestC04_Hybrid$", "checks": {"quick": 300, "thorough": 3000}, "shards": {"quick": 1, "thorough": 4}},
        ],
        "rule": "rapid draws a node id (zero, all-ones, single bit, random), a capacity (1, 2 or 50 MB) and 1..60 operations: put (fresh id from "
                "adversarial distance families / existing id / single-bit neighbour of an existing id; value sizes 0, 1, boundary, <= 4 KiB, "
                "sometimes 20 KB-1.2 MB), get, hold (keep the returned slice and a private copy; compared after every later step and after close), "
                "churn (up to 64 further reads/writes), flush, reopen. After every put the database is scanned: the item is stored exactly, no other "
                "item changed, items vanish only when the store's usage figure exceeded the capacity (pruning), a refused put changes neither "
                "content, usage record nor radius. Every get is compared with the map model. A case is non-trivial when it contains an overwrite "
                "of a live id, a reopen, a read of a single-bit neighbour of a stored id, or a hold followed by >= 256 KiB of other traffic; "
                "hybrid cases when both the ephemeral and the content-id store were written. distinct = distinct plan digests.",
        "assumptions": [
            "content ids are 32 bytes and differ from the node id (statement; the all-zero distance is the reserved size record)",
            "an item counts as pruned only if it vanished during a put or an open while the store's own usage figure was above the capacity",
            "after an item was pruned a get may answer not-found or the last bytes put, nothing else",
            "the ephemeral store (selector 0x05) is not content-id addressed; only non-interference with the content-id store is asserted for it",
            "callers may reuse the buffer they passed to Put once Put has returned",
        ],
        "required_classes": {"quick": ["overwrite", "reopen", "neighbour-read", "hold+churn", "refused", "pruned", "empty-value", "hybrid-both-stores"]},
    }
