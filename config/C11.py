from config.common import *  # noqa

CHECK = {
    "package": "p_proto",
    "level": EXPLORATION,
    "level_text": "Generated-input search on both sides of FINDNODES. Responder: a real protocol instance whose routing table is filled (0..272 "
                  "nodes, full buckets, 300-byte ENRs, mixed liveness, loopback/LAN/public addresses) answers generated distance lists for "
                  "askers on loopback/LAN/public addresses; every record of the decoded reply is judged against a snapshot of the table "
                  "(entry, liveness-checked, bucket covers a requested valid distance, relay rule, <= 32, body fits one packet) and a sixth of "
                  "the cases also go over the in-memory network so the real datagram is measured. Asker: generated NODES lists (valid, bad "
                  "signature, wrong distance, repeats, port <= 1024, loopback/LAN from another class of sender, undecodable) are filtered by "
                  "the code and by a reference filter; both inclusions are required.",
    "level_note": "Trusted: go-ethereum's netutil.CheckRelayIP as the statement of the relay rule, enode signature verification, the table snapshot hook, "
                  "harness/simnet datagram log. A record listed twice because two requested distances share bucket 0 is counted, not judged.",
    "technique": "property-based testing (rapid): validity predicate over real replies against a table snapshot; differential against a reference acceptance filter; datagram size measured on a simulated network",
    "runs": [
        {"name": "resp", "run": "^TestC11_Responder$", "checks": {"quick": 125, "thorough": 150}, "shards": {"quick": 2, "thorough": 16}, "rounds": {"quick": 2, "thorough": 4}},
        {"name": "ask", "run": "^TestC11_Asker$", "checks": {"quick": 1500, "thorough": 20000}, "shards": {"quick": 1, "thorough": 8}},
    ],
    "rule": "responder: rapid draws (table spec list, distance list incl. empty/256 entries/repeated/invalid/0 first, asker address class, end-to-end flag); "
            "asker: rapid draws (sender address class, 0..14 record specs, distance list or no filter). Non-trivial = non-empty reply, reply truncated by the size "
            "budget, 32-record limit reached, datagram measured end to end, list with >= 1 rejected or >= 1 accepted record; distinct = distinct plan digests.",
    "assumptions": [
        "a case whose table changed between the two snapshots around the observation is discarded and counted",
        "the discv5 request timeout of the responder is raised to 20 s so that background revalidation cannot evict harness nodes during a case",
    ],
    "required_classes": {"quick": ["truncated-by-size", "e2e-datagram-measured", "distance-0", "invalid-distance", "some-rejected", "some-accepted", "enr:badsig", "asker:public", "moved-unverified-entry-in-covered-bucket", "asker-record-names-another-address-class-than-the-packet-source"]},
}
