from config.common import *  # noqa

CHECK = {
        "package": "p_table",
        "level": EXPLORATION,
        "level_text": "Model-based search: the same generated operation sequences as C07 (serial mode, seeded table RNG, simulated clock) are applied "
                      "to the real table and to an executable bucket-policy model written from the statement; after every step entry sets, "
                      "replacement order and per-node sequence number, endpoint, verified flag and liveness credit must agree. The one choice the "
                      "statement leaves open (which replacement succeeds a removed entry) is accepted for every replacement. Not a proof: "
                      "sequences are sampled.",
        "level_note": "Trusted: the policy model harness/model/kad/table.go (credit arithmetic +1, /3, remove at 0 and the 5-failures / >=4-entries "
                      "guard are taken from the anchored mechanism), rapid. Hooks: table driver and snapshot in portalwire/verif_export.go; the "
                      "fruitless-query counter lives in the in-memory enode.DB handed to the table.",
        "technique": "model-based stateful property-based testing (rapid, plan-first) with a reference bucket-policy model",
        "runs": [
            {"name": "policy", "run": "^TestC18_", "checks": {"quick": 5000, "thorough": 12000}, "shards": {"quick": 1, "thorough": 16}},
        ],
        "rule": "Plans as in C07 serial mode (prefill + 0..80 operations, colliding id/address/sequence pools, fruitless-query bursts of up to 7, "
                "repeated revalidation rounds with a fixed answer so credit builds up). After every step the table must equal the model: full "
                "bucket + newcomer => entries unchanged, newcomer at replacements[0], list <=10 with the oldest dropped, subject to 'already "
                "present' and the /24 limits counted over the nodes present; an entry leaves only on a failed liveness answer whose credit/3 is 0, "
                "on a fruitless node query that is at least its fifth consecutive one while the bucket has >=4 entries, or by deletion, and "
                "then exactly one of the bucket's replacements (any) becomes an entry; a stored record changes only to a higher sequence number "
                "(any change on inbound contact) and only if the new address fits the limits; an endpoint change clears the verified flag; a "
                "liveness answer for a node that left meanwhile changes nothing. Non-trivial: a newcomer met a full bucket, an entry was removed "
                "and a replacement promoted, an update was rejected for not being newer, an endpoint change cleared the flag, a failed check "
                "was survived on credit, a fruitless-query removal or its small-bucket exemption occurred; distinct = distinct plan digests.",
        "assumptions": [
            "the /24 admission test of a newcomer to a full replacement list counts the oldest replacement that is about to be dropped (the statement leaves this order open; the model follows the conservative reading)",
            "the fruitless-query counter is per (node id, address) as persisted in the node database, reset by any successful query",
            "force-live additions (every production caller of addFoundNode except the lookup worker) start with credit 1 and the verified flag set",
            "entry order inside a bucket and revalidation-list membership are not compared",
        ],
        "required_classes": {"quick": ["full-bucket:newcomer-to-replacements", "full-bucket:oldest-replacement-dropped", "removal-with-promotion",
                                       "rejected-not-newer-record", "endpoint-change-clears-verified", "removal:credit-exhausted",
                                       "failed-check-survived-on-credit", "removal:fruitless-queries", "fruitless-queries-kept:small-bucket",
                                       "ev:update-rejected-ip", "ev:answer-for-departed-node", "inbound-record-change"]},
    }
