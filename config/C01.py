from config.common import *  # noqa

CHECK = {
    "package": "p_proto",
    "level": EXPLORATION,
    "level_text": "Generated sequences of hostile inputs against real protocol instances configured like portal/node.go for the history, beacon and state "
                  "networks (pebble store + ephemeral store behind the hybrid adapter, beacon storage, state storage; the three validators over a header "
                  "oracle serving the repository's genuine vectors). Five surfaces in any order and from any of five senders (loopback / LAN / public / "
                  "no version entry / the node itself): TALKREQ bytes through the talk handler (all message codes, zero/one/two-byte requests, valid, "
                  "mutated and raw bodies), the four response processors, stream bodies and single-item uTP content, validators and storage adapters with "
                  "peer-chosen keys of every selector and length and contents mutated from genuine mainnet vectors (bit flips, truncation, extension, 32- and "
                  "64-bit field boundary values). Every call runs under recover with a 60 s bound, non-empty replies must be the matching well-formed response, "
                  "and afterwards the node must still answer a well-formed PING. A black-box round sends the same bytes as real TALKREQ packets on the portal "
                  "protocol id and on the uTP channel over the in-memory network.",
    "level_note": "Trusted: recover() in the calling goroutine; for goroutines the handlers spawn (which no recover reaches) the plan is written ahead to a file and a dead "
                  "test process is reported as a violation with that file as replay. A call that has not returned after 60 s is counted inconclusive, not judged. "
                  "Well-formedness of replies is judged with the repository's own decoders (C14 owns their correctness). Deep proof-field mutations of validators are also covered by C02/C03/C13.",
    "technique": "property-based testing (rapid): stateful hostile-input sequences with structured mutation of genuine vectors; robustness oracle (no panic, call returns, reply well-formed, node still serves); native go fuzz of the talk handler in thorough",
    "crash_is_violation": True,
    "runs": [
        {"name": "surfaces", "run": "^TestC01_Surfaces$", "checks": {"quick": 100, "thorough": 120}, "shards": {"quick": 6, "thorough": 16}, "rounds": {"quick": 3, "thorough": 8}},
        {"name": "lookups", "run": "^TestC01_Lookups$", "checks": {"quick": 20, "thorough": 40}, "shards": {"quick": 4, "thorough": 16}, "rounds": {"quick": 1, "thorough": 3}},
        {"name": "wire", "run": "^TestC01_Wire$", "checks": {"quick": 30, "thorough": 60}, "shards": {"quick": 4, "thorough": 16}, "rounds": {"quick": 2, "thorough": 4}},
        {"name": "validators", "package": "p_valid", "run": "^TestC01_(HeaderProofInputs|HistoryInputs|StateInputs)$", "checks": {"quick": 2500, "thorough": 20000}, "shards": {"quick": 1, "thorough": 8}},
        {"name": "dialogue", "run": "^TestC01_Dialogue$", "checks": {"quick": 40, "thorough": 80}, "shards": {"quick": 4, "thorough": 16}, "rounds": {"quick": 2, "thorough": 4}},
    ],
    "fuzz": [{"name": "FuzzC01Talk", "time": "120s"}],
    "rule": "rapid draws (network, 1..30 steps {surface, sender, bytes}) resp. (network, 1..25 packets on the portal or uTP channel) resp. a dialogue (reply scripts of a scripted peer per request type + 1..8 actions that make the node issue requests, "
            "including pings of the peer that announce a newer record so the node asks for it on its own) resp. the structured validator worlds of C02/C03/C13 (constructed headers, proofs and slots that stay consistent with the key; judged here only for 'no panic'). Keys: empty, selector only, selector + short/32/long body, "
            "unknown selector, genuine key with another selector, mutated genuine key; contents: empty, short raw, genuine vector, mutated genuine vector. Non-trivial = a step with a "
            "message of <= 2 bytes or a key of <= 1 byte, an answered request, a processed response, a queued stream, an accepted validation, a successful put, a packet sent over the wire; "
            "distinct = distinct plan digests.",
    "assumptions": [
        "the header oracle used by the validators is a harness mock serving the genuine headers (the production RPC oracle is exercised under C02/C13)",
        "hangs are only detected as 'did not return in 60 s' and reported as inconclusive",
    ],
    "required_classes": {"quick": ["talk:len<=2", "talk:answered", "content:len<=2", "pong:processed", "nodes:processed", "offerresp:processed", "stream:queued",
                                   "validate:accepted", "validate:key-len<=1", "put:ok", "get:key-len<=1", "wire:utp-packet", "wire:portal-packet", "late-replies-after-lookup-ended", "enr-or-nodes-request-answered-from-script", "ephemeral:stored-then-asked", "structured-validator-input:header-proof", "structured-validator-input:history-content", "structured-validator-input:state-proof", "net:history", "net:beacon", "net:state"]},
}
