from config.common import *  # noqa

CHECK = {
        "package": "p_store",
        "level": EXPLORATION,
        "level_text": "Generated-history search: put histories with adversarially chosen content ids run against the real pebble.ContentStorage; "
                      "after every step the harness scans the database it owns and compares Radius(), the accept/refuse verdict and the retained "
                      "key set with the big-endian XOR metric of the statement. (The in-range helper half of the property is checked in package "
                      "p_proto, TestC06_InRange.) Absence of counterexamples is not a proof.",
        "level_note": "Trusted: big-endian reference arithmetic (math/big) in harness/model/storemodel, pebble's iterator for ground truth, rapid. "
                      "Open known finding D11 (little-endian decode of the distance key, pinned by storage/pebble TestPrune) is recognised by a "
                      "second model computing the little-endian prediction from the same pre-state; only observations equal to that prediction are "
                      "excluded, everything else that breaks the statement is a violation.",
        "technique": "property-based testing (rapid) with state-relative adversarial ids (radius-1, radius, radius+1 in either byte order, farthest "
                     "retained item, single-bit neighbours, palindromic distances) and a defect classifier for the open finding",
        "runs": [
            {"name": "store", "run": "^TestC06_Store$", "checks": {"quick": 300, "thorough": 1500}, "shards": {"quick": 1, "thorough": 16}},
            # the in-range helper and its three call sites (package p_proto)
            {"name": "conc", "run": "^TestC06_Conc$", "checks": {"quick": 60, "thorough": 400}, "shards": {"quick": 4, "thorough": 16}},
            {"name": "inrange", "package": "p_proto", "run": "^TestC06_InRange$", "checks": {"quick": 20000, "thorough": 300000}, "shards": {"quick": 1, "thorough": 16}},
            {"name": "boundary", "package": "p_proto", "run": "^TestC06_Boundary$", "checks": {"quick": 150, "thorough": 300}, "shards": {"quick": 1, "thorough": 8}, "rounds": {"quick": 1, "thorough": 4}, "shrink_exec": 300},
            {"name": "gossipsite", "package": "p_proto", "run": "^TestC06_GossipSite$", "checks": {"quick": 60, "thorough": 150}, "shards": {"quick": 4, "thorough": 16}, "rounds": {"quick": 1, "thorough": 3}},
            {"name": "sites", "package": "p_proto", "run": "^TestC06_Sites$", "checks": {"quick": 2500, "thorough": 20000}, "shards": {"quick": 2, "thorough": 16}},
        ],
        "rule": "[in-range half, p_proto] rapid draws (node id, content id from classes uniform / shared prefix / single bit / chosen leading+trailing distance bytes / palindromic "
                "distance, radius from classes dist-1, dist, dist+1, < 600, 2^k, 2^k+-1, max, between 257 and dist, the little-endian reading of the distance) for the helper, and "
                "(content key, radius class) against the offer filter in both accept encodings and the store RPC of a real instance with a settable-radius store; judged: in range whenever "
                "radius > XOR distance, out of range whenever radius < distance; at equality the helper must decide as the real pebble store's admission does (differential check on byte-palindromic distances, which read the same in either byte order). Non-trivial there = big- and little-endian readings order differently, "
                "256 < radius <= distance, radius < 2^9, boundary. Gossip site: 1..6 table nodes report (pong, a payload type the sub-network supports) a radius from the same classes relative to their own distance from the content; "
                "with at most eight candidates the chosen set must be exactly {peer : radius > XOR distance}; non-trivial when the byte order of the reported radius decides the verdict. [store half, p_store] 30% of the histories are sparse "
                "(2..12 puts of 0 B .. 110% of the capacity, each mostly closer than everything before it, so that a pruning pass can empty the store after the radius has shrunk); the others:  node id (zero, all-ones, single bit, random), capacity 1/2/0 MB, 1..70 operations (put, reopen, flush) with values of 0.5-3 pruning "
                "quanta so that prunes come every few puts; ids: single bit, tiny, chosen log distance, big-endian-small/little-endian-large and "
                "vice versa, palindromic, far end, uniform, existing, single-bit neighbour, the farthest retained item, and distances equal to the "
                "current radius -1/0/+1 read big- or little-endian. After every step: every retained item has BE(distance) <= Radius(); refused => "
                "BE(distance) >= radius; accepted => BE(distance) <= radius; Radius() did not grow within one open; a refused put leaves the "
                "radius unchanged. A case is non-trivial when at least one put ran a pruning pass (class prune+refusal when a refusal occurred "
                "too). distinct = distinct plan digests.",
        "assumptions": [
            "'within the radius' is read as distance <= radius (the item the radius is derived from sits at equality)",
            "the radius may be re-derived on reopen; 'only shrinks during a run' is judged within one open",
            "the store half only: the relation between the store's rule and portalwire's inRange is judged in p_proto (observed here: the "
            "store refuses at distance == radius, see classes boundary:*)",
        ],
        "required_classes": {"quick": ["prune+refusal", "radius-shrank", "palindromic-distance", "BE/LE-disagree-vs-radius",
                                       "probe:radius+0,le=false", "probe:radius-1,le=false", "probe:radius+1,le=false", "reopen", "prune-emptied-store-with-shrunk-radius", "gossip-site:byte-order-of-radius-matters", "gossip-site:covered-peer-chosen", "gossip-site:uncovered-peer-skipped", "conc-round-shrank-the-radius-and-refused-puts"]},
    }
