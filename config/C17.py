from config.common import *  # noqa

CHECK = {
        "package": "p_store",
        "level": FAULT_ENUM,
        "level_text": "Fault enumeration: a put history runs on the real store over an op-logging file system (wrapper around pebble's strict "
                      "in-memory FS); for EVERY prefix of the logged file-system operations (create, write, sync, rename, remove, reuse, "
                      "mkdir, lock, directory sync) the disk image is rebuilt three times - unsynced data kept, lost "
                      "(MemFS.ResetToSyncedState), and partially lost - plus torn variants of the write at the crash point; every image is "
                      "reopened (pebble.Open + NewStorage), scanned and judged, and further puts/gets are made on it. Exhaustive over the crash "
                      "points of each explored history (thinned only above 700/3000 points, counted), not over histories or background schedules.",
        "level_note": "Trusted: the op-logging wrapper and its replay (harness/p_store/logfs_test.go), pebble's strict MemFS as the model of what a "
                      "disk keeps (data durable after file sync, directory entries after directory sync), pebble's iterator for ground truth. "
                      "Background flush/compaction timing is not controlled: the log is one real execution, every image of it is a reachable state. "
                      "A configurable directory-fsync delay only perturbs that schedule. Open findings: D11 (little-endian radius on open) and D20 "
                      "(pebble v1.1.5 syncs a MANIFEST edit before the directory entry of the new table), each recognised by a precise classifier.",
        "technique": "crash-point enumeration by file-system operation log replay (kept / lost / partially lost unsynced data, torn writes) + reopen + "
                     "ground-truth scan + continuation",
        "runs": [
            {"name": "crash", "run": "^TestC17_", "checks": {"quick": 20, "thorough": 60}, "shards": {"quick": 1, "thorough": 16}},
        ],
        "rule": "history shapes: small (never reaches the capacity), bigfirst (one item of 88-96% of 1 MB then 3..18 puts), quantum (27..40 items "
                "<= 5% of 1 MB), cap0 (capacity 0: every put runs a pruning pass); memtable 64 KiB / 1 MiB / 4 MiB; ids as in C04-C06; occasional "
                "clean restart and flush inside the history. Per image: reopen succeeds; every item (scan and Get of every id ever used) is "
                "byte-identical to a value some put that had started before the crash point wrote under that id; usage record >= bytes present "
                "(before and after NewStorage); record > capacity => the open freed >= 5% (or everything) farthest-first, otherwise the open "
                "changed nothing; all items <= 5% => held <= capacity; Radius() == big-endian distance of the farthest retained item when more "
                "than 95% full, maximum when at most 95% full (either when record and real bytes disagree about 95%); then 1..3 further puts with "
                "get-back and accounting checks. evaluations = images judged. A history is non-trivial when for some crash point the lost or "
                "partially-lost image differs from the kept one. distinct = distinct plan digests of such histories.",
        "assumptions": [
            "durability of acknowledged puts is NOT asserted (the statement does not; puts are written with sync disabled)",
            "an item found after a crash may be any version written by a put that had started before the crash point",
            "'more than 95% full' may refer to the usage record or to the real bytes, before or after the open's pruning pass: when these "
            "disagree both radius answers are accepted; an empty store makes the clause vacuous",
            "partially lost = some of the files/directories open at the crash point reach the disk on their own before the rest is lost",
            "directory entries are durable only after a directory sync (POSIX-strict model of pebble's own strict MemFS)",
        ],
        "required_classes": {"quick": ["all-crash-points", "crash:inside-put", "crash:inside-pruning-put", "crash:at-put-boundary",
                                       "history-with-prune", "open:over-capacity", "open:<=95%", "open:>95%", "image:torn-write",
                                       "image:differs-from-unsynced-kept"]},
        "exhaustive_ok": False,
    }
