EXPLORATION = "exploration"
FAULT_ENUM = "fault_enumeration"
