from config.common import *  # noqa

CHECK = {
        "package": "p_valid",
        "level": EXPLORATION,
        "level_text": "Generated-input search with a reference model: offers built from real go-ethereum tries (every hashed node of "
                      "every path as the target) and their structural mutations are judged by an independent MPT proof walker over "
                      "RLP lists; what Storage.Put writes is compared byte for byte with the final node / the code. "
                      "Absence of counterexamples is not a proof.",
        "level_note": "Trusted: the reference walker, RLP reader, SSZ readers and root builder (harness/model/vmodel/mpt.go, rlpmini.go, "
                      "statecontent.go; unit-tested against the repository's mainnet state vectors and differentially against go-ethereum's "
                      "trie), go-ethereum's trie as the generator of honest tries, rapid. No hook.",
        "technique": "property-based testing (rapid) against a reference MPT proof walker; plan-first with structural mutations",
        "runs": [
            {"name": "c13", "run": "^TestC13_", "checks": {"quick": 8000, "thorough": 20000}, "shards": {"quick": 1, "thorough": 16}},
        ],
        "rule": "rapid draws a trie (1..500 leaves; random 32-byte keys, families sharing 1..31 leading bytes, 1..3-byte keys with keys that "
                "are prefixes of others, low-entropy nibbles; values small enough to be inlined, large, mixed or account RLP), for storage "
                "and bytecode an account trie of 1..40 real StateAccounts around the contract (optionally sharing up to 63 nibbles with it), "
                "a target among all hashed nodes, and 0..2 mutations of: path (shorter/longer/one nibble), node hash, block hash (another "
                "known header / unknown), proof order, dropped/duplicated/surplus/empty proof, one byte of one node, proof of another "
                "trie, re-targeting to the parent, address hash, the same on the account proof, account proof of another account, code bytes; "
                "plus a crafted class where a leaf's value is the hash of a forged continuation. Header source: harness oracle, or the real "
                "ValidationOracle over an in-process RPC that is honest or answers with another header. Non-trivial = a proof containing an extension node or an inline child, a leaf as target, a "
                "mutated-but-still-valid offer, or a mutated offer the reference rejects at a hash-link / path / root comparison (an offer with no node at all is only counted); classes: honest per kind, reference-rejects per kind, extension/leaf/inline-child/branch-value in proof.",
        "assumptions": [
            "for bytecode 'accepted' means ValidateContent and Storage.Put both succeed (state.Network.validateContents calls them in that "
            "order and gossips only then); keccak(code) is checked by Put, not by the validator",
            "go-ethereum's trie produces well-formed tries (it is the generator of honest inputs, not the judge)",
            "an honest account proof whose leaf sits directly below a depth-63 branch (empty leaf key) is refused by the code; counted as "
            "class honest-rejected:empty-leaf-key, a completeness gap outside this soundness property",
        ],
        "required_classes": {"quick": ["honest:account-node", "honest:storage-node", "honest:bytecode",
                                       "ref-rejects:account-node", "ref-rejects:storage-node", "ref-rejects:bytecode",
                                       "proof-has-extension", "proof-has-inline-child", "proof-has-branch-value", "target-is-leaf",
                                       "target-is-root", "stored-checked", "crafted:leaf-value-as-link", "source:rpc-lying",
                                       "mut:path-short", "mut:path-long", "mut:drop", "mut:surplus", "mut:block", "mut:empty"]},
    }
