from config.common import *  # noqa

CHECK = {
    "package": "p_wire",
    "level": EXPLORATION,
    "level_text": "Generated-input search with round-trip, canonical-form and limit oracles over every wire message, ping-extension payload, "
                  "content-key container and content container: values are drawn from the declared limits (read from the ssz struct tags / "
                  "the package constants), byte strings are structured mutations of valid encodings plus hostile constants; the thorough "
                  "tier adds coverage-guided native fuzzing of the decoders. Right level for pure codecs; no proof of absence.",
    "level_note": "Trusted: the struct tags / constants as statement of the limits, reflection-based equality (nil == empty list), rapid, Go toolchain. "
                  "Strict clauses (accepted bytes re-encode identically, limits enforced on decode) are asserted for wire messages, ping payloads "
                  "and key containers; for history/state content containers only the value round trip is asserted, as the statement says.",
    "technique": "property-based testing (rapid): encode/decode round trip, decode/re-encode canonical form, limit metamorphic (limit, limit+1); native go fuzz in thorough",
    "runs": [
        {"name": "c14", "run": "^TestC14_", "checks": {"quick": 400, "thorough": 6000}, "shards": {"quick": 1, "thorough": 16}},
    ],
    "fuzz": [{"name": "FuzzC14Bytes", "time": "90s"}],
    "rule": "per container type (47 types) rapid draws (a) values: in-limit, one dimension exactly at its declared limit, one dimension beyond it / wrong fixed size; "
            "checked: decode(encode(v)) == v, over-limit => encode fails or decoder rejects; (b) byte strings: valid encodings and their mutations "
            "(bit flip, byte set, 4-byte offset +-1/+-4/0/len/len+1, truncate, extend, splice), hostile constants (zero offsets, short inputs) and raw bytes; "
            "checked for wire messages, ping payloads and key containers: decode ok => re-encode == input and all declared limits hold. "
            "Non-trivial = value at/over a limit, non-empty round trip, input that decodes, or offset/truncate/extend mutation that is rejected; "
            "distinct = distinct plan digests. rapid.checks applies per type.",
    "assumptions": [
        "declared limits are those in the ssz struct tags and package constants (64 keys, 2048-byte keys/ENRs, 32 ENRs, 256 distances, 1100-byte payload, 2-byte connection id, ...)",
        "beacon fork-tagged light-client containers are covered by the repository's own vector tests only (value generators for them were not built)",
    ],
    "required_classes": {"quick": ["over-limit:decode-rejects", "over-limit:encode-fails", "at-limit", "decodes", "mutation-rejected:offset", "type:Offer", "type:AcceptV1", "type:Nibbles"]},
}
