#!/usr/bin/env python3
"""Confirms a seeded change delivered in /tmp/seed_out/<ID>/ (patch.diff, demo file(s), meta.json) in a scratch
worktree of /repo, runs the checks of /verif against it, and files it under /verif/seeded/<ID>[-n]/.

  tools/confirm_seed.py /tmp/seed_out/C02 C02 [other property ids to run as well]

Confirmation = (a) patch applies and builds, (b) demonstration passes without the patch, (c) fails with it,
(d) the existing tests of the touched packages still pass with it (portalwire under the shared lock)."""
import glob, json, os, re, shutil, subprocess, sys, time
VERIF = os.path.dirname(os.path.dirname(os.path.abspath(__file__)))
GO = "/root/go/pkg/mod/golang.org/toolchain@v0.0.1-go1.24.2.linux-amd64/bin/go"
src = os.path.abspath(sys.argv[1])
props = sys.argv[2:]
meta = json.load(open(os.path.join(src, "meta.json")))
pid = meta.get("property", props[0])
env = dict(os.environ, GOFLAGS="", GOPROXY="off", GOTOOLCHAIN="local")
wt = "/tmp/confirm_%s_%d" % (pid, os.getpid())
ran = []
def run(cmd, cwd, timeout=1800):
    t0 = time.time()
    p = subprocess.run(cmd, cwd=cwd, env=env, capture_output=True, text=True, timeout=timeout, shell=isinstance(cmd, str))
    ran.append({"cmd": cmd if isinstance(cmd, str) else " ".join(cmd), "rc": p.returncode, "s": round(time.time() - t0, 1)})
    return p
subprocess.run(["git", "-C", "/repo", "worktree", "add", "-q", "--detach", wt, "HEAD"], check=True)
ok = True
result = {"property": pid}
try:
    demos = [f for f in os.listdir(src) if f.endswith(".go")]
    demo_path = meta.get("demo_path", "")
    # demo_path may be a file path or a directory
    for d in demos:
        dst = demo_path if demo_path.endswith(".go") and len(demos) == 1 else os.path.join(os.path.dirname(demo_path) if demo_path.endswith(".go") else demo_path, d)
        os.makedirs(os.path.dirname(os.path.join(wt, dst)), exist_ok=True)
        shutil.copy(os.path.join(src, d), os.path.join(wt, dst))
        pkgdir = os.path.dirname(dst)
    tests = []
    for d in demos:
        tests += re.findall(r"func (Test\w+)\(", open(os.path.join(src, d)).read())
    pat = "^(" + "|".join(tests) + ")$"
    lock = "flock /tmp/portalwire_test.lock " if pkgdir.startswith("portalwire") and "/" not in pkgdir.rstrip("/") else ""
    democmd = "%s%s test -vet=off -count=1 -run '%s' ./%s/" % (lock, GO, pat, pkgdir)
    p = run(democmd, wt)
    result["demo_without_change"] = "pass" if p.returncode == 0 else "FAIL"
    ok &= p.returncode == 0
    p = run(["git", "apply", os.path.join(src, "patch.diff")], wt)
    if p.returncode != 0:
        result["patch"] = "does not apply: " + p.stderr[:200]
        ok = False
    else:
        p = run([GO, "build", "./..."], wt)
        result["build"] = "ok" if p.returncode == 0 else "FAIL"
        ok &= p.returncode == 0
        p = run(democmd, wt)
        result["demo_with_change"] = "fails" if p.returncode != 0 else "PASSES"
        ok &= p.returncode != 0
        # existing tests of touched packages (demo tests excluded by -skip)
        touched = sorted({os.path.dirname(f) for f in re.findall(r"^\+\+\+ b/(\S+)", open(os.path.join(src, "patch.diff")).read(), re.M)})
        for pk in touched:
            lk = "flock /tmp/portalwire_test.lock " if pk == "portalwire" else ""
            p = run("%s%s test -vet=off -count=1 -skip '%s' ./%s/" % (lk, GO, pat, pk), wt, timeout=3600)
            fails = re.findall(r"^--- FAIL: (\w+)", p.stdout, re.M)
            fails = [f for f in fails if f not in ("TestPortalWireProtocol", "TestTraceContentLookup")]
            result["existing_tests:" + pk] = "pass" if not fails and ("ok " in p.stdout or p.returncode == 0 or pk == "portalwire") else "FAIL " + ",".join(fails)[:200]
            ok &= not fails
finally:
    subprocess.run(["git", "-C", "/repo", "worktree", "remove", "--force", wt])
result["confirmed"] = bool(ok)
# run the checks
checks = {}
if ok:
    for p in props:
        r = subprocess.run([os.path.join(VERIF, "tools", "try_patch.py"), os.path.join(src, "patch.diff"), p], cwd=VERIF, capture_output=True, text=True)
        line = [l for l in r.stdout.splitlines() if l.startswith(p + " ")]
        checks[p] = line[0] if line else r.stdout[-300:]
result["checks"] = checks
result["ran"] = ran
# file it
if ok:
    n = 1
    dst = os.path.join(VERIF, "seeded", pid)
    while os.path.exists(dst):
        n += 1
        dst = os.path.join(VERIF, "seeded", "%s-%d" % (pid, n))
    os.makedirs(dst)
    for f in os.listdir(src):
        if f != "meta.json":
            shutil.copy(os.path.join(src, f), dst)
    meta_out = {"property": pid, "summary": meta.get("summary"), "needs_to_manifest": meta.get("needs_to_manifest"),
                "files_changed": meta.get("files_changed"), "demo_path": meta.get("demo_path"), "author": "independent sub-agent given only the property text and a scratch worktree",
                "base_commit": subprocess.run(["git", "-C", "/repo", "log", "--format=%h", "-1"], capture_output=True, text=True).stdout.strip(),
                "confirmation": {k: v for k, v in result.items() if k not in ("ran", "checks")}, "commands_run": ran, "checks_against_it": checks}
    json.dump(meta_out, open(os.path.join(dst, "meta.json"), "w"), indent=1)
    result["filed"] = dst
print(json.dumps({k: v for k, v in result.items() if k != "ran"}, indent=1))
