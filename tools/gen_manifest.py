#!/usr/bin/env python3
"""Regenerates /verif/MANIFEST.json from checks_config.py (single source of truth)."""
import json, os, subprocess, sys
VERIF = os.path.dirname(os.path.dirname(os.path.abspath(__file__)))
sys.path.insert(0, VERIF)
from checks_config import CHECKS as ALL_CHECKS, PACKAGES, NOT_APPLICABLE, HOOK_COMMITS, CLAIMED  # noqa
CHECKS = {k: v for k, v in ALL_CHECKS.items() if k in CLAIMED}

props = [json.loads(l)["id"] for l in open(os.path.join(VERIF, "properties.jsonl"))]
checks = []
for cid in sorted(CHECKS):
    c = CHECKS[cid]
    checks.append({
        "property_id": cid,
        "quick_cmd": "./verif check %s --tier quick" % cid,
        "thorough_cmd": "./verif check %s --tier thorough" % cid,
        "evidence_file": "/verif/evidence/%s.json" % cid,
        "replay_cmd_template": "./verif replay %s {path}" % cid,
        "engine": "harness/" + c["package"],
        "level_claimed": {"category": c["level"], "text": c["level_text"], "design_ref": "DESIGN.md section 4, " + cid},
        "level_note": c["level_note"],
        "technique": c["technique"],
    })
na = []
for pid in props:
    if pid in CHECKS:
        continue
    na.append({"property_id": pid, "reason": NOT_APPLICABLE.get(pid, "check not built yet (build in progress; see DESIGN.md section 6a)")})
man = {
    "version": 1,
    "setup_cmd": "./verif setup",
    "hooks": {
        "guard": "verif (Go build tag)",
        "enable": "go test -c -tags verif of the harness packages in /verif/harness, whose go.mod replaces github.com/zen-eth/shisui with /repo",
        "baseline_off_cmd": "cd /repo && go test -vet=off -count=1 -timeout 25m ./...",
        "source_commits": HOOK_COMMITS,
        "add_only": True,
    },
    "engines": [{"name": "harness/" + p, "path": "/verif/harness/" + p,
                 "serves_properties": sorted(c for c in CHECKS if CHECKS[c]["package"] == p),
                 "kind_free_text": "Go test binary: rapid v1.3.0 plan-first properties" + (" inside testing/synctest bubbles" if PACKAGES[p].get("synctest") else "") + "; native go fuzz targets in the thorough tier where listed"}
                for p in sorted(PACKAGES)],
    "checks": checks,
    "notes": "All checks are driven by /verif/verif (python3 stdlib). Technique family: property-based testing and fuzzing. "
             "Known findings: /verif/known_findings.json. Seeded breakages used for sensitivity: /verif/seeded/.",
    "not_applicable": na,
}
json.dump(man, open(os.path.join(VERIF, "MANIFEST.json"), "w"), indent=1)
print("MANIFEST.json: %d checks, %d not_applicable" % (len(checks), len(na)))
