#!/usr/bin/env python3
"""Merges the per-finding fragments under /verif/known/ into /verif/known_findings.json (the committed known-findings file)."""
import glob, json, os
VERIF = os.path.dirname(os.path.dirname(os.path.abspath(__file__)))
path = os.path.join(VERIF, "known_findings.json")
kf = json.load(open(path))
byid = {f["id"]: f for f in kf["findings"]}
for fn in sorted(glob.glob(os.path.join(VERIF, "known", "*.json"))):
    f = json.load(open(fn))
    byid[f["id"]] = f
kf["findings"] = sorted(byid.values(), key=lambda f: (f["property"], f["id"]))
# the one-line records the interface names: "fixed: property=<id> <commit> <what failed>" for repaired defects,
# "KNOWN-FINDING: property=<id> <what fails>" (what the check prints) for open ones
lines = []
for f in kf["findings"]:
    f.pop("fixed_line", None)
    what = " ".join(str(f.get("what_fails", "")).split())
    if f["status"] == "fixed":
        f["record"] = "fixed: property=%s %s %s" % (f["property"], f.get("commit", "?"), what)
    else:
        f["record"] = "KNOWN-FINDING: property=%s %s" % (f["property"], what)
    lines.append(f["record"])
kf["records"] = lines
json.dump(kf, open(path, "w"), indent=1)
for f in kf["findings"]:
    print("%-5s %-6s %-45s %s" % (f["property"], f["status"], f["id"], f.get("commit", "")))
