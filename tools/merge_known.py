#!/usr/bin/env python3
"""Merges the per-finding fragments under /verif/known/ into /verif/known_findings.json (the committed known-findings file)."""
import glob, json, os
VERIF = os.path.dirname(os.path.dirname(os.path.abspath(__file__)))
path = os.path.join(VERIF, "known_findings.json")
kf = json.load(open(path))
byid = {f["id"]: f for f in kf["findings"]}
for fn in sorted(glob.glob(os.path.join(VERIF, "known", "*.json"))):
    f = json.load(open(fn))
    byid[f["id"]] = f
kf["findings"] = sorted(byid.values(), key=lambda f: (f["property"], f["id"]))
json.dump(kf, open(path, "w"), indent=1)
for f in kf["findings"]:
    print("%-5s %-6s %-45s %s" % (f["property"], f["status"], f["id"], f.get("commit", "")))
