#!/usr/bin/env python3
"""Regenerates the table of section 8.6 of DESIGN.md from seeded/*/meta.json (between the SEEDED markers)."""
import glob, json, os, re
VERIF = os.path.dirname(os.path.dirname(os.path.abspath(__file__)))
rows = []
for d in sorted(glob.glob(os.path.join(VERIF, "seeded", "*"))):
    try:
        m = json.load(open(os.path.join(d, "meta.json")))
    except Exception:
        continue
    checks = m.get("checks_against_it", {})
    verdicts = []
    for p, line in sorted(checks.items()):
        w = line.split()
        verdicts.append("%s %s" % (p, w[1] if len(w) > 1 else "?"))
    summ = re.sub(r"\s+", " ", str(m.get("summary", "")))[:170]
    need = re.sub(r"\s+", " ", str(m.get("needs_to_manifest", "")))[:150]
    first = m.get("first_verdict", {})
    was = ", ".join("%s %s" % (p, v) for p, v in sorted(first.items()) if v and v != "KILLED" and v != "?")
    note = m.get("verdict_note", "")
    last = ", ".join(verdicts) + ((" (at first: %s)" % was) if was else "") + ((" - " + note) if note else "")
    rows.append("| %s | %s | %s | %s |" % (os.path.basename(d), summ.replace("|", "/"), need.replace("|", "/"), last))
table = "| seeded/ | change | needs | quick-tier verdict now |\n|---|---|---|---|\n" + "\n".join(rows) + "\n"
p = os.path.join(VERIF, "DESIGN.md")
s = open(p).read()
a, b = "<!-- SEEDED-BEGIN -->\n", "<!-- SEEDED-END -->"
if a in s and b in s:
    s = s[:s.index(a) + len(a)] + table + s[s.index(b):]
    open(p, "w").write(s)
print(table)
