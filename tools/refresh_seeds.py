#!/usr/bin/env python3
"""Re-runs the quick tier of the recorded properties against every seeded change and updates meta.json
(`checks_against_it` = latest verdicts; `first_verdict` keeps what the checks said when the change was first tried)."""
import glob, json, os, subprocess, sys
VERIF = os.path.dirname(os.path.dirname(os.path.abspath(__file__)))
only = sys.argv[1:]
for d in sorted(glob.glob(os.path.join(VERIF, "seeded", "*"))):
    name = os.path.basename(d)
    if only and name not in only:
        continue
    mp = os.path.join(d, "meta.json")
    m = json.load(open(mp))
    props = sorted(m.get("checks_against_it", {}).keys()) or [m["property"]]
    old = m.get("checks_against_it", {})
    new = {}
    for p in props:
        r = subprocess.run([os.path.join(VERIF, "tools", "try_patch.py"), os.path.join(d, "patch.diff"), p], cwd=VERIF, capture_output=True, text=True)
        line = [l for l in r.stdout.splitlines() if l.startswith(p + " ")]
        new[p] = line[0] if line else r.stdout[-200:]
    if "first_verdict" not in m:
        m["first_verdict"] = {p: (old.get(p, "").split() + ["?", "?"])[1] for p in props}
    m["checks_against_it"] = new
    json.dump(m, open(mp, "w"), indent=1)
    print(name, {p: (v.split() + ["?", "?"])[1] for p, v in new.items()}, "first:", m["first_verdict"], flush=True)
