#!/usr/bin/env python3
"""Applies a patch to a scratch worktree of /repo and runs the quick tier of the given checks against it.

  tools/try_patch.py <patch.diff> C04 [C17 ...]      (VERIF_SEED honoured)

Prints one line per property: KILLED (VIOLATION reported), SURVIVED (exit 0) or INCONCLUSIVE (exit 2).
The worktree, its build output and the alternative module files are removed afterwards. /repo itself is never touched."""
import os, re, shutil, subprocess, sys, time
VERIF = os.path.dirname(os.path.dirname(os.path.abspath(__file__)))
patch = os.path.abspath(sys.argv[1])
props = sys.argv[2:]
name = re.sub(r"[^A-Za-z0-9]", "_", os.path.basename(os.path.dirname(patch)) + "_" + os.path.basename(patch))[:40]
wt = "/tmp/mut_%s_%d" % (name, os.getpid())
subprocess.run(["git", "-C", "/repo", "worktree", "add", "-q", "--detach", wt, "HEAD"], check=True)
try:
    r = subprocess.run(["git", "-C", wt, "apply", patch], capture_output=True, text=True)
    if r.returncode != 0:
        print("PATCH-DOES-NOT-APPLY", r.stderr.strip()[:300])
        sys.exit(3)
    env = dict(os.environ, VERIF_REPO=wt)
    for p in props:
        t0 = time.time()
        r = subprocess.run([os.path.join(VERIF, "verif"), "check", p], cwd=VERIF, env=env, capture_output=True, text=True)
        verdict = {0: "SURVIVED", 1: "KILLED", 2: "INCONCLUSIVE"}.get(r.returncode, "rc=%d" % r.returncode)
        detail = [l for l in r.stdout.splitlines() if l.startswith("  detail:") or l.startswith("INCONCLUSIVE") or l.startswith("BUILD-FAILED")]
        print("%s %s %.0fs %s" % (p, verdict, time.time() - t0, (detail[0][:220] if detail else "")))
finally:
    subprocess.run(["git", "-C", "/repo", "worktree", "remove", "--force", wt])
    suffix = "-" + re.sub(r"[^A-Za-z0-9]", "_", wt)
    for f in os.listdir(os.path.join(VERIF, ".build")):
        if suffix in f:
            os.remove(os.path.join(VERIF, ".build", f))
