"""Per-property configuration of the driver. Each claimed property has a file
config/<ID>.py defining CHECK = {...}: which harness package and test functions
decide the property, how many generated cases per tier, the level claimed and the
non-triviality rule that the evidence file states."""
import glob
import importlib
import os

PACKAGES = {
    "p_wire": {},
    "p_store": {},
    "p_table": {"synctest": True},
    "p_valid": {},
    "p_beacon": {},
    "p_proto": {},
}

HOOK_COMMITS = ["5279cbd", "73ef5ac", "20fd7ae", "3d93e15", "4493d3a", "2469957", "d8690b5"]

# properties whose check is finished and registered in MANIFEST.json (the integrator adds ids here)
CLAIMED = ["C%02d" % i for i in range(1, 21)]

# properties deliberately not claimed, with the reason (none: all 20 are meant to be claimed)
NOT_APPLICABLE = {}

CHECKS = {}
_here = os.path.dirname(os.path.abspath(__file__))
for _f in sorted(glob.glob(os.path.join(_here, "config", "C*.py"))):
    _id = os.path.basename(_f)[:-3]
    CHECKS[_id] = importlib.import_module("config." + _id).CHECK

# only packages that exist on disk are built
PACKAGES = {k: v for k, v in PACKAGES.items() if os.path.isdir(os.path.join(_here, "harness", k))}
