package p_store

// Shared machinery of the store checks (C04, C05, C06 store half, C17): a real
// pebble.ContentStorage on a *pebble.DB the harness opens itself (in-memory file
// system, tiny block cache and memtable), the ground-truth scanner and the
// precondition "no close while prune()'s compaction goroutine is alive".

import (
	"bytes"
	"encoding/binary"
	"errors"
	"fmt"
	"math/big"
	"runtime"
	"runtime/debug"
	"strings"
	"sync"
	"testing"
	"time"

	"github.com/cespare/xxhash/v2"
	"github.com/cockroachdb/pebble"
	"github.com/cockroachdb/pebble/vfs"
	"github.com/ethereum/go-ethereum/p2p/enode"
	"github.com/holiman/uint256"
	"github.com/zen-eth/shisui/storage"
	spebble "github.com/zen-eth/shisui/storage/pebble"
	model "verifharness/model/storemodel"
	"verifharness/pbt"
)

func TestMain(m *testing.M) { pbt.Main(m) }

const dbDir = "db"

// quietLogger discards pebble's informational output. Fatalf panics: pebble
// calls it for unrecoverable background errors, which the checks must see.
type quietLogger struct{}

func (quietLogger) Infof(string, ...interface{}) {}
func (quietLogger) Fatalf(f string, a ...interface{}) {
	panic(fmt.Sprintf("pebble fatal: "+f, a...))
}

// dbOptions: 64 KiB memtable and block cache, so that values leave the memtable
// after a few dozen operations and cache blocks are recycled at once. The
// production configuration (16 MiB) only makes the same effects rarer.
func dbOptions(fs vfs.FS, cache *pebble.Cache) *pebble.Options {
	o := &pebble.Options{
		FS:                          fs,
		Cache:                       cache,
		MemTableSize:                64 << 10,
		MemTableStopWritesThreshold: 4,
		MaxConcurrentCompactions:    func() int { return 2 },
		Logger:                      quietLogger{},
		Levels:                      []pebble.LevelOptions{{TargetFileSize: 256 << 10}},
	}
	o.Experimental.ReadSamplingMultiplier = -1
	return o
}

type rig struct {
	fs               vfs.FS
	db               *pebble.DB
	cs               storage.ContentStorage
	node             model.ID
	capMB            uint64
	cache            *pebble.Cache
	opens            int
	leakedIterCloses int
}

func (r *rig) capBytes() uint64 { return r.capMB * 1_000_000 }

func newRig(node model.ID, capMB uint64, fs vfs.FS) (*rig, error) {
	r := &rig{fs: fs, node: node, capMB: capMB, cache: pebble.NewCache(64 << 10)}
	if err := fs.MkdirAll(dbDir, 0o755); err != nil {
		return nil, err
	}
	if err := r.open(); err != nil {
		r.cache.Unref()
		return nil, err
	}
	return r, nil
}

func (r *rig) open() error {
	db, err := pebble.Open(dbDir, dbOptions(r.fs, r.cache))
	if err != nil {
		return fmt.Errorf("pebble.Open: %w", err)
	}
	cs, err := spebble.NewStorage(storage.PortalStorageConfig{StorageCapacityMB: r.capMB, NodeId: enode.ID(r.node), NetworkName: "verif"}, db)
	if err != nil {
		waitPruneIdle()
		_ = db.Close()
		return fmt.Errorf("NewStorage: %w", err)
	}
	r.db, r.cs = db, cs
	r.opens++
	return nil
}

// closeDB closes the database (precondition: prune's compaction goroutine gone).
func (r *rig) closeDB() error {
	if r.db == nil {
		return nil
	}
	waitPruneIdle()
	err := r.db.Close()
	r.db, r.cs = nil, nil
	return tolerateLeakedIter(err, &r.leakedIterCloses)
}

// prune() never closes the iterator it opens, so pebble's Close reports "leaked
// iterators: N" after any pruning (it still closes everything). None of the
// store properties speaks about the value Close returns, so this is counted and
// tolerated, not judged.
func tolerateLeakedIter(err error, counter *int) error {
	if err != nil && strings.Contains(err.Error(), "leaked iterators") {
		if counter != nil {
			*counter++
		}
		return nil
	}
	return err
}

func (r *rig) reopen() error {
	if err := r.closeDB(); err != nil {
		return fmt.Errorf("close: %w", err)
	}
	return r.open()
}

// destroy releases everything; used in defers.
func (r *rig) destroy() {
	_ = r.closeDB()
	if r.cache != nil {
		r.cache.Unref()
		r.cache = nil
	}
}

func (r *rig) radius() *big.Int {
	return radiusOf(r.cs)
}

func radiusOf(cs storage.ContentStorage) *big.Int {
	var u *uint256.Int = cs.Radius()
	if u == nil {
		return nil
	}
	b := u.Bytes32()
	return new(big.Int).SetBytes(b[:])
}

func (r *rig) put(id model.ID, val []byte) error {
	return r.cs.Put(append([]byte{0x00}, id[:]...), id[:], val)
}

func (r *rig) get(id model.ID) ([]byte, error) {
	return r.cs.Get(append([]byte{0x00}, id[:]...), id[:])
}

// scan reads ground truth from the database the harness owns.
func (r *rig) scan(sums bool) (*model.Snapshot, error) { return scanDB(r.db, sums, nil) }

func scanDB(db *pebble.DB, sums bool, visit func(key model.ID, val []byte) error) (*model.Snapshot, error) {
	s := &model.Snapshot{Items: map[model.ID]model.Item{}}
	it, err := db.NewIter(nil)
	if err != nil {
		return nil, err
	}
	defer it.Close()
	for it.First(); it.Valid(); it.Next() {
		k := it.Key()
		v, err := it.ValueAndErr()
		if err != nil {
			return nil, err
		}
		if bytes.Equal(k, storage.SizeKey) {
			if len(v) != 8 {
				s.Odd = append(s.Odd, fmt.Sprintf("size record of %d bytes", len(v)))
				continue
			}
			s.Rec, s.RecPresent = binary.BigEndian.Uint64(v), true
			continue
		}
		if len(k) != 32 {
			s.Odd = append(s.Odd, fmt.Sprintf("key of %d bytes: %x", len(k), k))
			continue
		}
		var id model.ID
		copy(id[:], k)
		item := model.Item{Len: len(v)}
		if sums {
			item.Sum = xxhash.Sum64(v)
		}
		s.Items[id] = item
		s.Held += uint64(len(k) + len(v))
		if visit != nil {
			if err := visit(id, v); err != nil {
				return nil, err
			}
		}
	}
	if err := it.Error(); err != nil {
		return nil, err
	}
	return s, nil
}

// ---------------------------------------------------------------------------
// harness precondition (DESIGN 1.1a / 2.5): prune() starts `go db.Compact(...)`
// which nobody joins; DB.Compact panics when the DB was closed meanwhile. The
// repository's own TestPrune sleeps 2 s for the same reason.

var pruneMarker = []byte("ContentStorage).prune.func1")

var stackBufPool = sync.Pool{New: func() any { b := make([]byte, 1<<20); return &b }}

func pruneGoroutineAlive() bool {
	bp := stackBufPool.Get().(*[]byte)
	defer stackBufPool.Put(bp)
	for {
		n := runtime.Stack(*bp, true)
		if n < len(*bp) {
			return bytes.Contains((*bp)[:n], pruneMarker)
		}
		*bp = make([]byte, 2*len(*bp))
	}
}

func waitPruneIdle() {
	for i := 0; pruneGoroutineAlive(); i++ {
		if i < 50 {
			runtime.Gosched()
			time.Sleep(50 * time.Microsecond)
		} else {
			time.Sleep(time.Millisecond)
		}
	}
}

// ---------------------------------------------------------------------------
// values are described in plans by (length, seed)

type valSpec struct {
	Len  int
	Seed uint32
}

func (v valSpec) bytes() []byte {
	b := make([]byte, v.Len)
	fillVal(b, v.Seed)
	return b
}

func fillVal(b []byte, seed uint32) {
	x := uint64(seed)*0x9E3779B97F4A7C15 + uint64(len(b))*0xD1B54A32D192ED03 + 0x2545F4914F6CDD1D
	i := 0
	for ; i+8 <= len(b); i += 8 {
		x ^= x << 13
		x ^= x >> 7
		x ^= x << 17
		binary.LittleEndian.PutUint64(b[i:], x)
	}
	for ; i < len(b); i++ {
		x ^= x << 13
		x ^= x >> 7
		x ^= x << 17
		b[i] = byte(x)
	}
}

func (v valSpec) sum() uint64 { return xxhash.Sum64(v.bytes()) }

func sum64(b []byte) uint64 { return xxhash.Sum64(b) }

// equalHandedOut compares a slice the store handed out with the expected bytes.
// A slice pointing into memory the database has already released may fault when
// read; that is reported instead of killing the process.
func equalHandedOut(got, want []byte) (eq bool, fault string) {
	old := debug.SetPanicOnFault(true)
	defer debug.SetPanicOnFault(old)
	defer func() {
		if r := recover(); r != nil {
			eq, fault = false, fmt.Sprintf("memory fault while reading them (%v)", r)
		}
	}()
	return bytes.Equal(got, want), ""
}

func isRefused(err error) bool  { return errors.Is(err, storage.ErrInsufficientRadius) }
func isNotFound(err error) bool { return errors.Is(err, storage.ErrContentNotFound) }

func toID(b []byte) model.ID {
	var id model.ID
	copy(id[:], b)
	return id
}

func xorID(a, b model.ID) model.ID { return model.Dist(a, b) }

func idFromBig(v *big.Int) model.ID {
	var id model.ID
	v.FillBytes(id[:])
	return id
}

func reverseID(a model.ID) model.ID {
	var r model.ID
	for i := range a {
		r[31-i] = a[i]
	}
	return r
}

func short(id model.ID) string { return fmt.Sprintf("%x..%x", id[:3], id[29:]) }
