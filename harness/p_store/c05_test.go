package p_store

// C05 - Storage stays within capacity by pruning farthest-first.
//
// Oracle from ground truth: the harness scans the database it owns before and
// after every put (held = sum of key+value bytes of all items, rec = the
// persisted usage record) and judges each put against the statement.

import (
	"fmt"
	"sync"
	"testing"

	"github.com/cockroachdb/pebble/vfs"
	"pgregory.net/rapid"
	model "verifharness/model/storemodel"
	"verifharness/pbt"
	"verifharness/stats"
)

func genC05(t *rapid.T) histPlan {
	if rapid.IntRange(0, 19).Draw(t, "tinyFlood") == 0 {
		return genC05TinyFlood(t)
	}
	p, _ := genHist(t, histProfile{caps: []uint64{0, 1, 1, 1, 2, 3}, maxOps: 90, reopenPct: 4})
	return p
}

// genC05TinyFlood: more than a thousand items of a few bytes at the far end of the store, then items of 3-4% of the
// capacity until it is crossed: the pass that follows has to drop more than a thousand keys to free its 5%.
func genC05TinyFlood(t *rapid.T) histPlan {
	p := histPlan{Node: make([]byte, 32), CapMB: 1}
	n := rapid.IntRange(1050, 1600).Draw(t, "ntiny")
	for i := 0; i < n; i++ {
		d := make([]byte, 32)
		d[0], d[1], d[2] = 0xff, byte(i>>8), byte(i)
		p.Ops = append(p.Ops, histOp{Op: "put", ID: idRef{Kind: "dist", Dist: d}, Len: rapid.IntRange(0, 6).Draw(t, "tlen"), Seed: uint32(i)})
	}
	for i, m := 0, rapid.IntRange(28, 34).Draw(t, "nbig"); i < m; i++ {
		d := make([]byte, 32)
		d[0], d[1] = 0x01, byte(i)
		p.Ops = append(p.Ops, histOp{Op: "put", ID: idRef{Kind: "dist", Dist: d}, Len: rapid.IntRange(30_000, 40_000).Draw(t, "blen"), Seed: uint32(10_000 + i)})
	}
	return p
}

// judgePass checks one pruning pass (a put or an open) from ground truth.
//
//	start   keys the pass started from (for a put: before-keys plus the new key)
//	would   bytes the store would hold had nothing been pruned
func judgePass(what string, node model.ID, start map[model.ID]struct{}, would uint64, after *model.Snapshot, capB uint64, mustFree bool, c *stats.Case) error {
	for k := range after.Items {
		if _, ok := start[k]; !ok {
			return fmt.Errorf("%s: item %s appeared that nobody put", what, short(xorID(node, k)))
		}
	}
	if after.Held > would {
		return fmt.Errorf("%s: store holds %d bytes, more than the %d that were ever written", what, after.Held, would)
	}
	freed := would - after.Held
	if mustFree {
		c.NT("prune")
		if freed < capB/20 && after.Held != 0 {
			return fmt.Errorf("%s would leave the store over capacity (%d > %d) but freed only %d bytes (< 5%% = %d) and still holds %d", what, would, capB, freed, capB/20, after.Held)
		}
		if after.Held == 0 {
			c.Class("pruned-everything")
		}
	}
	dropped, ff, minDropped, maxKept := model.PrunePass(start, after.Items)
	if len(dropped) > 0 {
		c.Class("drop")
		if len(dropped) > 1 {
			c.Class("drop-multiple")
		}
		if !ff {
			return fmt.Errorf("%s: pruning is not farthest-first: dropped distance %x is closer than kept distance %x", what, minDropped, maxKept)
		}
	}
	if after.Rec < after.Held {
		return fmt.Errorf("%s: persisted usage record %d under-reports the %d bytes held", what, after.Rec, after.Held)
	}
	if len(after.Items) > 0 && !after.RecPresent {
		return fmt.Errorf("%s: items present but no usage record", what)
	}
	if after.Rec > after.Held {
		c.Class("rec-over-reports")
	}
	return nil
}

func keySet(s *model.Snapshot) map[model.ID]struct{} {
	m := make(map[model.ID]struct{}, len(s.Items)+1)
	for k := range s.Items {
		m[k] = struct{}{}
	}
	return m
}

func runC05(p histPlan, c *stats.Case) error {
	node := toID(p.Node)
	r, err := newRig(node, p.CapMB, vfs.NewMem())
	if err != nil {
		return err
	}
	defer r.destroy()
	capB := r.capBytes()
	if capB == 0 {
		c.Class("capacity-0")
	}
	res := newResolver(node)
	snap, err := r.scan(false)
	if err != nil {
		return err
	}
	allSmall := true // every item put so far is <= 5% of the capacity
	for i, op := range p.Ops {
		switch op.Op {
		case "flush":
			if err := r.db.Flush(); err != nil {
				return err
			}
		case "reopen":
			before := snap
			if err := r.reopen(); err != nil {
				return fmt.Errorf("step %d: reopen: %v", i, err)
			}
			after, err := r.scan(false)
			if err != nil {
				return err
			}
			if before.Rec > capB {
				c.Class("reopen-over-capacity")
			}
			if err := judgePass(fmt.Sprintf("step %d: reopen", i), node, keySet(before), before.Held, after, capB, before.Held > capB, c); err != nil {
				return err
			}
			if before.Rec <= capB && len(after.Items) != len(before.Items) {
				return fmt.Errorf("step %d: reopen dropped items although the usage record %d does not exceed the capacity", i, before.Rec)
			}
			snap = after
		case "put":
			id, ok := res.resolve(op.ID, r.radius(), snap)
			if !ok {
				c.Class("skipped-node-id")
				continue
			}
			res.note(id)
			key := model.Dist(node, id)
			newLen := uint64(32 + op.Len)
			before := snap
			perr := r.put(id, valSpec{Len: op.Len, Seed: op.Seed}.bytes())
			after, err := r.scan(false)
			if err != nil {
				return err
			}
			snap = after
			what := fmt.Sprintf("step %d: put(%s, %d bytes)", i, short(id), op.Len)
			if isRefused(perr) {
				c.Class("refused")
				if !after.Equal(before) {
					return fmt.Errorf("%s was refused but changed the store", what)
				}
				continue
			}
			if perr != nil {
				return fmt.Errorf("%s failed: %v", what, perr)
			}
			if capB > 0 && newLen > capB/20 {
				allSmall = false
				c.Class("item>5%")
			}
			if newLen > capB && capB > 0 {
				c.Class("item>capacity")
			}
			var old uint64
			if it, ok := before.Items[key]; ok {
				old = uint64(32 + it.Len)
				c.NT("overwrite-live")
			}
			would := before.Held - old + newLen
			start := keySet(before)
			start[key] = struct{}{}
			if err := judgePass(what, node, start, would, after, capB, would > capB, c); err != nil {
				return err
			}
			if _, ok := after.Items[key]; !ok {
				c.Class("self-pruned")
			}
			if would > capB && len(before.Items) > 1100 {
				c.NT("pass-over-more-than-a-thousand-tiny-far-items")
			}
			if allSmall && capB > 0 {
				c.Class("all-items<=5%")
				if after.Held > capB {
					return fmt.Errorf("%s: all items are <= 5%% of the capacity but the store holds %d > %d bytes after the put returned", what, after.Held, capB)
				}
			}
		}
	}
	return nil
}

func TestC05_Seq(t *testing.T) { pbt.Run(t, "C05", "seq", genC05, runC05) }

// ---------------------------------------------------------------------------
// concurrent rounds: G goroutines put simultaneously (the validation pool of
// 100 workers does); only end-state invariants are judged, at the quiescent
// point after every round.

type concPut struct {
	Dist []byte
	Len  int
	Seed uint32
}

type concRound struct {
	G    int
	Puts []concPut
}

type c05ConcPlan struct {
	Node       []byte
	CapMB      uint64
	PrefillPct int // sequential fill before the first round, % of the capacity
	FillSeed   uint32
	Small      bool // all items <= 5%
	Rounds     []concRound
}

func genC05Conc(t *rapid.T) c05ConcPlan {
	p := c05ConcPlan{Node: genNode(t), CapMB: rapid.SampledFrom([]uint64{1, 1, 2}).Draw(t, "cap"),
		PrefillPct: rapid.SampledFrom([]int{0, 60, 90, 97, 99, 99}).Draw(t, "prefill"), FillSeed: rapid.Uint32().Draw(t, "fseed"),
		Small: rapid.IntRange(0, 3).Draw(t, "small") > 0}
	unit := unitOf(p.CapMB)
	nr := rapid.IntRange(1, 4).Draw(t, "rounds")
	var pool [][]byte
	for r := 0; r < nr; r++ {
		rd := concRound{G: rapid.SampledFrom([]int{2, 3, 4, 8, 16, 32}).Draw(t, "g")}
		np := rapid.IntRange(rd.G, 2*rd.G).Draw(t, "np")
		for i := 0; i < np; i++ {
			var d []byte
			if len(pool) > 0 && rapid.IntRange(0, 5).Draw(t, "reuse") == 0 {
				d = pool[rapid.IntRange(0, len(pool)-1).Draw(t, "pi")]
			} else {
				d = genDist(t)
				pool = append(pool, d)
			}
			var l int
			if p.Small || rapid.IntRange(0, 4).Draw(t, "big") > 0 {
				l = rapid.IntRange(unit/8, unit-32).Draw(t, "len")
			} else {
				l = rapid.IntRange(unit, 3*unit).Draw(t, "blen")
			}
			rd.Puts = append(rd.Puts, concPut{Dist: d, Len: l, Seed: rapid.Uint32().Draw(t, "seed")})
		}
		p.Rounds = append(p.Rounds, rd)
	}
	return p
}

func runC05Conc(p c05ConcPlan, c *stats.Case) error {
	node := toID(p.Node)
	r, err := newRig(node, p.CapMB, vfs.NewMem())
	if err != nil {
		return err
	}
	defer r.destroy()
	capB := r.capBytes()
	unit := unitOf(p.CapMB)
	versions := map[model.ID]map[model.Item]bool{} // by key: every (len,sum) ever put
	addVersion := func(key model.ID, v valSpec) {
		if versions[key] == nil {
			versions[key] = map[model.Item]bool{}
		}
		versions[key][model.Item{Len: v.Len, Sum: v.sum()}] = true
	}
	// sequential prefill
	target := capB * uint64(p.PrefillPct) / 100
	var filled uint64
	for i := 0; filled+uint64(unit/2) <= target; i++ {
		id := churnID(node, p.FillSeed, i)
		v := valSpec{Len: unit/2 - 32, Seed: p.FillSeed + uint32(i)}
		addVersion(model.Dist(node, id), v)
		if err := r.put(id, v.bytes()); err != nil && !isRefused(err) {
			return fmt.Errorf("prefill put failed: %v", err)
		}
		filled += uint64(unit / 2)
	}
	snap, err := r.scan(false)
	if err != nil {
		return err
	}
	if snap.Rec < snap.Held {
		return fmt.Errorf("after sequential prefill: usage record %d under-reports %d bytes held", snap.Rec, snap.Held)
	}
	for ri, rd := range p.Rounds {
		crossing := 0
		vals := make([][]byte, len(rd.Puts))
		ids := make([]model.ID, len(rd.Puts))
		for i, cp := range rd.Puts {
			d := toID(cp.Dist)
			ids[i] = xorID(node, d)
			v := valSpec{Len: cp.Len, Seed: cp.Seed}
			vals[i] = v.bytes()
			addVersion(d, v)
			if snap.Rec+uint64(32+cp.Len) > capB {
				crossing++
			}
		}
		errs := make([]error, len(rd.Puts))
		start := make(chan struct{})
		var wg sync.WaitGroup
		for g := 0; g < rd.G; g++ {
			wg.Add(1)
			go func(g int) {
				defer wg.Done()
				<-start
				for i := g; i < len(rd.Puts); i += rd.G {
					errs[i] = pbt.SafeCall(func() error { return r.put(ids[i], vals[i]) })
				}
			}(g)
		}
		close(start)
		wg.Wait()
		waitPruneIdle()
		if crossing >= 2 {
			c.NT("conc-round>=2-puts-cross-capacity")
		} else if crossing == 1 {
			c.Class("conc-round-1-put-crosses")
		}
		c.Class(fmt.Sprintf("goroutines=%d", rd.G))
		after, err := r.scan(true)
		if err != nil {
			return err
		}
		fail := func(msg string) error {
			return fmt.Errorf("round %d (%d goroutines, %d puts): %s", ri, rd.G, len(rd.Puts), msg)
		}
		for i, e := range errs {
			if e != nil && !isRefused(e) {
				if err := fail(fmt.Sprintf("put %d failed: %v", i, e)); err != nil {
					return err
				}
			}
		}
		if after.Rec < after.Held {
			if err := fail(fmt.Sprintf("persisted usage record %d under-reports the %d bytes held", after.Rec, after.Held)); err != nil {
				return err
			}
		}
		if p.Small && after.Held > capB {
			if err := fail(fmt.Sprintf("all items are <= 5%% of the capacity but the store holds %d > %d bytes after all puts returned", after.Held, capB)); err != nil {
				return err
			}
		}
		for k, it := range after.Items {
			if !versions[k][it] {
				return fmt.Errorf("round %d: item %s holds %d bytes that no put wrote under that id", ri, short(xorID(node, k)), it.Len)
			}
		}
		snap = after
	}
	return nil
}

func TestC05_Conc(t *testing.T) { pbt.Run(t, "C05", "conc", genC05Conc, runC05Conc) }
