package p_store

// An op-logging vfs.FS: every mutating file-system operation pebble performs is
// recorded in order, so that the file system as it was after any prefix of the
// log can be rebuilt on a fresh strict in-memory FS ("crash image"), with the
// unsynced part either kept or dropped (MemFS.ResetToSyncedState) and with the
// last write torn at a byte prefix.

import (
	"fmt"
	"io"
	"os"
	"sort"
	"sync"
	"time"

	"github.com/cockroachdb/pebble/vfs"
)

type fsOpKind byte

const (
	opCreate fsOpKind = iota
	opOpenRW
	opOpenDir
	opOpen
	opReuse
	opLink
	opRemove
	opRemoveAll
	opRename
	opMkdirAll
	opLock
	opWrite
	opWriteAt
	opSync
	opClose
)

var fsOpNames = [...]string{"create", "openrw", "opendir", "open", "reuse", "link", "remove", "removeall", "rename", "mkdirall", "lock", "write", "writeat", "sync", "close"}

func (k fsOpKind) String() string { return fsOpNames[k] }

// mutating reports whether a crash right after the op differs from one before it.
func (k fsOpKind) mutating() bool { return k != opOpen && k != opOpenDir && k != opClose }

type fsOp struct {
	Kind  fsOpKind
	H     int // handle produced (open-type ops) or used (file ops)
	Name  string
	Name2 string
	Data  []byte
	Off   int64
}

type logFS struct {
	vfs.FS // the inner strict MemFS: non-mutating methods are inherited
	mu     sync.Mutex
	log    []fsOp
	nextH  int
	// dirSyncDelay models a disk on which a directory fsync takes a while (on
	// the in-memory FS it is instantaneous, which hides orderings that a real
	// disk produces). It only perturbs the schedule; the op is logged when it
	// completes. Never an oracle input.
	dirSyncDelay time.Duration
}

func newLogFS(inner vfs.FS) *logFS { return &logFS{FS: inner} }

func (l *logFS) length() int {
	l.mu.Lock()
	defer l.mu.Unlock()
	return len(l.log)
}

func (l *logFS) snapshot() []fsOp {
	l.mu.Lock()
	defer l.mu.Unlock()
	return l.log[:len(l.log):len(l.log)]
}

func (l *logFS) wrap(f vfs.File, kind fsOpKind, name, name2 string) vfs.File {
	l.nextH++
	l.log = append(l.log, fsOp{Kind: kind, H: l.nextH, Name: name, Name2: name2})
	return &logFile{File: f, fs: l, h: l.nextH}
}

func (l *logFS) Create(name string) (vfs.File, error) {
	l.mu.Lock()
	defer l.mu.Unlock()
	f, err := l.FS.Create(name)
	if err != nil {
		return nil, err
	}
	return l.wrap(f, opCreate, name, ""), nil
}

func (l *logFS) Open(name string, opts ...vfs.OpenOption) (vfs.File, error) {
	l.mu.Lock()
	defer l.mu.Unlock()
	f, err := l.FS.Open(name, opts...)
	if err != nil {
		return nil, err
	}
	return l.wrap(f, opOpen, name, ""), nil
}

func (l *logFS) OpenReadWrite(name string, opts ...vfs.OpenOption) (vfs.File, error) {
	l.mu.Lock()
	defer l.mu.Unlock()
	f, err := l.FS.OpenReadWrite(name, opts...)
	if err != nil {
		return nil, err
	}
	return l.wrap(f, opOpenRW, name, ""), nil
}

func (l *logFS) OpenDir(name string) (vfs.File, error) {
	l.mu.Lock()
	defer l.mu.Unlock()
	f, err := l.FS.OpenDir(name)
	if err != nil {
		return nil, err
	}
	lf := l.wrap(f, opOpenDir, name, "").(*logFile)
	lf.isDir = true
	return lf, nil
}

func (l *logFS) ReuseForWrite(oldname, newname string) (vfs.File, error) {
	l.mu.Lock()
	defer l.mu.Unlock()
	f, err := l.FS.ReuseForWrite(oldname, newname)
	if err != nil {
		return nil, err
	}
	return l.wrap(f, opReuse, oldname, newname), nil
}

func (l *logFS) simple(kind fsOpKind, name, name2 string, do func() error) error {
	l.mu.Lock()
	defer l.mu.Unlock()
	if err := do(); err != nil {
		return err
	}
	l.log = append(l.log, fsOp{Kind: kind, Name: name, Name2: name2})
	return nil
}

func (l *logFS) Link(oldname, newname string) error {
	return l.simple(opLink, oldname, newname, func() error { return l.FS.Link(oldname, newname) })
}
func (l *logFS) Remove(name string) error {
	return l.simple(opRemove, name, "", func() error { return l.FS.Remove(name) })
}
func (l *logFS) RemoveAll(name string) error {
	return l.simple(opRemoveAll, name, "", func() error { return l.FS.RemoveAll(name) })
}
func (l *logFS) Rename(oldname, newname string) error {
	return l.simple(opRename, oldname, newname, func() error { return l.FS.Rename(oldname, newname) })
}
func (l *logFS) MkdirAll(dir string, perm os.FileMode) error {
	return l.simple(opMkdirAll, dir, "", func() error { return l.FS.MkdirAll(dir, perm) })
}
func (l *logFS) Lock(name string) (io.Closer, error) {
	var c io.Closer
	err := l.simple(opLock, name, "", func() error {
		var e error
		c, e = l.FS.Lock(name)
		return e
	})
	return c, err
}

type logFile struct {
	vfs.File
	fs    *logFS
	h     int
	isDir bool
}

func (f *logFile) Write(p []byte) (int, error) {
	f.fs.mu.Lock()
	defer f.fs.mu.Unlock()
	data := append([]byte(nil), p...) // the inner file may scribble over p
	n, err := f.File.Write(p)
	if err == nil {
		f.fs.log = append(f.fs.log, fsOp{Kind: opWrite, H: f.h, Data: data[:n]})
	}
	return n, err
}

func (f *logFile) WriteAt(p []byte, off int64) (int, error) {
	f.fs.mu.Lock()
	defer f.fs.mu.Unlock()
	data := append([]byte(nil), p...)
	n, err := f.File.WriteAt(p, off)
	if err == nil {
		f.fs.log = append(f.fs.log, fsOp{Kind: opWriteAt, H: f.h, Data: data[:n], Off: off})
	}
	return n, err
}

func (f *logFile) sync(do func() error) error {
	if f.isDir && f.fs.dirSyncDelay > 0 {
		time.Sleep(f.fs.dirSyncDelay)
	}
	f.fs.mu.Lock()
	defer f.fs.mu.Unlock()
	if err := do(); err != nil {
		return err
	}
	f.fs.log = append(f.fs.log, fsOp{Kind: opSync, H: f.h})
	return nil
}

func (f *logFile) Sync() error     { return f.sync(f.File.Sync) }
func (f *logFile) SyncData() error { return f.sync(f.File.SyncData) }

// SyncTo of the strict MemFS gives no durability (it returns fullSync=false and
// does nothing), so there is nothing to record.

func (f *logFile) Close() error {
	f.fs.mu.Lock()
	defer f.fs.mu.Unlock()
	err := f.File.Close()
	f.fs.log = append(f.fs.log, fsOp{Kind: opClose, H: f.h})
	return err
}

// ---------------------------------------------------------------------------
// crash images

// newBaseFS is the file system a process starts on: the data directory exists
// durably.
func newBaseFS() *vfs.MemFS {
	fs := vfs.NewStrictMem()
	if err := fs.MkdirAll(dbDir, 0o755); err != nil {
		panic(err)
	}
	root, err := fs.OpenDir("/")
	if err != nil {
		panic(err)
	}
	if err := root.Sync(); err != nil {
		panic(err)
	}
	_ = root.Close()
	return fs
}

type imageSpec struct {
	K       int    // operations log[0:K) were completed
	Torn    int    // >0: additionally the first Torn bytes of write log[K]
	Variant string // "kept" | "lost" | "partial"
	Seed    uint32 // partial: which open files reach the disk before the loss
}

func applyOp(fs *vfs.MemFS, handles map[int]vfs.File, op fsOp, torn int) error {
	var f vfs.File
	var err error
	switch op.Kind {
	case opCreate:
		f, err = fs.Create(op.Name)
	case opOpenRW:
		f, err = fs.OpenReadWrite(op.Name)
	case opOpenDir:
		f, err = fs.OpenDir(op.Name)
	case opOpen:
		f, err = fs.Open(op.Name)
	case opReuse:
		f, err = fs.ReuseForWrite(op.Name, op.Name2)
	case opLink:
		return fs.Link(op.Name, op.Name2)
	case opRemove:
		return fs.Remove(op.Name)
	case opRemoveAll:
		return fs.RemoveAll(op.Name)
	case opRename:
		return fs.Rename(op.Name, op.Name2)
	case opMkdirAll:
		return fs.MkdirAll(op.Name, 0o755)
	case opLock:
		// only the file's existence belongs to the image, not the in-process lock
		var lf vfs.File
		if lf, err = fs.Create(op.Name); err == nil {
			_ = lf.Close()
		}
		return err
	case opWrite, opWriteAt:
		h := handles[op.H]
		if h == nil {
			return fmt.Errorf("write on unknown handle %d", op.H)
		}
		data := op.Data
		if torn > 0 && torn < len(data) {
			data = data[:torn]
		}
		data = append([]byte(nil), data...)
		if op.Kind == opWrite {
			_, err = h.Write(data)
		} else {
			_, err = h.WriteAt(data, op.Off)
		}
		return err
	case opSync:
		h := handles[op.H]
		if h == nil {
			return fmt.Errorf("sync on unknown handle %d", op.H)
		}
		return h.Sync()
	case opClose:
		if h := handles[op.H]; h != nil {
			delete(handles, op.H)
			return h.Close()
		}
		return nil
	}
	if err != nil {
		return err
	}
	handles[op.H] = f
	return nil
}

// buildImage replays a log prefix on a fresh strict FS.
func buildImage(log []fsOp, spec imageSpec) (*vfs.MemFS, error) {
	fs := newBaseFS()
	handles := map[int]vfs.File{}
	for i := 0; i < spec.K; i++ {
		if err := applyOp(fs, handles, log[i], 0); err != nil {
			return nil, fmt.Errorf("harness: replay of fs op %d (%s %s) failed: %v", i, log[i].Kind, log[i].Name, err)
		}
	}
	if spec.Torn > 0 {
		if err := applyOp(fs, handles, log[spec.K], spec.Torn); err != nil {
			return nil, fmt.Errorf("harness: replay of torn fs op %d failed: %v", spec.K, err)
		}
	}
	switch spec.Variant {
	case "lost":
		fs.ResetToSyncedState()
	case "partial":
		// some of the still open files and directories reach the disk on their
		// own before the power fails, the rest of the unsynced state is lost
		hs := make([]int, 0, len(handles))
		for h := range handles {
			hs = append(hs, h)
		}
		sort.Ints(hs)
		for _, h := range hs {
			x := (uint32(h)*2654435761 ^ spec.Seed) * 2246822519
			if x>>16&1 == 1 {
				_ = handles[h].Sync()
			}
		}
		fs.ResetToSyncedState()
	}
	return fs, nil
}
