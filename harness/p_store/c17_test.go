package p_store

// C17 - Restart and crash leave a consistent store. Level: fault enumeration.
//
// A put history runs on the real store over an op-logging file system. Then the
// file system as of EVERY prefix of the operation log is rebuilt ("crash
// image"), with the unsynced data kept, lost, or partially lost, and with the
// write at the crash point torn; each image is reopened (pebble.Open +
// NewStorage), scanned and judged against the statement, and a few more
// puts/gets are made on it.

import (
	"fmt"
	"math/big"
	"regexp"
	"strings"
	"sync"
	"testing"
	"time"

	"github.com/cockroachdb/pebble"
	"github.com/cockroachdb/pebble/vfs"
	"github.com/ethereum/go-ethereum/p2p/enode"
	"github.com/zen-eth/shisui/storage"
	spebble "github.com/zen-eth/shisui/storage/pebble"
	"pgregory.net/rapid"
	model "verifharness/model/storemodel"
	"verifharness/pbt"
	"verifharness/stats"
)

const fidD11Open = "D11-le-distance-decode-on-open"

// Known finding D20 (open, in the pebble v1.1.5 dependency): objstorage
// provider.vfsSync clears its "directory changed" flag BEFORE the directory
// sync has completed, so a concurrent flush/compaction finishing meanwhile
// skips the directory sync and makes its version edit durable (MANIFEST sync)
// while the directory entry of its new sstable is not. Power loss in that
// window leaves a MANIFEST that names a table file which does not exist, and
// pebble.Open fails. The classifier recognises exactly that situation from the
// operation log: the open error names table N, N.sst was created before the
// crash point, no directory sync completed between its creation and the crash
// point, and the MANIFEST was written or synced in that window.
const fidD20 = "D20-pebble-dir-sync-race"

var reMissingTable = regexp.MustCompile(`file (\d+) \(type 2\) unknown to the objstorage provider: file does not exist`)

func (run *c17Run) dirEntryVolatile(num string, spec imageSpec) bool {
	if spec.Variant == "kept" {
		return false
	}
	name := dbDir + "/" + num + ".sst"
	created := -1
	isDir, isManifest := map[int]bool{}, map[int]bool{}
	for i := 0; i < spec.K; i++ {
		op := run.log[i]
		switch op.Kind {
		case opCreate:
			if op.Name == name {
				created = i
			}
			if strings.Contains(op.Name, "MANIFEST-") {
				isManifest[op.H] = true
			}
		case opOpenDir:
			isDir[op.H] = true
		}
	}
	if created < 0 {
		return false
	}
	// a MANIFEST write (which the OS may flush on its own) or sync after the
	// table was created, with no directory sync completed in between
	end := spec.K
	if spec.Torn > 0 {
		end++
	}
	manifestTouched := false
	for i := created + 1; i < end; i++ {
		op := run.log[i]
		if op.Kind == opSync && isDir[op.H] {
			return false // the entry was durable
		}
		if (op.Kind == opSync || op.Kind == opWrite) && isManifest[op.H] {
			manifestTouched = true
		}
	}
	return manifestTouched
}

type c17Plan struct {
	Node      []byte
	CapMB     uint64
	MemKiB    int // memtable size of the database under test
	DirSyncUs int // a directory fsync of the history's disk takes this long (schedule perturbation only)
	Ops       []histOp
	Cont      []histOp // puts made on every reopened image
	TornSeed  uint32
	Shape     string // informational: which history shape the generator chose
}

func genC17(t *rapid.T) c17Plan {
	p := c17Plan{Node: genNode(t), MemKiB: rapid.SampledFrom([]int{64, 64, 64, 1024, 4096}).Draw(t, "mem"), TornSeed: rapid.Uint32().Draw(t, "torn"),
		DirSyncUs: rapid.SampledFrom([]int{0, 0, 300, 2000}).Draw(t, "dirsync")}
	// history shapes: "small" never reaches the capacity; "bigfirst" starts with one
	// item of 85-94% of the capacity (as the repository's TestPrune does) and
	// crosses it soon; "quantum" fills a 1 MB store with items <= 5% of it;
	// "cap0" is the edge configuration in which every put runs a pruning pass.
	// "nearbig": the nearest item alone is more than 95% of the capacity and the few farther ones less than 5%,
	// so the pass that the crossing put triggers has to drop everything the store holds.
	mode := rapid.SampledFrom([]string{"small", "bigfirst", "bigfirst", "quantum", "quantum", "cap0", "nearbig", "nearbig", "exact95", "exact95"}).Draw(t, "mode")
	p.CapMB, p.Shape = 1, mode
	lo, hi := 1, 15
	switch mode {
	case "cap0":
		p.CapMB, hi = 0, 8
	case "bigfirst":
		lo, hi = 3, 18
		p.Ops = append(p.Ops, histOp{Op: "put", ID: idRef{Kind: "dist", Dist: genDist(t)}, Len: rapid.IntRange(880_000, 960_000).Draw(t, "first"), Seed: rapid.Uint32().Draw(t, "seed")})
	case "quantum":
		lo, hi = 27, 40
	case "exact95":
		// the usage is exactly 95% of the capacity when the store is reopened (nine items of 100 000 bytes and one of
		// 50 000, keys included, and no pass so far): "more than 95% full" is false, the radius is the maximum
		lo, hi = 0, 0
		for i := 0; i < 10; i++ {
			l := 100_000 - 32
			if i == 9 {
				l = 50_000 - 32
			}
			d := make([]byte, 32)
			d[0], d[31] = rapid.ByteRange(1, 0xfe).Draw(t, "e95hi"), byte(i)
			p.Ops = append(p.Ops, histOp{Op: "put", ID: idRef{Kind: "dist", Dist: d}, Len: l, Seed: rapid.Uint32().Draw(t, "seed")})
		}
		p.Ops = append(p.Ops, histOp{Op: "reopen"})
	case "nearbig":
		lo, hi = 0, 4
		near := make([]byte, 32)
		near[31] = rapid.ByteRange(1, 255).Draw(t, "nearLow")
		p.Ops = append(p.Ops, histOp{Op: "put", ID: idRef{Kind: "dist", Dist: near}, Len: rapid.IntRange(951_000, 990_000).Draw(t, "nearLen"), Seed: rapid.Uint32().Draw(t, "seed")})
		for i, k := 0, rapid.IntRange(4, 9).Draw(t, "farN"); i < k; i++ {
			far := make([]byte, 32)
			far[0] = rapid.ByteRange(0x80, 0xff).Draw(t, "farHigh")
			far[1], far[31] = byte(i), rapid.Byte().Draw(t, "farLow")
			p.Ops = append(p.Ops, histOp{Op: "put", ID: idRef{Kind: "dist", Dist: far}, Len: rapid.IntRange(6_000, 11_000).Draw(t, "farLen"), Seed: rapid.Uint32().Draw(t, "seed")})
		}
	}
	n := rapid.IntRange(lo, hi).Draw(t, "n")
	genLen := func() int {
		k := rapid.IntRange(0, 9).Draw(t, "lenClass")
		switch {
		case k == 0:
			return rapid.SampledFrom([]int{0, 1, 100}).Draw(t, "tiny")
		case mode == "quantum":
			return rapid.IntRange(30_000, 49_968).Draw(t, "quantum")
		case k <= 4 && mode != "bigfirst", k <= 2:
			return rapid.IntRange(100, 6000).Draw(t, "small")
		case k <= 8 || mode == "cap0":
			return rapid.IntRange(20_000, 49_968).Draw(t, "quantum")
		default:
			return rapid.IntRange(50_000, 300_000).Draw(t, "big")
		}
	}
	for i := 0; i < n; i++ {
		switch k := rapid.IntRange(0, 29).Draw(t, "op"); {
		case k == 0:
			p.Ops = append(p.Ops, histOp{Op: "reopen"})
		case k == 1:
			p.Ops = append(p.Ops, histOp{Op: "flush"})
		default:
			p.Ops = append(p.Ops, histOp{Op: "put", ID: genRef(t, false), Len: genLen(), Seed: rapid.Uint32().Draw(t, "seed")})
		}
	}
	nc := rapid.IntRange(1, 3).Draw(t, "nc")
	for i := 0; i < nc; i++ {
		p.Cont = append(p.Cont, histOp{Op: "put", ID: genRef(t, false), Len: rapid.SampledFrom([]int{0, 1, 500, 4000, 30_000, 49_968, 120_000}).Draw(t, "clen"), Seed: rapid.Uint32().Draw(t, "cseed")})
	}
	return p
}

type putRec struct {
	id       model.ID
	key      model.ID
	item     model.Item // len + digest of the value
	logStart int        // length of the fs log when Put was called
	logEnd   int        // ... when it returned
	accepted bool
	pruned   bool // the store's usage figure exceeded the capacity in this put
}

type c17Run struct {
	plan     c17Plan
	node     model.ID
	capB     uint64
	log      []fsOp
	puts     []putRec
	ids      []model.ID // every id of the history and of the continuation
	cont     []contPut
	rec      *stats.Recorder
	known    bool
	knownD20 bool
}

type contPut struct {
	id  model.ID
	val valSpec
}

type imageResult struct {
	err     error
	db      *pebble.DB
	classes []string
	digest  uint64 // of the reopened content (to tell whether variants differ)
	d11     bool
	d20     bool
}

func dbOptionsMem(fs vfs.FS, cache *pebble.Cache, memKiB int) *pebble.Options {
	o := dbOptions(fs, cache)
	if memKiB > 0 {
		o.MemTableSize = uint64(memKiB) << 10
	}
	return o
}

// candidates: the versions of each key that a put which STARTED before the
// crash point wrote.
func (run *c17Run) admissible(spec imageSpec, key model.ID, it model.Item) bool {
	limit := spec.K
	if spec.Torn > 0 {
		limit++
	}
	for _, p := range run.puts {
		if p.logStart < limit && p.key == key && p.item == it {
			return true
		}
	}
	return false
}

func (run *c17Run) allSmallBefore(spec imageSpec) bool {
	limit := spec.K
	if spec.Torn > 0 {
		limit++
	}
	for _, p := range run.puts {
		if p.logStart < limit && uint64(32+p.item.Len) > run.capB/20 {
			return false
		}
	}
	return true
}

func snapDigest(s *model.Snapshot) uint64 {
	var acc uint64 = s.Rec*0x9E3779B97F4A7C15 + uint64(len(s.Items))
	for k, it := range s.Items {
		acc += sum64(k[:]) ^ (it.Sum + uint64(it.Len)*1099511628211)
	}
	return acc
}

// checkImage reopens one crash image and judges it. The database is handed
// back open: it may only be closed after prune()'s compaction goroutine ended,
// which the caller establishes for a whole batch at once.
func (run *c17Run) checkImage(spec imageSpec, cache *pebble.Cache) (res imageResult) {
	what := fmt.Sprintf("crash after fs op %d of %d (torn %d, unsynced %s)", spec.K, len(run.log), spec.Torn, spec.Variant)
	fail := func(f string, a ...any) imageResult {
		res.err = fmt.Errorf("%s: %s\n%s", what, fmt.Sprintf(f, a...), run.logExcerpt(spec.K))
		return res
	}
	fs, err := buildImage(run.log, spec)
	if err != nil {
		return fail("%v", err)
	}
	db, err := pebble.Open(dbDir, dbOptionsMem(fs, cache, run.plan.MemKiB))
	if err != nil {
		if m := reMissingTable.FindStringSubmatch(err.Error()); m != nil && run.knownD20 && run.dirEntryVolatile(m[1], spec) {
			res.d20 = true
			res.classes = append(res.classes, "D20:manifest-names-table-whose-dir-entry-was-lost")
			return res
		}
		return fail("reopening the database failed: %v", err)
	}
	res.db = db
	pre, err := scanDB(db, true, nil)
	if err != nil {
		return fail("scan of the reopened database failed: %v", err)
	}
	cs, err := spebble.NewStorage(storage.PortalStorageConfig{StorageCapacityMB: run.plan.CapMB, NodeId: enode.ID(run.node), NetworkName: "verif"}, db)
	if err != nil {
		return fail("NewStorage on the reopened database failed: %v", err)
	}
	post, err := scanDB(db, true, nil)
	if err != nil {
		return fail("scan after NewStorage failed: %v", err)
	}
	res.digest = snapDigest(post)
	if len(pre.Odd) > 0 {
		return fail("unexpected keys: %v", pre.Odd)
	}
	// (1) every item is byte-identical to an item that was put under that id
	for k, it := range pre.Items {
		if !run.admissible(spec, k, it) {
			return fail("item %s (%d bytes) is not byte-identical to anything put under that id before the crash", short(xorID(run.node, k)), it.Len)
		}
	}
	for k, it := range post.Items {
		if pre.Items[k] != it {
			return fail("NewStorage changed item %s", short(xorID(run.node, k)))
		}
	}
	for _, id := range run.ids {
		key := model.Dist(run.node, id)
		got, gerr := cs.Get(append([]byte{0}, id[:]...), id[:])
		it, present := post.Items[key]
		if present {
			if gerr != nil {
				return fail("get(%s) failed (%v) although the item is present", short(id), gerr)
			}
			if len(got) != it.Len || sum64(got) != it.Sum {
				return fail("get(%s) returned bytes that differ from the stored item", short(id))
			}
		} else if gerr == nil {
			return fail("get(%s) returned %d bytes although no such item is present", short(id), len(got))
		}
	}
	// (2) the persisted usage figure is not below the bytes actually present
	if pre.Rec < pre.Held {
		return fail("persisted usage record %d is below the %d bytes present in the crash image (%d items)", pre.Rec, pre.Held, len(pre.Items))
	}
	if post.Rec < post.Held {
		return fail("after reopening, the persisted usage record %d is below the %d bytes present", post.Rec, post.Held)
	}
	// (3) an over-capacity store is pruned on open
	if pre.RecPresent && pre.Rec > run.capB {
		res.classes = append(res.classes, "open:over-capacity")
		dropped, ff, minDropped, maxKept := model.PrunePass(keySet(pre), post.Items)
		if !ff {
			return fail("prune on open is not farthest-first: dropped %x, kept %x", minDropped, maxKept)
		}
		if freed := pre.Held - post.Held; freed < run.capB/20 && post.Held != 0 {
			return fail("store over capacity (record %d > %d) but the open freed only %d bytes and %d remain", pre.Rec, run.capB, freed, post.Held)
		}
		if len(dropped) > 0 {
			res.classes = append(res.classes, "open:pruned-items")
		}
	} else if !post.Equal(pre) {
		return fail("the open changed the content although the store was not over capacity (record %d, capacity %d)", pre.Rec, run.capB)
	}
	if run.capB > 0 && run.allSmallBefore(spec) && post.Held > run.capB {
		return fail("all items <= 5%% of the capacity but %d > %d bytes are held after the open", post.Held, run.capB)
	}
	// (4) radius: re-derived from the farthest retained item when more than 95%
	// full, the maximum otherwise. "Full" is read generously: when the usage
	// record and the real bytes (before/after the open's prune) fall on
	// different sides of 95%, both answers are accepted.
	rad := radiusOf(cs)
	lim := new(big.Int).Mul(new(big.Int).SetUint64(run.capB), big.NewInt(95))
	above, below := 0, 0
	for _, m := range []uint64{pre.Rec, post.Rec, pre.Held, post.Held} {
		x := new(big.Int).Mul(new(big.Int).SetUint64(m), big.NewInt(100))
		d := new(big.Int).Sub(x, lim)
		// (whole bytes: for the capacities used here 95% of the capacity is a whole number of bytes and the code's
		// floating-point threshold is exact, so "exactly 95%" is not "more than 95%")
		switch {
		case d.Sign() > 0:
			above++
		default:
			below++
		}
	}
	far, have := post.Farthest()
	isMax := rad.Cmp(model.MaxDist) == 0
	isFar := have && rad.Cmp(model.BE(far[:])) == 0
	isFarLE := have && rad.Cmp(model.LE(far[:])) == 0
	switch {
	case !have:
		res.classes = append(res.classes, "open:empty")
		// nothing is retained: the store is not more than 95% full, whatever the record said before the open
		if !isMax {
			return fail("the reopened store holds no item (record %d, %d bytes before the open) but Radius() is %x, not the maximum: every put will be refused", post.Rec, pre.Held, rad)
		}
	case below == 4:
		res.classes = append(res.classes, "open:<=95%")
		if !isMax {
			return fail("store at most 95%% full (record %d, held %d of %d) but Radius() is %x, not the maximum", post.Rec, post.Held, run.capB, rad)
		}
	default:
		if above == 4 {
			res.classes = append(res.classes, "open:>95%")
		} else {
			res.classes = append(res.classes, "open:95%-ambiguous")
		}
		ok := isFar || (above < 4 && isMax)
		if !ok {
			if isFarLE && run.known {
				res.d11 = true
				res.classes = append(res.classes, "D11:radius-on-open")
			} else {
				return fail("store more than 95%% full (record %d, held %d of %d) but Radius() is %x, not the distance %x of the farthest retained item", post.Rec, post.Held, run.capB, rad, far)
			}
		}
	}
	// (5) the reopened store keeps working
	cur := post
	for i, cp := range run.cont {
		val := cp.val.bytes()
		key := model.Dist(run.node, cp.id)
		perr := cs.Put(append([]byte{0}, cp.id[:]...), cp.id[:], val)
		after, err := scanDB(db, true, nil)
		if err != nil {
			return fail("scan after continuation put failed: %v", err)
		}
		switch {
		case perr == nil:
			due := cur.Rec+uint64(32+len(val)) > run.capB
			it, present := after.Items[key]
			if present && (it.Len != len(val) || it.Sum != cp.val.sum()) {
				return fail("continuation put %d(%s) stored other bytes", i, short(cp.id))
			}
			if !present && !due {
				return fail("continuation put %d(%s) accepted but not stored and no pruning was due", i, short(cp.id))
			}
			got, gerr := cs.Get(append([]byte{0}, cp.id[:]...), cp.id[:])
			if present && (gerr != nil || len(got) != len(val) || sum64(got) != it.Sum) {
				return fail("continuation get %d(%s) does not return the bytes just put (err=%v)", i, short(cp.id), gerr)
			}
			if !due {
				for k, old := range cur.Items {
					if k != key && after.Items[k] != old {
						return fail("continuation put %d(%s) changed or lost item %s although no pruning was due", i, short(cp.id), short(xorID(run.node, k)))
					}
				}
			}
		case isRefused(perr):
			if !after.Equal(cur) {
				return fail("refused continuation put %d changed the store", i)
			}
		default:
			return fail("continuation put %d(%s) failed: %v", i, short(cp.id), perr)
		}
		if after.Rec < after.Held {
			return fail("after continuation put %d the usage record %d is below the %d bytes held", i, after.Rec, after.Held)
		}
		cur = after
	}
	return res
}

// logExcerpt renders the file-system operations around a crash point (for the
// replay file; the schedule of background work differs from run to run).
func (run *c17Run) logExcerpt(k int) string {
	names := map[int]string{}
	var b strings.Builder
	b.WriteString("file-system operations before the crash point:\n")
	for i, op := range run.log {
		switch op.Kind {
		case opCreate, opOpenRW, opOpen, opOpenDir:
			names[op.H] = op.Name
		case opReuse:
			names[op.H] = op.Name2
		}
		if i >= k-14 && i < k+2 && i < len(run.log) {
			mark := "  "
			if i == k {
				mark = "->"
			}
			fmt.Fprintf(&b, "%s %4d %-9s %s %s %s len=%d\n", mark, i, op.Kind, names[op.H], op.Name, op.Name2, len(op.Data))
		}
	}
	return b.String()
}

func (run *c17Run) crashClass(k int) string {
	for _, p := range run.puts {
		if k > p.logStart && k < p.logEnd {
			if p.pruned {
				return "crash:inside-pruning-put"
			}
			return "crash:inside-put"
		}
		if k == p.logStart || k == p.logEnd {
			return "crash:at-put-boundary"
		}
	}
	return "crash:background/open/close"
}

func runC17(p c17Plan, c *stats.Case) error {
	node := toID(p.Node)
	lfs := newLogFS(newBaseFS())
	lfs.dirSyncDelay = time.Duration(p.DirSyncUs) * time.Microsecond
	r := &rig{fs: lfs, node: node, capMB: p.CapMB, cache: pebble.NewCache(64 << 10)}
	defer r.destroy()
	open := func() error {
		db, err := pebble.Open(dbDir, dbOptionsMem(lfs, r.cache, p.MemKiB))
		if err != nil {
			return fmt.Errorf("pebble.Open: %w", err)
		}
		cs, err := spebble.NewStorage(storage.PortalStorageConfig{StorageCapacityMB: p.CapMB, NodeId: enode.ID(node), NetworkName: "verif"}, db)
		if err != nil {
			waitPruneIdle()
			_ = db.Close()
			return fmt.Errorf("NewStorage: %w", err)
		}
		r.db, r.cs = db, cs
		return nil
	}
	if err := open(); err != nil {
		return err
	}
	run := &c17Run{plan: p, node: node, capB: r.capBytes(), rec: stats.For("C17"), known: pbt.KnownOpen(fidD11Open), knownD20: pbt.KnownOpen(fidD20)}
	res := newResolver(node)
	seenID := map[model.ID]bool{}
	addID := func(id model.ID) {
		if !seenID[id] {
			seenID[id] = true
			run.ids = append(run.ids, id)
		}
	}
	prunes := 0
	for i, op := range p.Ops {
		switch op.Op {
		case "flush":
			if err := r.db.Flush(); err != nil {
				return err
			}
		case "reopen":
			if err := r.closeDB(); err != nil {
				return fmt.Errorf("step %d: close: %v", i, err)
			}
			if err := open(); err != nil {
				return fmt.Errorf("step %d: clean reopen failed: %v", i, err)
			}
			c.Class("history-with-clean-restart")
		case "put":
			id, ok := res.resolve(op.ID, nil, nil)
			if !ok {
				continue
			}
			res.note(id)
			addID(id)
			v := valSpec{Len: op.Len, Seed: op.Seed}
			before, err := r.scan(false)
			if err != nil {
				return err
			}
			pr := putRec{id: id, key: model.Dist(node, id), item: model.Item{Len: v.Len, Sum: v.sum()}, logStart: lfs.length()}
			perr := r.put(id, v.bytes())
			pr.logEnd = lfs.length()
			if perr != nil && !isRefused(perr) {
				return fmt.Errorf("step %d: put failed: %v", i, perr)
			}
			pr.accepted = perr == nil
			pr.pruned = pr.accepted && before.Rec+uint64(32+v.Len) > run.capB
			if pr.pruned {
				prunes++
			}
			run.puts = append(run.puts, pr)
		}
	}
	if err := r.closeDB(); err != nil {
		return fmt.Errorf("final close: %v", err)
	}
	run.log = lfs.snapshot()
	for _, cp := range p.Cont {
		if id, ok := res.resolve(cp.ID, nil, nil); ok {
			addID(id)
			run.cont = append(run.cont, contPut{id: id, val: valSpec{Len: cp.Len, Seed: cp.Seed}})
		}
	}

	// enumerate crash points: every k (thinned only when the log is very long)
	limit := pbt.Thorough(700, 3000)
	var ks []int
	mut := 0
	for k := 0; k <= len(run.log); k++ {
		if k == 0 || run.log[k-1].Kind.mutating() {
			mut++
		}
	}
	stride := 1
	if mut > limit {
		stride = (mut + limit - 1) / limit
	}
	boundary := map[int]bool{0: true, len(run.log): true}
	for _, pr := range run.puts {
		for d := -1; d <= 1; d++ {
			boundary[pr.logStart+d], boundary[pr.logEnd+d] = true, true
		}
	}
	n := 0
	for k := 0; k <= len(run.log); k++ {
		if k > 0 && !run.log[k-1].Kind.mutating() {
			continue // same file system as the previous point
		}
		n++
		if stride == 1 || boundary[k] || (n+int(p.TornSeed))%stride == 0 {
			ks = append(ks, k)
		}
	}
	if stride > 1 {
		c.Class("crash-points-thinned")
	} else {
		c.Class("all-crash-points")
	}
	// file name behind every handle: writes to the write-ahead log get several
	// cut points (near both ends, where the small usage-record batch sits)
	nameOf := map[int]string{}
	for _, op := range run.log {
		switch op.Kind {
		case opCreate, opOpenRW, opOpen:
			nameOf[op.H] = op.Name
		case opReuse:
			nameOf[op.H] = op.Name2
		}
	}
	var specs []imageSpec
	for _, k := range ks {
		specs = append(specs, imageSpec{K: k, Variant: "kept"}, imageSpec{K: k, Variant: "lost"}, imageSpec{K: k, Variant: "partial", Seed: p.TornSeed + uint32(k)})
		if k < len(run.log) && (run.log[k].Kind == opWrite || run.log[k].Kind == opWriteAt) && len(run.log[k].Data) > 1 {
			n := len(run.log[k].Data)
			cuts := []int{1 + int((uint64(p.TornSeed)*2654435761+uint64(k)*40503)%uint64(n-1))}
			if strings.HasSuffix(nameOf[run.log[k].H], ".log") {
				for _, c := range []int{n - 1, n - 30, 30} {
					if c > 0 && c < n && c != cuts[0] {
						cuts = append(cuts, c)
					}
				}
			}
			for ci, cut := range cuts {
				specs = append(specs, imageSpec{K: k, Torn: cut, Variant: "kept"})
				if ci == 0 {
					specs = append(specs, imageSpec{K: k, Torn: cut, Variant: "partial", Seed: p.TornSeed ^ uint32(k)})
				}
			}
		}
	}

	// judge the images in parallel batches; databases are closed only after the
	// whole batch is quiescent (no prune compaction goroutine left anywhere)
	const workers = 16
	caches := make([]*pebble.Cache, workers)
	for i := range caches {
		caches[i] = pebble.NewCache(64 << 10)
		defer caches[i].Unref()
	}
	results := make([]imageResult, len(specs))
	var firstErr error
	for base := 0; base < len(specs) && firstErr == nil; base += workers {
		end := min(base+workers, len(specs))
		var wg sync.WaitGroup
		for j := base; j < end; j++ {
			wg.Add(1)
			go func(j int) {
				defer wg.Done()
				var res imageResult
				if err := pbt.SafeCall(func() error { res = run.checkImage(specs[j], caches[j-base]); return nil }); err != nil {
					res.err = fmt.Errorf("crash after fs op %d (torn %d, %s): %v", specs[j].K, specs[j].Torn, specs[j].Variant, err)
				}
				results[j] = res
			}(j)
		}
		wg.Wait()
		waitPruneIdle()
		for j := base; j < end; j++ {
			if results[j].db != nil {
				if err := tolerateLeakedIter(results[j].db.Close(), nil); err != nil && results[j].err == nil {
					results[j].err = fmt.Errorf("crash after fs op %d: close of the reopened store failed: %v", specs[j].K, err)
				}
				results[j].db = nil
			}
			if results[j].err != nil && firstErr == nil {
				firstErr = results[j].err
			}
		}
	}
	if firstErr != nil {
		return firstErr
	}
	// evidence
	run.rec.AddEvaluations(int64(len(specs)))
	run.rec.Count("images", int64(len(specs)))
	keptDigest := map[int]uint64{}
	differ, d11, d20 := false, false, false
	for j, sp := range specs {
		if sp.Variant == "kept" && sp.Torn == 0 {
			keptDigest[sp.K] = results[j].digest
		}
	}
	for j, sp := range specs {
		run.rec.Count("image:"+run.crashClass(sp.K), 1)
		if sp.Torn > 0 {
			run.rec.Count("image:torn-write", 1)
		}
		for _, cl := range results[j].classes {
			run.rec.Count("image:"+cl, 1)
			c.Class(cl)
		}
		if sp.Torn == 0 && sp.Variant != "kept" && results[j].digest != keptDigest[sp.K] {
			differ = true
			run.rec.Count("image:differs-from-unsynced-kept", 1)
		}
		d11 = d11 || results[j].d11
		d20 = d20 || results[j].d20
		c.Class(run.crashClass(sp.K))
	}
	if d11 {
		pbt.HitKnown("C17", fidD11Open)
	}
	if d20 {
		pbt.HitKnown("C17", fidD20)
	}
	if prunes > 0 {
		c.Class("history-with-prune")
		c.Class("history-with-prune:" + p.Shape)
	}
	c.Class("shape:" + p.Shape)
	if differ {
		c.NT("kept/lost-variants-differ")
	}
	if prunes > 0 && differ {
		c.NT("prune+variants-differ")
	}
	run.rec.Note("fs_ops_last_history", len(run.log))
	return nil
}

func TestC17_Crash(t *testing.T) { pbt.Run(t, "C17", "crash", genC17, runC17) }
