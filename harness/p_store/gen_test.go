package p_store

// Plan-level generators shared by the store checks. Nothing here touches the
// code under test.

import (
	"math/big"

	"pgregory.net/rapid"
	model "verifharness/model/storemodel"
)

// idRef names a content id inside a plan. Ids are described by their DISTANCE
// from the node id (id = node XOR dist), or relative to run-time state through
// pool indices (resolved as idx % len(pool)).
type idRef struct {
	Kind  string // "dist" | "pool" | "nbr" | "far" | "radius"
	Dist  []byte `json:",omitempty"` // 32 bytes (Kind dist; fallback of the others)
	Idx   int    `json:",omitempty"` // pool index (pool, nbr)
	Bit   int    `json:",omitempty"` // bit to flip (nbr)
	Delta int    `json:",omitempty"` // radius + Delta (radius)
	LE    bool   `json:",omitempty"` // radius: make the little-endian reading of the distance hit radius+Delta (finding D11 probe)
}

// resolver turns idRefs into ids at run time.
type resolver struct {
	node model.ID
	pool []model.ID // ids used by puts so far, in order of first use
	seen map[model.ID]bool
}

func newResolver(node model.ID) *resolver { return &resolver{node: node, seen: map[model.ID]bool{}} }

func (r *resolver) note(id model.ID) {
	if !r.seen[id] {
		r.seen[id] = true
		r.pool = append(r.pool, id)
	}
}

// resolve returns the id and false when the reference would denote the node id
// itself (distance zero: excluded by the statement, the reserved size record).
func (r *resolver) resolve(ref idRef, radius *big.Int, snap *model.Snapshot) (model.ID, bool) {
	fallback := func() (model.ID, bool) {
		d := toID(ref.Dist)
		if model.IsZero(d) {
			return model.ID{}, false
		}
		return xorID(r.node, d), true
	}
	switch ref.Kind {
	case "pool":
		if len(r.pool) == 0 {
			return fallback()
		}
		return r.pool[ref.Idx%len(r.pool)], true
	case "nbr":
		if len(r.pool) == 0 {
			return fallback()
		}
		id := r.pool[ref.Idx%len(r.pool)]
		b := ref.Bit % 256
		id[b/8] ^= 0x80 >> (b % 8)
		if id == r.node {
			return model.ID{}, false
		}
		return id, true
	case "far":
		if snap == nil {
			return fallback()
		}
		k, ok := snap.Farthest()
		if !ok {
			return fallback()
		}
		return xorID(r.node, k), true
	case "radius":
		if radius == nil {
			return fallback()
		}
		v := new(big.Int).Add(radius, big.NewInt(int64(ref.Delta)))
		if v.Sign() <= 0 || v.Cmp(model.MaxDist) > 0 {
			return fallback()
		}
		d := idFromBig(v)
		if ref.LE {
			d = reverseID(d)
		}
		if model.IsZero(d) {
			return model.ID{}, false
		}
		return xorID(r.node, d), true
	default:
		return fallback()
	}
}

// ---------------------------------------------------------------------------

func genNode(t *rapid.T) []byte {
	switch rapid.IntRange(0, 5).Draw(t, "nodeClass") {
	case 0:
		return make([]byte, 32) // the only node id the repository's tests use
	case 1:
		b := make([]byte, 32)
		for i := range b {
			b[i] = 0xff
		}
		return b
	case 2:
		b := make([]byte, 32)
		bit := rapid.IntRange(0, 255).Draw(t, "nodeBit")
		b[bit/8] = 0x80 >> (bit % 8)
		return b
	default:
		return rapid.SliceOfN(rapid.Byte(), 32, 32).Draw(t, "node")
	}
}

// genDist draws a non-zero distance from the adversarial families of DESIGN 2.3.
func genDist(t *rapid.T) []byte {
	d := make([]byte, 32)
	switch rapid.IntRange(0, 11).Draw(t, "distClass") {
	case 0: // single bit: neighbour of the node id
		bit := rapid.IntRange(0, 255).Draw(t, "bit")
		d[bit/8] = 0x80 >> (bit % 8)
	case 1: // tiny: next to the reserved all-zero key
		d[31] = rapid.ByteRange(1, 255).Draw(t, "low")
	case 2: // chosen log distance: leading zero bytes then random
		lz := rapid.IntRange(0, 31).Draw(t, "lz")
		tail := rapid.SliceOfN(rapid.Byte(), 32-lz, 32-lz).Draw(t, "tail")
		copy(d[lz:], tail)
		if d[lz] == 0 {
			d[lz] = 1
		}
	case 3: // big-endian small, little-endian large
		d[0] = rapid.ByteRange(0, 3).Draw(t, "head")
		d[31] = rapid.ByteRange(0xf0, 0xff).Draw(t, "tailb")
		d[rapid.IntRange(1, 30).Draw(t, "mid")] = rapid.Byte().Draw(t, "midb")
	case 4: // big-endian large, little-endian small
		d[0] = rapid.ByteRange(0xf0, 0xff).Draw(t, "head")
		d[31] = rapid.ByteRange(0, 3).Draw(t, "tailb")
		d[rapid.IntRange(1, 30).Draw(t, "mid")] = rapid.Byte().Draw(t, "midb")
	case 5: // palindromic: both readings agree
		half := rapid.SliceOfN(rapid.Byte(), 16, 16).Draw(t, "half")
		for i := 0; i < 16; i++ {
			d[i], d[31-i] = half[i], half[i]
		}
	case 6: // far end
		for i := range d {
			d[i] = 0xff
		}
		d[31] -= rapid.ByteRange(0, 3).Draw(t, "below")
	case 7: // only the first byte set (little-endian reading is tiny)
		d[0] = rapid.ByteRange(1, 255).Draw(t, "first")
	default:
		copy(d, rapid.SliceOfN(rapid.Byte(), 32, 32).Draw(t, "dist"))
	}
	if model.IsZero(toID(d)) {
		d[31] = 1
	}
	return d
}

// genRef draws an id reference; weights: fresh, existing, neighbour, state-relative.
func genRef(t *rapid.T, stateful bool) idRef {
	ref := idRef{Kind: "dist", Dist: genDist(t)}
	hi := 9
	if stateful {
		hi = 12
	}
	switch rapid.IntRange(0, hi).Draw(t, "refClass") {
	case 0, 1, 2:
		ref.Kind, ref.Idx = "pool", rapid.IntRange(0, 255).Draw(t, "idx")
	case 3, 4:
		ref.Kind, ref.Idx, ref.Bit = "nbr", rapid.IntRange(0, 255).Draw(t, "idx"), rapid.IntRange(0, 255).Draw(t, "flip")
	case 10:
		ref.Kind = "far"
	case 11, 12:
		ref.Kind, ref.Delta, ref.LE = "radius", rapid.IntRange(-1, 1).Draw(t, "delta"), rapid.Bool().Draw(t, "le")
	}
	return ref
}
