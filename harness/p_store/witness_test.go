package p_store

// A second store in the same process. "At all times every retained item lies within the advertised radius"
// and "the radius only shrinks during a run" speak about each store on its own: what is done to one store
// must not move the radius of another. The witness is opened once per process with a capacity it never comes
// near, holds three far items and is never written again; after every case of the C06 store check it must
// still advertise the maximum radius and hold its items (a radius that changed without any put into this
// store can only come from state shared between stores).

import (
	"bytes"
	"fmt"
	"sync"

	"github.com/cockroachdb/pebble/vfs"
	model "verifharness/model/storemodel"
)

var witness struct {
	once sync.Once
	rig  *rig
	ids  []model.ID
	err  error
}

func witnessCheck() error {
	witness.once.Do(func() {
		var node model.ID
		node[0] = 0x5a
		r, err := newRig(node, 100, vfs.NewMem())
		if err != nil {
			witness.err = err
			return
		}
		witness.rig = r
		for _, first := range []byte{0xa5, 0x25, 0x5b} { // distances f f.., 7f.., 01.. from the node id
			var id model.ID
			for i := range id {
				id[i] = 0xff ^ node[i]
			}
			id[0] = first
			id[31] = node[31] // the all-ones distance equals the maximum radius, which admits only what lies below it
			if err := r.put(id, bytes.Repeat([]byte{first}, 2000)); err != nil {
				witness.err = fmt.Errorf("put into the fresh witness store refused: %v", err)
				return
			}
			witness.ids = append(witness.ids, id)
		}
	})
	if witness.err != nil {
		return fmt.Errorf("harness: witness store: %v", witness.err)
	}
	r := witness.rig
	if rad := r.radius(); rad == nil || rad.Cmp(model.MaxDist) != 0 {
		return fmt.Errorf("a second store of this process (100 MB capacity, three items of 2 kB, never written after it was filled) now advertises radius %x instead of the maximum: its radius moved although nothing was put into it, and its items lie beyond it", rad)
	}
	for _, id := range witness.ids {
		v, err := r.get(id)
		if err != nil || len(v) != 2000 {
			return fmt.Errorf("the untouched second store of this process lost item %x (err %v, %d bytes)", id[:4], err, len(v))
		}
	}
	return nil
}
