package p_store

// C06 under concurrent puts: "at all times every retained item lies within the advertised radius, a put is
// refused for insufficient radius only when its distance is not below the radius, and the radius only shrinks".
// Rounds of 4..32 goroutines put at the same time into a store that is nearly full, so that some puts prune
// (and shrink the radius) while others have not yet been admitted. After every round, when all puts have
// returned: no retained item lies beyond Radius(), every refused put had a distance not below the final radius
// (the radius only shrinks, so whatever radius refused it was at least that), and the radius did not grow.
// All distances are byte palindromes (node id zero), so the verdicts do not depend on the byte order the store
// reads its keys in (known finding D11).

import (
	"fmt"
	"math/big"
	"sync"
	"testing"

	"github.com/cockroachdb/pebble/vfs"
	"pgregory.net/rapid"
	model "verifharness/model/storemodel"
	"verifharness/pbt"
	"verifharness/stats"
)

type c06ConcPut struct {
	Half [16]byte // first half of the palindromic distance
	Len  int
	Seed uint32
}

type c06ConcPlan struct {
	Prefill []c06ConcPut
	Rounds  [][]c06ConcPut
	G       int
}

func genPalPut(t *rapid.T, unit int) c06ConcPut {
	var h [16]byte
	copy(h[:], rapid.SliceOfN(rapid.Byte(), 16, 16).Draw(t, "half"))
	if rapid.IntRange(0, 3).Draw(t, "farClass") == 0 {
		h[0] |= 0xc0 // a far item: the kind a shrinking radius should keep out
	}
	if h == ([16]byte{}) {
		h[15] = 1
	}
	return c06ConcPut{Half: h, Len: rapid.IntRange(unit/2, unit-40).Draw(t, "len"), Seed: rapid.Uint32().Draw(t, "seed")}
}

func genC06Conc(t *rapid.T) c06ConcPlan {
	unit := unitOf(1)
	p := c06ConcPlan{G: rapid.SampledFrom([]int{4, 8, 16, 32}).Draw(t, "g")}
	for i, n := 0, rapid.IntRange(22, 27).Draw(t, "prefill"); i < n; i++ {
		p.Prefill = append(p.Prefill, genPalPut(t, unit))
	}
	for r, nr := 0, rapid.IntRange(1, 4).Draw(t, "rounds"); r < nr; r++ {
		var rd []c06ConcPut
		for i, n := 0, rapid.IntRange(p.G, 2*p.G).Draw(t, "puts"); i < n; i++ {
			rd = append(rd, genPalPut(t, unit))
		}
		p.Rounds = append(p.Rounds, rd)
	}
	return p
}

func palID(h [16]byte) model.ID {
	var id model.ID
	for i := 0; i < 16; i++ {
		id[i], id[31-i] = h[i], h[i]
	}
	return id
}

func runC06Conc(p c06ConcPlan, c *stats.Case) error {
	var node model.ID // zero: the content id is the distance
	r, err := newRig(node, 1, vfs.NewMem())
	if err != nil {
		return err
	}
	defer r.destroy()
	for _, pp := range p.Prefill {
		if err := r.put(palID(pp.Half), valSpec{Len: pp.Len, Seed: pp.Seed}.bytes()); err != nil && !isRefused(err) {
			return fmt.Errorf("prefill put failed: %v", err)
		}
	}
	waitPruneIdle()
	prev := r.radius()
	for ri, rd := range p.Rounds {
		errs := make([]error, len(rd))
		start := make(chan struct{})
		var wg sync.WaitGroup
		for g := 0; g < p.G; g++ {
			wg.Add(1)
			go func(g int) {
				defer wg.Done()
				<-start
				for i := g; i < len(rd); i += p.G {
					errs[i] = pbt.SafeCall(func() error { return r.put(palID(rd[i].Half), valSpec{Len: rd[i].Len, Seed: rd[i].Seed}.bytes()) })
				}
			}(g)
		}
		close(start)
		wg.Wait()
		waitPruneIdle()
		after, err := r.scan(false)
		if err != nil {
			return err
		}
		rad := r.radius()
		if rad.Cmp(prev) > 0 {
			return fmt.Errorf("round %d: the radius grew from %x to %x", ri, prev, rad)
		}
		if rad.Cmp(prev) < 0 {
			c.NT("conc-round-shrank-the-radius")
		}
		beyond := 0
		var worst *big.Int
		for k := range after.Items {
			if d := model.BE(k[:]); d.Cmp(rad) > 0 {
				beyond++
				if worst == nil || d.Cmp(worst) > 0 {
					worst = d
				}
			}
		}
		if beyond > 0 {
			return fmt.Errorf("round %d (%d goroutines, %d puts at once): after all puts returned %d retained item(s) lie beyond the advertised radius %x (farthest at %x)", ri, p.G, len(rd), beyond, rad, worst)
		}
		refused := 0
		for i, e := range errs {
			if e == nil {
				continue
			}
			if !isRefused(e) {
				return fmt.Errorf("round %d: put %d failed: %v", ri, i, e)
			}
			refused++
			id := palID(rd[i].Half)
			if d := model.BE(id[:]); d.Cmp(rad) < 0 {
				return fmt.Errorf("round %d: a put at distance %x was refused for insufficient radius although the radius never went below %x", ri, d, rad)
			}
		}
		if refused > 0 && rad.Cmp(prev) < 0 {
			c.NT("conc-round-shrank-the-radius-and-refused-puts")
		}
		c.Class(fmt.Sprintf("c06conc:goroutines=%d", p.G))
		prev = rad
	}
	return nil
}

func TestC06_Conc(t *testing.T) { pbt.Run(t, "C06", "conc", genC06Conc, runC06Conc) }
