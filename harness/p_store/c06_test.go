package p_store

// C06 (store half) - Radius, admission and retained content agree under the
// big-endian XOR metric. The in-range helper half lives in package p_proto
// (TestC06_InRange).
//
// Primary oracle (statement): after every step every retained item has
// BE(distance) <= Radius(); a put refused for insufficient radius had
// BE(distance) >= radius; an accepted put had BE(distance) <= radius; Radius()
// never grows within one open.
//
// Known finding D11 (open): NewStorage, prune and inRadius decode the distance
// key little-endian. The classifier below is a second model that computes what
// the little-endian decode yields from the same pre-state (ground truth); an
// observation that breaks the primary oracle AND equals the classifier's
// prediction is counted as a reproduction of D11, anything else is a violation.

import (
	"fmt"
	"math/big"
	"testing"

	"github.com/cockroachdb/pebble/vfs"
	"pgregory.net/rapid"
	model "verifharness/model/storemodel"
	"verifharness/pbt"
	"verifharness/stats"
)

const fidD11 = "D11-le-distance-decode"

func genC06(t *rapid.T) histPlan {
	p, _ := genHist(t, histProfile{caps: []uint64{1, 1, 1, 2, 0}, maxOps: 70, stateful: true, bigValues: true, reopenPct: 5, sparsePct: 30})
	return p
}

// d11 is the classifier: the defective (little-endian) radius/admission rules.
type d11 struct{}

func (d11) admits(radius *big.Int, key model.ID) bool { return radius.Cmp(model.LE(key[:])) > 0 }

// afterPut predicts Radius() after an accepted put from ground truth.
func (d11) afterPut(r0 *big.Int, pruneRan bool, after *model.Snapshot) *big.Int {
	if pruneRan {
		if far, ok := after.Farthest(); ok {
			return model.LE(far[:])
		}
	}
	return r0
}

// afterOpen predicts Radius() after NewStorage on a store whose persisted state
// before the open was `before` and after it `after`.
func (d11) afterOpen(before, after *model.Snapshot, capB uint64) *big.Int {
	r := new(big.Int).Set(model.MaxDist)
	if !before.RecPresent {
		return r
	}
	far, have := after.Farthest()
	if before.Rec > capB && have {
		r = model.LE(far[:])
	}
	if before.Rec > uint64(float64(capB)*(1-0.05)) {
		if have {
			r = model.LE(far[:])
		} else {
			r = new(big.Int) // the iterator lands on the all-zero size record
		}
	}
	return r
}

type c06State struct {
	c      *stats.Case
	prop   string
	hit    bool
	d11hit int
}

// classify is called when the primary oracle failed: matchesLE says whether the
// observation equals what the little-endian model predicts.
func (s *c06State) classify(kind string, matchesLE bool, msg string) error {
	if matchesLE && pbt.KnownOpen(fidD11) {
		if !s.hit {
			s.hit = true
			pbt.HitKnown(s.prop, fidD11)
		}
		s.d11hit++
		s.c.Class("D11:" + kind)
		return nil
	}
	return fmt.Errorf("%s", msg)
}

func checkRetained(s *c06State, what string, node model.ID, after *model.Snapshot, r1, r1LE *big.Int) error {
	for k := range after.Items {
		if model.BE(k[:]).Cmp(r1) > 0 {
			msg := fmt.Sprintf("%s: retained item %s has distance %x beyond the advertised radius %x", what, short(xorID(node, k)), k, r1)
			return s.classify("retained-beyond-radius", r1.Cmp(r1LE) == 0, msg)
		}
	}
	return nil
}

func runC06(p histPlan, c *stats.Case) error {
	if err := witnessCheck(); err != nil { // the first call opens it, before any other store of this process exists
		return err
	}
	if err := runC06Store(p, c); err != nil {
		return err
	}
	return witnessCheck()
}

func runC06Store(p histPlan, c *stats.Case) error {
	node := toID(p.Node)
	r, err := newRig(node, p.CapMB, vfs.NewMem())
	if err != nil {
		return err
	}
	defer r.destroy()
	capB := r.capBytes()
	res := newResolver(node)
	snap, err := r.scan(false)
	if err != nil {
		return err
	}
	s := &c06State{c: c, prop: "C06"}
	var cls d11
	prunes, refusals := 0, 0
	for i, op := range p.Ops {
		switch op.Op {
		case "flush":
			if err := r.db.Flush(); err != nil {
				return err
			}
		case "reopen":
			before := snap
			if err := r.reopen(); err != nil {
				return fmt.Errorf("step %d: reopen: %v", i, err)
			}
			after, err := r.scan(false)
			if err != nil {
				return err
			}
			snap = after
			c.Class("reopen")
			r1 := r.radius()
			if err := checkRetained(s, fmt.Sprintf("step %d: after reopen", i), node, after, r1, cls.afterOpen(before, after, capB)); err != nil {
				return err
			}
		case "put":
			r0 := r.radius()
			id, ok := res.resolve(op.ID, r0, snap)
			if !ok {
				c.Class("skipped-node-id")
				continue
			}
			res.note(id)
			key := model.Dist(node, id)
			dBE, dLE := model.BE(key[:]), model.LE(key[:])
			if (dBE.Cmp(r0) < 0) != (dLE.Cmp(r0) < 0) {
				c.Class("BE/LE-disagree-vs-radius")
			}
			if key == reverseID(key) {
				c.Class("palindromic-distance")
			}
			if op.ID.Kind == "radius" {
				c.Class(fmt.Sprintf("probe:radius%+d,le=%v", op.ID.Delta, op.ID.LE))
			}
			before := snap
			perr := r.put(id, valSpec{Len: op.Len, Seed: op.Seed}.bytes())
			// a pruning pass starts a compaction of the whole key range in the background: what the store retains is
			// judged once that has run (a tombstone that only hides an item until the next compaction does not remove it)
			waitPruneIdle()
			after, err := r.scan(false)
			if err != nil {
				return err
			}
			snap = after
			r1 := r.radius()
			what := fmt.Sprintf("step %d: put(%s, dist %x, %d bytes)", i, short(id), key, op.Len)
			accepted := perr == nil
			if !accepted && !isRefused(perr) {
				return fmt.Errorf("%s neither accepted nor refused: %v", what, perr)
			}
			matchesLE := accepted == cls.admits(r0, key)
			if accepted {
				if dBE.Cmp(r0) > 0 {
					if err := s.classify("accepted-beyond-radius", matchesLE, fmt.Sprintf("%s accepted although its distance exceeds the radius %x", what, r0)); err != nil {
						return err
					}
				}
				if dBE.Cmp(r0) == 0 {
					c.Class("boundary:accepted-at-distance==radius")
				}
			} else {
				refusals++
				if dBE.Cmp(r0) < 0 {
					if err := s.classify("refused-below-radius", matchesLE, fmt.Sprintf("%s refused for insufficient radius although its distance is below the radius %x", what, r0)); err != nil {
						return err
					}
				}
				if dBE.Cmp(r0) == 0 {
					c.Class("boundary:refused-at-distance==radius")
				}
				if r1.Cmp(r0) != 0 {
					return fmt.Errorf("%s refused but the radius changed %x -> %x", what, r0, r1)
				}
			}
			pruneRan := accepted && before.Rec+uint64(32+op.Len) > capB
			if pruneRan {
				prunes++
				if len(after.Items) == 0 && r0.Cmp(model.MaxDist) < 0 {
					c.Class("prune-emptied-store-with-shrunk-radius")
				}
			}
			r1LE := cls.afterPut(r0, pruneRan, after)
			if r1.Cmp(r0) > 0 {
				if err := s.classify("radius-grew", r1.Cmp(r1LE) == 0, fmt.Sprintf("%s: radius grew within one open %x -> %x", what, r0, r1)); err != nil {
					return err
				}
			}
			if r1.Cmp(r0) < 0 {
				c.Class("radius-shrank")
			}
			if err := checkRetained(s, what, node, after, r1, r1LE); err != nil {
				return err
			}
		}
	}
	if prunes > 0 && refusals > 0 {
		c.NT("prune+refusal")
	} else if prunes > 0 {
		c.NT("prune")
	}
	if s.d11hit == 0 && prunes > 0 {
		c.Class("prune-without-D11")
	}
	return nil
}

func TestC06_Store(t *testing.T) { pbt.Run(t, "C06", "store", genC06, runC06) }
