package p_store

// Put histories shared by C05 (sequential), C06 (store half) and C17.

import (
	"pgregory.net/rapid"
)

type histOp struct {
	Op   string // put | reopen | flush
	ID   idRef  `json:",omitempty"`
	Len  int    `json:",omitempty"`
	Seed uint32 `json:",omitempty"`
}

type histPlan struct {
	Node  []byte
	CapMB uint64
	Ops   []histOp
}

// unitOf is 5% of the capacity in bytes (the pruning quantum); for capacity 0 a
// stand-in so that the edge configuration still sees realistic sizes.
func unitOf(capMB uint64) int {
	if capMB == 0 {
		return 50_000
	}
	return int(capMB) * 1_000_000 / 20
}

type histProfile struct {
	caps      []uint64
	maxOps    int
	stateful  bool // use ids relative to the current radius / farthest item
	bigValues bool // bias to values of 1-3 quanta so that prunes come quickly
	reopenPct int
	sparsePct int // percentage of histories with few, mostly huge items (a prune can then empty the store)
}

// genHistLen draws a value length. smallOnly keeps every item (key+value) at or
// below 5% of the capacity, the precondition of C05's "never exceeds" clause.
func genHistLen(t *rapid.T, unit int, capMB uint64, smallOnly, big bool) int {
	maxSmall := unit - 32
	k := rapid.IntRange(0, 19).Draw(t, "lenClass")
	switch {
	case k == 0:
		return rapid.SampledFrom([]int{0, 1, 100}).Draw(t, "tiny")
	case k == 1:
		return maxSmall // item is exactly 5%
	case smallOnly:
		return rapid.IntRange(unit/4, maxSmall).Draw(t, "len")
	case k == 2:
		return maxSmall + 1 // just above 5%
	case k == 3, k == 4:
		return rapid.IntRange(unit, 4*unit).Draw(t, "multi")
	case k == 5:
		return int(capMB)*500_000 + rapid.IntRange(0, 1000).Draw(t, "half")
	case k == 6 && capMB <= 2:
		return int(capMB)*1_000_000 + rapid.IntRange(-40, 5000).Draw(t, "over") // around and above the capacity
	case big:
		return rapid.IntRange(unit/2, 3*unit).Draw(t, "blen")
	default:
		return rapid.IntRange(unit/4, maxSmall).Draw(t, "len")
	}
}

func genHist(t *rapid.T, pr histProfile) (histPlan, bool) {
	p := histPlan{Node: genNode(t), CapMB: rapid.SampledFrom(pr.caps).Draw(t, "cap")}
	unit := unitOf(p.CapMB)
	smallOnly := !pr.bigValues && rapid.Bool().Draw(t, "smallOnly")
	n := rapid.IntRange(1, pr.maxOps).Draw(t, "n")
	sparse := pr.sparsePct > 0 && p.CapMB > 0 && rapid.IntRange(0, 99).Draw(t, "sparse") < pr.sparsePct
	if sparse {
		// few items, most of them a large part of the capacity: prunes that leave one item or none
		n = rapid.IntRange(2, 12).Draw(t, "nsparse")
		capB := int(p.CapMB) * 1_000_000
		for i := 0; i < n; i++ {
			if rapid.IntRange(0, 9).Draw(t, "sop") == 0 {
				p.Ops = append(p.Ops, histOp{Op: "reopen"})
				continue
			}
			l := rapid.SampledFrom([]int{0, 1000, unit * 2 / 5, unit - 32, unit, capB / 2, capB * 99 / 100, capB - 32, capB, capB + capB/10}).Draw(t, "slen")
			ref := genRef(t, pr.stateful)
			if rapid.IntRange(0, 9).Draw(t, "closer") < 7 {
				// closer than everything put before it (byte-palindromic, so both readings of the key agree):
				// the newcomer is the last item a pruning pass reaches
				d := make([]byte, 32)
				d[0], d[31] = byte(0xf0-8*i), byte(0xf0-8*i)
				ref = idRef{Kind: "dist", Dist: d}
			}
			p.Ops = append(p.Ops, histOp{Op: "put", ID: ref, Len: l, Seed: rapid.Uint32().Draw(t, "seed")})
		}
		return p, false
	}
	for i := 0; i < n; i++ {
		k := rapid.IntRange(0, 99).Draw(t, "op")
		switch {
		case k < pr.reopenPct:
			p.Ops = append(p.Ops, histOp{Op: "reopen"})
		case k < pr.reopenPct+3:
			p.Ops = append(p.Ops, histOp{Op: "flush"})
		default:
			l := genHistLen(t, unit, p.CapMB, smallOnly, pr.bigValues)
			if l < 0 {
				l = 0
			}
			p.Ops = append(p.Ops, histOp{Op: "put", ID: genRef(t, pr.stateful), Len: l, Seed: rapid.Uint32().Draw(t, "seed")})
		}
	}
	return p, smallOnly
}
