package p_store

// C04 - Stored content is returned intact and nothing else is.
//
// Model-based state machine over the real pebble.ContentStorage. The plan is an
// op list drawn up front; the oracle is a map model id -> bytes written from the
// statement, plus ground truth read by scanning the database the harness owns.

import (
	"fmt"
	"testing"

	"github.com/cockroachdb/pebble"
	"github.com/cockroachdb/pebble/vfs"
	"github.com/ethereum/go-ethereum/p2p/enode"
	"github.com/zen-eth/shisui/history"
	"github.com/zen-eth/shisui/storage"
	"pgregory.net/rapid"
	model "verifharness/model/storemodel"
	"verifharness/pbt"
	"verifharness/stats"
)

type c04Op struct {
	Op  string  // put | get | hold | churn | flush | reopen
	ID  idRef   `json:",omitempty"`
	Val valSpec `json:",omitempty"`
	N   int     `json:",omitempty"` // churn: number of accesses
	W   bool    `json:",omitempty"` // churn: also write fresh items
}

type c04Plan struct {
	Node  []byte
	CapMB uint64
	Ops   []c04Op
}

func genValLen(t *rapid.T, allowLarge bool) int {
	switch rapid.IntRange(0, 11).Draw(t, "lenClass") {
	case 0:
		return 0
	case 1:
		return 1
	case 2:
		return rapid.SampledFrom([]int{31, 32, 33, 255, 256, 4095, 4096}).Draw(t, "blen")
	case 3:
		if allowLarge {
			return rapid.SampledFrom([]int{20_000, 60_000, 300_000, 1_200_000}).Draw(t, "large")
		}
		return rapid.IntRange(0, 4096).Draw(t, "len")
	default:
		return rapid.IntRange(0, 4096).Draw(t, "len")
	}
}

func genC04(t *rapid.T) c04Plan {
	p := c04Plan{Node: genNode(t), CapMB: rapid.SampledFrom([]uint64{1, 1, 2, 50}).Draw(t, "cap")}
	n := rapid.IntRange(1, 60).Draw(t, "n")
	large := 0
	for i := 0; i < n; i++ {
		var op c04Op
		switch k := rapid.IntRange(0, 19).Draw(t, "op"); {
		case k < 7:
			op = c04Op{Op: "put", ID: genRef(t, false), Val: valSpec{Len: genValLen(t, large < 6), Seed: rapid.Uint32().Draw(t, "seed")}}
			if op.Val.Len > 4096 {
				large++
			}
		case k < 11:
			op = c04Op{Op: "get", ID: genRef(t, false)}
		case k < 14:
			op = c04Op{Op: "hold", ID: idRef{Kind: "pool", Idx: rapid.IntRange(0, 255).Draw(t, "idx"), Dist: genDist(t)}}
		case k < 17:
			op = c04Op{Op: "churn", N: rapid.IntRange(1, 64).Draw(t, "n"), W: rapid.Bool().Draw(t, "w"), Val: valSpec{Len: rapid.IntRange(64, 4096).Draw(t, "clen"), Seed: rapid.Uint32().Draw(t, "seed")}}
		case k < 18:
			op = c04Op{Op: "flush"}
		default:
			op = c04Op{Op: "reopen"}
		}
		p.Ops = append(p.Ops, op)
	}
	return p
}

type heldSlice struct {
	id      model.ID
	got     []byte // the slice the store handed back
	private []byte // our copy taken at once
	traffic int    // bytes read/written through the store since
}

type c04State struct {
	r      *rig
	res    *resolver
	vals   map[model.ID]valSpec // last accepted put per content id
	pruned map[model.ID]bool    // lost to pruning (ground truth)
	holds  []*heldSlice
	snap   *model.Snapshot
	c      *stats.Case
}

func (s *c04State) traffic(n int) {
	for _, h := range s.holds {
		h.traffic += n
	}
}

func (s *c04State) checkHolds(after string) error {
	for _, h := range s.holds {
		eq, fault := equalHandedOut(h.got, h.private)
		if fault != "" {
			return fmt.Errorf("bytes handed back by Get(%s) (%d bytes) are no longer readable after %s: %s", short(h.id), len(h.private), after, fault)
		}
		if !eq {
			return fmt.Errorf("bytes handed back by Get(%s) (%d bytes) changed after %s (%d bytes of other traffic since)", short(h.id), len(h.private), after, h.traffic)
		}
	}
	return nil
}

func (s *c04State) doPut(id model.ID, v valSpec) error {
	node := s.r.node
	key := model.Dist(node, id)
	val := v.bytes()
	sum := v.sum()
	before := s.snap
	r0 := s.r.radius()
	err := s.r.put(id, val)
	for i := range val { // callers reuse their buffers
		val[i] = ^val[i]
	}
	s.traffic(len(val))
	after, serr := s.r.scan(true)
	if serr != nil {
		return fmt.Errorf("scan after put: %v", serr)
	}
	if len(after.Odd) > 0 {
		return fmt.Errorf("unexpected keys in the store after put(%s): %v", short(id), after.Odd)
	}
	r1 := s.r.radius()
	defer func() { s.snap = after }()
	switch {
	case err == nil:
		if old, ok := s.vals[id]; ok && !s.pruned[id] {
			s.c.NT("overwrite")
			if old.Len == 0 || v.Len == 0 {
				s.c.Class("overwrite-empty")
			}
		}
		if v.Len == 0 {
			s.c.Class("empty-value")
		}
		s.vals[id], s.pruned[id] = v, false
		// an item may only disappear through pruning, and pruning is only due when
		// the store's own usage figure exceeds the capacity
		due := before.Rec+32+uint64(v.Len) > s.r.capBytes()
		if it, ok := after.Items[key]; ok {
			if it.Len != v.Len || it.Sum != sum {
				return fmt.Errorf("put(%s, %d bytes) accepted but the store holds different bytes (%d bytes) under that id", short(id), v.Len, it.Len)
			}
		} else if !due {
			return fmt.Errorf("put(%s, %d bytes) accepted but the item is not stored although no pruning was due (usage %d of %d)", short(id), v.Len, before.Rec, s.r.capBytes())
		} else {
			s.pruned[id] = true
			s.c.Class("self-pruned")
		}
		for k, old := range before.Items {
			if k == key {
				continue
			}
			now, ok := after.Items[k]
			if !ok {
				if !due {
					return fmt.Errorf("put(%s) made item %s disappear although no pruning was due (usage %d of %d)", short(id), short(xorID(node, k)), before.Rec, s.r.capBytes())
				}
				s.pruned[xorID(node, k)] = true
				s.c.Class("pruned")
			} else if now != old {
				return fmt.Errorf("put(%s) changed the bytes stored under another id %s", short(id), short(xorID(node, k)))
			}
		}
		for k := range after.Items {
			if _, ok := before.Items[k]; !ok && k != key {
				return fmt.Errorf("put(%s) created an item under a different id %s", short(id), short(xorID(node, k)))
			}
		}
	case isRefused(err):
		s.c.Class("refused")
		if !after.Equal(before) {
			return fmt.Errorf("refused put(%s) changed the stored content (items %d->%d, usage record %d->%d)", short(id), len(before.Items), len(after.Items), before.Rec, after.Rec)
		}
		if r0.Cmp(r1) != 0 {
			return fmt.Errorf("refused put(%s) changed the radius %x -> %x", short(id), r0, r1)
		}
	default:
		return fmt.Errorf("put(%s, %d bytes) neither accepted nor refused: %v", short(id), v.Len, err)
	}
	return nil
}

func (s *c04State) doGet(id model.ID, hold bool) error {
	got, err := s.r.get(id)
	v, known := s.vals[id]
	switch {
	case !known:
		s.c.Class("get-unknown")
		if err == nil {
			return fmt.Errorf("get(%s) returned %d bytes although nothing was ever stored under that id", short(id), len(got))
		}
		return nil
	case s.pruned[id]:
		s.c.Class("get-pruned")
		if err == nil {
			if eq, fault := equalHandedOut(got, v.bytes()); !eq || fault != "" {
				return fmt.Errorf("get(%s) of a pruned item returned bytes that were not the ones put %s", short(id), fault)
			}
		}
		return nil
	}
	if err != nil {
		return fmt.Errorf("get(%s) failed (%v) although %d bytes were put under that id and not pruned", short(id), err, v.Len)
	}
	want := v.bytes()
	eq, fault := equalHandedOut(got, want)
	if fault != "" {
		return fmt.Errorf("get(%s) handed back %d bytes that cannot be read: %s", short(id), len(got), fault)
	}
	if !eq {
		return fmt.Errorf("get(%s) returned %d bytes that differ from the %d bytes put under that id", short(id), len(got), len(want))
	}
	s.traffic(len(got))
	if hold {
		s.holds = append(s.holds, &heldSlice{id: id, got: got, private: want})
		s.c.Class("hold")
	}
	return nil
}

func churnID(node model.ID, seed uint32, i int) model.ID {
	var d model.ID
	fillVal(d[:], seed+uint32(i)*2654435761)
	if model.IsZero(d) {
		d[0] = 1
	}
	return xorID(node, d)
}

func runC04(p c04Plan, c *stats.Case) error {
	node := toID(p.Node)
	r, err := newRig(node, p.CapMB, vfs.NewMem())
	if err != nil {
		return err
	}
	defer r.destroy()
	s := &c04State{r: r, res: newResolver(node), vals: map[model.ID]valSpec{}, pruned: map[model.ID]bool{}, c: c}
	if s.snap, err = r.scan(true); err != nil {
		return err
	}
	for i, op := range p.Ops {
		what := fmt.Sprintf("step %d (%s)", i, op.Op)
		switch op.Op {
		case "put":
			id, ok := s.res.resolve(op.ID, nil, s.snap)
			if !ok {
				c.Class("skipped-node-id")
				continue
			}
			if op.ID.Kind == "nbr" {
				c.Class("put-neighbour")
			}
			s.res.note(id)
			if err := s.doPut(id, op.Val); err != nil {
				return fmt.Errorf("step %d: %v", i, err)
			}
		case "get", "hold":
			id, ok := s.res.resolve(op.ID, nil, s.snap)
			if !ok {
				c.Class("skipped-node-id")
				continue
			}
			if op.ID.Kind == "nbr" && len(s.res.pool) > 0 {
				c.NT("neighbour-read")
			}
			if err := s.doGet(id, op.Op == "hold"); err != nil {
				return fmt.Errorf("step %d: %v", i, err)
			}
		case "churn":
			for j := 0; j < op.N; j++ {
				if op.W && j%2 == 0 {
					id := churnID(node, op.Val.Seed, j)
					s.res.note(id)
					if err := s.doPut(id, valSpec{Len: op.Val.Len, Seed: op.Val.Seed + uint32(j)}); err != nil {
						return fmt.Errorf("step %d (churn write %d): %v", i, j, err)
					}
				} else if len(s.res.pool) > 0 {
					if err := s.doGet(s.res.pool[(j*7+i)%len(s.res.pool)], false); err != nil {
						return fmt.Errorf("step %d (churn read %d): %v", i, j, err)
					}
				}
			}
		case "flush":
			if err := r.db.Flush(); err != nil {
				return fmt.Errorf("flush: %v", err)
			}
		case "reopen":
			c.NT("reopen")
			before := s.snap
			if err := r.reopen(); err != nil {
				return fmt.Errorf("step %d: reopen failed: %v", i, err)
			}
			after, err := r.scan(true)
			if err != nil {
				return err
			}
			due := before.Rec > r.capBytes()
			for k, old := range before.Items {
				now, ok := after.Items[k]
				if !ok {
					if !due {
						return fmt.Errorf("step %d: reopen lost item %s although the store was not over capacity (usage %d of %d)", i, short(xorID(node, k)), before.Rec, r.capBytes())
					}
					s.pruned[xorID(node, k)] = true
					c.Class("pruned-on-open")
				} else if now != old {
					return fmt.Errorf("step %d: reopen changed the bytes stored under %s", i, short(xorID(node, k)))
				}
			}
			if len(after.Items) > len(before.Items) {
				return fmt.Errorf("step %d: reopen created items", i)
			}
			s.snap = after
		}
		if err := s.checkHolds(what); err != nil {
			return err
		}
	}
	// final sweep: every id ever used, against the model
	for _, id := range s.res.pool {
		if err := s.doGet(id, false); err != nil {
			return fmt.Errorf("final sweep: %v", err)
		}
	}
	if err := s.checkHolds("the final sweep"); err != nil {
		return err
	}
	for _, h := range s.holds {
		if h.traffic >= 256<<10 {
			c.NT("hold+churn")
			break
		}
	}
	if err := r.closeDB(); err != nil {
		return fmt.Errorf("close: %v", err)
	}
	if err := s.checkHolds("close"); err != nil {
		return err
	}
	if r.leakedIterCloses > 0 {
		c.Class("close-reported-leaked-iterators(tolerated)")
	}
	return nil
}

func TestC04_Store(t *testing.T) { pbt.Run(t, "C04", "store", genC04, runC04) }

// ---------------------------------------------------------------------------
// hybrid adapter of the history network: selectors 0x00-0x04 behave as the plain
// content-id store, selector 0x05 is routed to the ephemeral store and must
// change nothing observable in the content-id store, and vice versa. The
// ephemeral store is not content-id addressed (its Get takes another key type
// than its Put), so the put/get law is not asserted for it.

type c04HOp struct {
	Put bool
	Sel byte
	ID  idRef
	Key []byte // content key body after the selector
	Val valSpec
}

type c04HPlan struct {
	Node []byte
	Ops  []c04HOp
}

func genC04H(t *rapid.T) c04HPlan {
	p := c04HPlan{Node: genNode(t)}
	n := rapid.IntRange(1, 24).Draw(t, "n")
	for i := 0; i < n; i++ {
		op := c04HOp{Put: rapid.IntRange(0, 2).Draw(t, "put") > 0, ID: genRef(t, false)}
		if rapid.IntRange(0, 2).Draw(t, "eph") == 0 {
			op.Sel = 0x05
		} else {
			op.Sel = rapid.ByteRange(0, 4).Draw(t, "sel")
		}
		kl := rapid.SampledFrom([]int{0, 1, 8, 32, 33, 34}).Draw(t, "klen")
		op.Key = rapid.SliceOfN(rapid.Byte(), kl, kl).Draw(t, "key")
		op.Val = valSpec{Len: rapid.SampledFrom([]int{0, 1, 8, 100, 600, 2000}).Draw(t, "vlen"), Seed: rapid.Uint32().Draw(t, "seed")}
		p.Ops = append(p.Ops, op)
	}
	return p
}

func scanRaw(db *pebble.DB) (map[string]uint64, error) {
	out := map[string]uint64{}
	it, err := db.NewIter(nil)
	if err != nil {
		return nil, err
	}
	defer it.Close()
	for it.First(); it.Valid(); it.Next() {
		v, err := it.ValueAndErr()
		if err != nil {
			return nil, err
		}
		out[string(it.Key())] = uint64(len(v))<<40 ^ (sum64(v) >> 24)
	}
	return out, it.Error()
}

func sameRaw(a, b map[string]uint64) bool {
	if len(a) != len(b) {
		return false
	}
	for k, v := range a {
		if w, ok := b[k]; !ok || w != v {
			return false
		}
	}
	return true
}

func runC04H(p c04HPlan, c *stats.Case) error {
	node := toID(p.Node)
	r, err := newRig(node, 50, vfs.NewMem())
	if err != nil {
		return err
	}
	defer r.destroy()
	cache2 := pebble.NewCache(64 << 10)
	defer cache2.Unref()
	db2, err := pebble.Open("eph", dbOptions(vfs.NewMem(), cache2))
	if err != nil {
		return err
	}
	defer db2.Close()
	eph := history.NewEphemeralStorage(storage.PortalStorageConfig{StorageCapacityMB: 50, NodeId: enode.ID(node), NetworkName: "verif"}, db2)
	hs, err := history.NewHistoryStorage(r.cs, eph)
	if err != nil {
		return err
	}
	res := newResolver(node)
	vals := map[model.ID]valSpec{}
	snap, err := r.scan(true)
	if err != nil {
		return err
	}
	raw2, err := scanRaw(db2)
	if err != nil {
		return err
	}
	ephPuts, idPuts := 0, 0
	for i, op := range p.Ops {
		id, ok := res.resolve(op.ID, nil, snap)
		if !ok {
			continue
		}
		ck := append([]byte{op.Sel}, op.Key...)
		r0 := radiusOf(hs)
		var got []byte
		var gerr error
		if op.Put {
			gerr = hs.Put(ck, id[:], op.Val.bytes())
		} else {
			got, gerr = hs.Get(ck, id[:])
		}
		after, err := r.scan(true)
		if err != nil {
			return err
		}
		raw2After, err := scanRaw(db2)
		if err != nil {
			return err
		}
		if op.Sel == 0x05 {
			c.Class("ephemeral-selector")
			if !after.Equal(snap) || radiusOf(hs).Cmp(r0) != 0 {
				return fmt.Errorf("step %d: operation under the ephemeral selector 0x05 changed the content-id store", i)
			}
			if op.Put && gerr == nil {
				ephPuts++
			}
			if !op.Put && !sameRaw(raw2, raw2After) {
				return fmt.Errorf("step %d: get under selector 0x05 changed the ephemeral store", i)
			}
		} else {
			if !sameRaw(raw2, raw2After) {
				return fmt.Errorf("step %d: operation under selector %#x changed the ephemeral store", i, op.Sel)
			}
			key := model.Dist(node, id)
			if op.Put && isRefused(gerr) {
				if !after.Equal(snap) {
					return fmt.Errorf("step %d: refused put under selector %#x changed the content-id store", i, op.Sel)
				}
				c.Class("hybrid-refused")
			} else if op.Put {
				if gerr != nil {
					return fmt.Errorf("step %d: put under selector %#x failed: %v", i, op.Sel, gerr)
				}
				res.note(id)
				vals[id] = op.Val
				idPuts++
				it, ok := after.Items[key]
				if !ok || it.Len != op.Val.Len || it.Sum != op.Val.sum() {
					return fmt.Errorf("step %d: put(%s) under selector %#x is not what the content-id store holds", i, short(id), op.Sel)
				}
				if len(after.Items) > len(snap.Items)+1 {
					return fmt.Errorf("step %d: put created more than one item", i)
				}
			} else {
				if !after.Equal(snap) {
					return fmt.Errorf("step %d: get changed the content-id store", i)
				}
				if v, ok := vals[id]; ok {
					if eq, fault := equalHandedOut(got, v.bytes()); gerr != nil || !eq || fault != "" {
						return fmt.Errorf("step %d: get(%s) under selector %#x did not return the bytes put (err=%v)", i, short(id), op.Sel, gerr)
					}
					c.Class("hybrid-get-hit")
				} else if gerr == nil {
					return fmt.Errorf("step %d: get(%s) under selector %#x returned %d bytes for an id never put in the content-id store", i, short(id), op.Sel, len(got))
				}
			}
		}
		snap, raw2 = after, raw2After
	}
	if ephPuts > 0 && idPuts > 0 {
		c.NT("hybrid-both-stores")
	}
	return nil
}

func TestC04_Hybrid(t *testing.T) { pbt.Run(t, "C04", "hybrid", genC04H, runC04H) }
