// Package model holds the reference models the oracles compare against. They are
// written from the property statements, not from the code under test.
package mframing

import "errors"

var (
	ErrTruncated = errors.New("mframing: truncated")
	ErrOverflow  = errors.New("mframing: varint overflows 32 bits")
	ErrShort     = errors.New("mframing: length prefix exceeds remaining bytes")
)

// Uvarint32 decodes an unsigned LEB128 number that must fit 32 bits.
// minimal reports whether the encoding is the shortest one.
func Uvarint32(b []byte) (v uint32, n int, minimal bool, err error) {
	var acc uint64
	for i := 0; ; i++ {
		if i >= len(b) {
			return 0, 0, false, ErrTruncated
		}
		if i == 5 {
			return 0, 0, false, ErrOverflow
		}
		c := b[i]
		acc |= uint64(c&0x7f) << (7 * uint(i))
		if c&0x80 == 0 {
			if acc > 0xffffffff {
				return 0, 0, false, ErrOverflow
			}
			minimal = i == 0 || c != 0
			return uint32(acc), i + 1, minimal, nil
		}
	}
}

// PutUvarint32 is the canonical (shortest) encoding.
func PutUvarint32(v uint32) []byte {
	var out []byte
	for {
		c := byte(v & 0x7f)
		v >>= 7
		if v != 0 {
			out = append(out, c|0x80)
		} else {
			return append(out, c)
		}
	}
}

// SplitStream splits a content stream into items. allMinimal reports whether
// every length prefix used the shortest encoding.
func SplitStream(b []byte) (items [][]byte, allMinimal bool, err error) {
	allMinimal = true
	items = [][]byte{}
	for len(b) > 0 {
		l, n, min, e := Uvarint32(b)
		if e != nil {
			return nil, false, e
		}
		if !min {
			allMinimal = false
		}
		if uint64(len(b)-n) < uint64(l) {
			return nil, false, ErrShort
		}
		items = append(items, b[n:n+int(l)])
		b = b[n+int(l):]
	}
	return items, allMinimal, nil
}

// JoinStream is the inverse.
func JoinStream(items [][]byte) []byte {
	var out []byte
	for _, it := range items {
		out = append(out, PutUvarint32(uint32(len(it)))...)
		out = append(out, it...)
	}
	return out
}
