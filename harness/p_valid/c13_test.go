package p_valid

// C13 — state content is accepted only with a hash-linked proof down to the
// state root.
//
// Tries are built with go-ethereum's trie (trusted library); every hashed node
// of the trie can be the claimed target. The judge is vmodel.StateOfferVerdict,
// an MPT proof walker over RLP lists written from the yellow paper. Soundness:
// accepted => the reference accepts, and what Storage.Put stores is exactly
// the final node / the code. Honest offers accepted = generator health.

import (
	"bytes"
	"crypto/sha256"
	"fmt"
	"sort"
	"strings"
	"testing"

	gcommon "github.com/ethereum/go-ethereum/common"
	"github.com/ethereum/go-ethereum/core/rawdb"
	"github.com/ethereum/go-ethereum/core/types"
	"github.com/ethereum/go-ethereum/rlp"
	"github.com/ethereum/go-ethereum/trie"
	"github.com/ethereum/go-ethereum/triedb"
	"github.com/holiman/uint256"
	"github.com/zen-eth/shisui/state"
	"github.com/zen-eth/shisui/validation"
	"pgregory.net/rapid"
	vm "verifharness/model/vmodel"
	"verifharness/pbt"
	"verifharness/stats"
)

type c13Mut struct {
	Kind string
	A    int
	B    int
	V    uint64
}

type c13Plan struct {
	Kind     int // 0 account trie node, 1 contract storage trie node, 2 contract bytecode
	Seed     uint64
	NLeaves  int // leaves of the trie the target lives in (kind 0: account trie, kind 1: storage trie)
	KeyMode  int // 0 random 32-byte keys, 1 shared prefixes, 2 short keys, 3 low-entropy nibbles
	ValMode  int // 0 small values (inline children possible), 1 large values, 2 mixed, 3 account rlp
	NAcct    int // kinds 1,2: accounts in the account trie
	AcctMode int // kinds 1,2: 0 random address hashes, 1 long shared prefixes with the contract's address hash
	CodeLen  int
	Target   int // kinds 0,1: which hashed node of the trie is claimed (mod count)
	Craft    int // 0 genuine trie; 1 a leaf whose value is the hash of a forged continuation (leaf value used as a link); 2 the committed root is a malformed node
	Source   int // header source: 0 harness oracle, 1 real ValidationOracle over an honest RPC, 2 over an RPC that answers with another header
	Muts     []c13Mut
	// history on the same (long-lived) validator before the judged call:
	Prelude   bool // first validate the unmutated offer of this world
	FailFirst bool // then validate the judged offer once while the header lookup fails
	// kind 2: the code-hash field of the contract's account leaf: 0 the 32-byte hash, 1 the hash followed by 1..3 more bytes,
	// 2 the hash cut short (to 31, 20 or 1 bytes; rlp allows a byte string of any length there). An EMPTY field is not generated: the code
	// reads leaves with go-ethereum's FullAccount, for which an empty code-hash field means "the hash of the empty code" (slim
	// account encoding), so accepting empty code under it demands nothing the statement forbids (found as a false alarm of this check).
	CodeHashShape int
}

var c13MutKinds = []string{"path-short", "path-long", "path-nibble", "hash", "block", "block", "order", "drop", "drop", "dup", "surplus", "byte", "other-trie",
	"addr", "acct-drop", "acct-byte", "acct-dup", "acct-order", "acct-other", "acct-empty", "acct-as-storage", "code", "empty", "retarget"}

func genC13(t *rapid.T) c13Plan {
	p := c13Plan{
		Kind:     rapid.SampledFrom([]int{0, 0, 1, 1, 2}).Draw(t, "kind"),
		Seed:     rapid.Uint64().Draw(t, "seed"),
		KeyMode:  rapid.IntRange(0, 3).Draw(t, "keyMode"),
		ValMode:  rapid.IntRange(0, 3).Draw(t, "valMode"),
		NAcct:    rapid.IntRange(1, 40).Draw(t, "nacct"),
		AcctMode: rapid.IntRange(0, 1).Draw(t, "acctMode"),
		CodeLen:  rapid.SampledFrom([]int{0, 1, 2, 31, 32, 33, 100, 1000, 24576}).Draw(t, "codeLen"),
		Target:   rapid.IntRange(0, 100000).Draw(t, "target"),
	}
	switch rapid.IntRange(0, 9).Draw(t, "sizeClass") {
	case 0:
		p.NLeaves = rapid.SampledFrom([]int{1, 2, 3}).Draw(t, "nTiny")
	case 1:
		p.NLeaves = rapid.IntRange(100, 500).Draw(t, "nBig")
	default:
		p.NLeaves = rapid.IntRange(1, 60).Draw(t, "n")
	}
	if p.Kind == 2 && rapid.IntRange(0, 3).Draw(t, "chShapeGate") == 0 {
		p.CodeHashShape = rapid.IntRange(1, 2).Draw(t, "chShape")
	}
	switch rapid.IntRange(0, 19).Draw(t, "craftGate") {
	case 0:
		p.Craft = 1
	case 1:
		p.Craft = 2
	}
	switch rapid.IntRange(0, 11).Draw(t, "srcClass") {
	case 0:
		p.Source = 1
	case 1:
		p.Source = 2
	}
	nm := 0
	switch rapid.IntRange(0, 9).Draw(t, "nmuts") {
	case 0, 1, 2:
	case 3, 4, 5, 6, 7:
		nm = 1
	default:
		nm = 2
	}
	if p.Source == 2 {
		// a lying source matters when the content names another (or no known) header than the proof's
		p.Muts = append(p.Muts, c13Mut{Kind: "block", A: rapid.IntRange(0, 255).Draw(t, "lieA"), B: rapid.IntRange(0, 255).Draw(t, "lieB"), V: rapid.Uint64().Draw(t, "lieV")})
	}
	for i := 0; i < nm; i++ {
		p.Muts = append(p.Muts, c13Mut{
			Kind: rapid.SampledFrom(c13MutKinds).Draw(t, "mk"),
			A:    rapid.IntRange(0, 255).Draw(t, "ma"),
			B:    rapid.IntRange(0, 255).Draw(t, "mb"),
			V:    rapid.Uint64().Draw(t, "mv"),
		})
	}
	p.Prelude = rapid.IntRange(0, 2).Draw(t, "prelude") == 0
	p.FailFirst = rapid.IntRange(0, 2).Draw(t, "failFirst") == 0
	return p
}

// ---------------------------------------------------------------------------
// trie construction (go-ethereum's trie is a trusted library here)

type builtNode struct {
	Path []byte // nibbles consumed before the node
	Blob []byte
}

type builtTrie struct {
	Root  vm.H32
	Nodes []builtNode // hashed nodes only, sorted by path
	Keys  [][]byte
	Vals  [][]byte
}

func buildTrie(keys, vals [][]byte) *builtTrie {
	tr := trie.NewEmpty(triedb.NewDatabase(rawdb.NewMemoryDatabase(), nil))
	for i := range keys {
		tr.MustUpdate(keys[i], vals[i])
	}
	root, set := tr.Commit(false)
	bt := &builtTrie{Root: vm.H32(root), Keys: keys, Vals: vals}
	if set != nil {
		for path, n := range set.Nodes {
			if !n.IsDeleted() {
				bt.Nodes = append(bt.Nodes, builtNode{Path: []byte(path), Blob: n.Blob})
			}
		}
	}
	sort.Slice(bt.Nodes, func(i, j int) bool { return bytes.Compare(bt.Nodes[i].Path, bt.Nodes[j].Path) < 0 })
	return bt
}

// proofTo returns the stored nodes met on the way along `path`, root first,
// and the index of the last one.
func (bt *builtTrie) proofTo(path []byte) [][]byte {
	var on []builtNode
	for _, n := range bt.Nodes {
		if len(n.Path) <= len(path) && bytes.Equal(path[:len(n.Path)], n.Path) {
			on = append(on, n)
		}
	}
	sort.SliceStable(on, func(i, j int) bool { return len(on[i].Path) < len(on[j].Path) })
	out := make([][]byte, len(on))
	for i := range on {
		out[i] = on[i].Blob
	}
	return out
}

func genKeys(seed uint64, label string, n, mode int) [][]byte {
	keys := make([][]byte, 0, n)
	seen := map[string]bool{}
	for i := uint64(0); len(keys) < n && i < uint64(4*n+16); i++ {
		var k []byte
		switch mode {
		case 0:
			h := prf(seed, label+"k", i)
			k = h[:]
		case 1: // families sharing 1..31 leading bytes
			h := prf(seed, label+"k", i)
			fam := prf(seed, label+"fam", i%3)
			share := 1 + int(prfU64(seed, label+"share", i)%31)
			k = append(append([]byte{}, fam[:share]...), h[share:]...)
		case 2: // short keys: 1..3 bytes, some a prefix of others
			l := 1 + int(prfU64(seed, label+"len", i)%3)
			h := prf(seed, label+"k", i)
			k = h[:l]
			if i%4 == 0 {
				k[0] &= 0x30
			}
		default: // few distinct nibble values: long shared runs, extensions below branches
			h := prf(seed, label+"k", i)
			l := []int{2, 4, 32}[prfU64(seed, label+"len", i)%3]
			k = make([]byte, l)
			for j := range k {
				k[j] = h[j%32] & 0x11
			}
		}
		if !seen[string(k)] {
			seen[string(k)] = true
			keys = append(keys, k)
		}
	}
	return keys
}

func accountRLP(seed uint64, i uint64, root vm.H32, codeHash vm.H32) []byte {
	return accountRLPRaw(seed, i, root, codeHash[:])
}

func accountRLPRaw(seed uint64, i uint64, root vm.H32, codeHash []byte) []byte {
	acc := types.StateAccount{
		Nonce:    prfU64(seed, "nonce", i) % 1000,
		Balance:  uint256.NewInt(prfU64(seed, "bal", i)),
		Root:     gcommon.Hash(root),
		CodeHash: codeHash,
	}
	b, err := rlp.EncodeToBytes(&acc)
	if err != nil {
		panic(err)
	}
	return b
}

func genVals(seed uint64, label string, n, mode int) [][]byte {
	vals := make([][]byte, n)
	for i := range vals {
		m := mode
		if m == 2 {
			m = int(prfU64(seed, label+"vm", uint64(i)) % 2)
		}
		switch m {
		case 0:
			l := 1 + int(prfU64(seed, label+"vl", uint64(i))%6)
			vals[i] = prfBytes(seed+uint64(i), label+"v", l)
			vals[i][0] |= 1
		case 1:
			l := 33 + int(prfU64(seed, label+"vl", uint64(i))%48)
			vals[i] = prfBytes(seed+uint64(i), label+"v", l)
		default:
			vals[i] = accountRLP(seed, uint64(i), prf(seed, label+"sroot", uint64(i)), prf(seed, label+"chash", uint64(i)))
		}
	}
	return vals
}

// ---------------------------------------------------------------------------

type c13World struct {
	p        c13Plan
	headers  []*types.Header // [0] names the honest state root, [1] another world's
	key      vm.StateKey
	offer    vm.StateOffer
	other    *builtTrie // another trie (for "other-trie")
	main     *builtTrie // the trie the target lives in
	acctTrie *builtTrie
	acctKeys [][]byte
	target   int
	crafted  bool
}

func stateHeader(seed uint64, root vm.H32, n uint64) *types.Header {
	h := mkHeader(seed, 19_000_000+n)
	h.Root = gcommon.Hash(root)
	return h
}

func buildC13(p c13Plan) *c13World {
	w := &c13World{p: p}
	// the trie holding the target
	var main *builtTrie
	if p.Kind != 2 {
		keys := genKeys(p.Seed, "m", p.NLeaves, p.KeyMode)
		vmode := p.ValMode
		if p.Kind == 1 && vmode == 3 {
			vmode = 0
		}
		vals := genVals(p.Seed, "m", len(keys), vmode)
		if p.Craft == 1 && len(keys) > 0 {
			// leaf i gets the value keccak(X), X = extension(R -> keccak(Y)) where R is what is left of
			// the key below the leaf's position; computed after a first build tells us the leaf's position.
			main = buildTrie(keys, vals)
			li := p.Target % len(keys)
			full := vm.BytesToNibbles(keys[li])
			// position of the leaf = longest stored-node path that is a prefix of the key and whose node is a leaf for it
			pr := main.proofTo(full)
			_ = pr
			var leafPath []byte
			for _, n := range main.Nodes {
				if len(n.Path) <= len(full) && bytes.Equal(full[:len(n.Path)], n.Path) && len(n.Path) >= len(leafPath) {
					leafPath = n.Path
				}
			}
			rest := full[len(leafPath):]
			y := append([]byte{0xc2, 0x80}, prfBytes(p.Seed, "forgedY", 40)...) // any bytes: the final node is only hashed
			yh := vm.Keccak(y)
			if len(rest) > 0 && len(full) <= 64 {
				x := vm.RLPList(vm.RLPString(vm.HexPrefix(rest, false)), vm.RLPString(yh[:]))
				xh := vm.Keccak(x)
				vals[li] = xh[:]
				main = buildTrie(keys, vals)
				pr = main.proofTo(full)
				// only usable when the deepest stored node on the path really is the leaf holding our value
				last := pr[len(pr)-1]
				if v, err := leafValueOf(last); err == nil && bytes.Equal(v, xh[:]) {
					w.crafted = true
					w.main = main
					w.key = vm.StateKey{Path: full, Hash: yh}
					w.offer.Proof = append(append([][]byte{}, pr...), x, y)
				}
			}
		}
		if !w.crafted {
			main = buildTrie(keys, vals)
			w.main = main
			w.target = p.Target % len(main.Nodes)
			tn := main.Nodes[w.target]
			w.key = vm.StateKey{Path: append([]byte{}, tn.Path...), Hash: vm.Keccak(tn.Blob)}
			w.offer.Proof = main.proofTo(tn.Path)
		}
	}
	var mainRoot vm.H32
	if w.main != nil {
		mainRoot = w.main.Root
	}
	if p.Craft == 2 && p.Kind != 2 {
		// the committed root itself is a malformed node (only a forged header / storage root can name
		// such a thing; the validator must still answer with an error, not a crash)
		next := prfBytes(p.Seed, "next", 40)
		nh := vm.Keccak(next)
		ref := vm.RLPString(nh[:])
		var bad []byte
		switch p.Target % 7 {
		case 0:
			bad = vm.RLPList(vm.RLPString(nil), ref) // short node, empty compact key
		case 1:
			bad = vm.RLPList(vm.RLPString([]byte{0x00}), ref) // extension with zero nibbles
		case 2:
			bad = vm.RLPList(vm.RLPString([]byte{0x20}), ref) // leaf with zero nibbles
		case 3:
			bad = vm.RLPList(vm.RLPString([]byte{0x11}), vm.RLPString(nil)) // extension to nothing
		case 4:
			bad = vm.RLPString(prfBytes(p.Seed, "str", 40)) // not a list
		case 5:
			bad = vm.RLPList(ref, ref, ref) // three members
		default:
			members := make([][]byte, 17)
			for i := range members {
				members[i] = vm.RLPString(nh[:31]) // 31-byte child references
			}
			bad = vm.RLPList(members...)
		}
		w.crafted = true
		mainRoot = vm.Keccak(bad)
		w.key.Path = vm.BytesToNibbles(prfBytes(p.Seed, "cpath", 3))[:1+p.Target%5]
		if p.Target%7 == 3 {
			w.key.Path[0] = 1
		}
		w.key.Hash = nh
		w.offer.Proof = [][]byte{bad, next}
	}
	stateRoot := vm.H32{}
	switch p.Kind {
	case 0:
		w.key.Kind = vm.StateAccountTrieNode
		stateRoot = mainRoot
	default:
		// account trie around the contract
		code := prfBytes(p.Seed, "code", p.CodeLen)
		codeHash := vm.Keccak(code)
		storageRoot := vm.EmptyTrieRoot
		if p.Kind == 1 {
			storageRoot = mainRoot
		}
		contract := prf(p.Seed, "contract", 0)
		akeys := [][]byte{contract[:]}
		chField := codeHash[:]
		if p.Kind != 2 || p.CodeHashShape > 2 {
			p.CodeHashShape = 0
		}
		if p.CodeHashShape != 0 {
			w.crafted = true // not an account: the field that must equal the key's hash is no 32-byte hash
		}
		switch p.CodeHashShape {
		case 1:
			chField = append(append([]byte{}, codeHash[:]...), prfBytes(p.Seed, "chx", 1+int(p.Seed%3))...)
		case 2:
			chField = append([]byte{}, codeHash[:[]int{31, 20, 1}[p.Seed%3]]...)
		}
		avals := [][]byte{accountRLPRaw(p.Seed, 0, storageRoot, chField)}
		for i := 1; i < p.NAcct; i++ {
			k := prf(p.Seed, "acct", uint64(i))
			if p.AcctMode == 1 {
				share := 1 + int(prfU64(p.Seed, "ashare", uint64(i))%31)
				copy(k[:share], contract[:share])
				if prfU64(p.Seed, "ashare63", uint64(i))%16 == 0 {
					// differ only in the very last nibble: the two leaves have an empty key below a depth-63 branch
					k = contract
					k[31] ^= 1 + byte(prfU64(p.Seed, "alow", uint64(i))%15)
				}
			}
			if k == contract {
				k[31] ^= 0x10 // (a 31-byte shared prefix plus a chance hit on the last byte)
			}
			akeys = append(akeys, append([]byte{}, k[:]...))
			avals = append(avals, accountRLP(p.Seed, uint64(i), prf(p.Seed, "osr", uint64(i)), prf(p.Seed, "och", uint64(i))))
		}
		w.acctTrie = buildTrie(akeys, avals)
		w.acctKeys = akeys
		stateRoot = w.acctTrie.Root
		w.key.AddressHash = contract
		w.offer.AccountProof = w.acctTrie.proofTo(vm.BytesToNibbles(contract[:]))
		if p.Kind == 1 {
			w.key.Kind = vm.StateStorageTrieNode
		} else {
			w.key.Kind = vm.StateBytecode
			w.key.Hash = codeHash
			w.offer.Code = code
		}
	}
	// another world for cross-pairings
	ok := genKeys(p.Seed^0x5555, "o", 1+p.NLeaves%17, p.KeyMode)
	w.other = buildTrie(ok, genVals(p.Seed^0x5555, "o", len(ok), 1))
	w.headers = []*types.Header{stateHeader(p.Seed, stateRoot, 0), stateHeader(p.Seed^1, w.other.Root, 1)}
	w.offer.BlockHash = vm.H32(w.headers[0].Hash())
	return w
}

// leafValueOf returns the value of a leaf node (error when the node is not a leaf).
func leafValueOf(raw []byte) ([]byte, error) {
	it, _, err := vm.RLPSplit(raw)
	if err != nil || !it.IsList {
		return nil, fmt.Errorf("not a list")
	}
	items, err := vm.RLPListItems(it.Payload)
	if err != nil || len(items) != 2 {
		return nil, fmt.Errorf("not a short node")
	}
	_, leaf, err := vm.HexPrefixDecode(items[0].Payload)
	if err != nil || !leaf {
		return nil, fmt.Errorf("not a leaf")
	}
	return items[1].Payload, nil
}

func (w *c13World) mutate(m c13Mut, c *stats.Case) {
	kind := m.Kind
	isNode := w.key.Kind != vm.StateBytecode
	hasAcct := w.key.Kind != vm.StateAccountTrieNode
	// map mutations that do not apply to this content type onto ones that do
	if !isNode {
		switch kind {
		case "path-short", "path-long", "retarget", "hash":
			kind = "code"
		case "path-nibble":
			kind = "addr"
		case "order", "drop", "dup", "surplus", "byte", "other-trie", "empty":
			kind = "acct-" + map[string]string{"order": "order", "drop": "drop", "dup": "dup", "surplus": "dup", "byte": "byte", "other-trie": "other", "empty": "empty"}[kind]
		}
	}
	if !hasAcct && (strings.HasPrefix(kind, "acct-") || kind == "addr" || kind == "code") {
		kind = map[string]string{"acct-drop": "drop", "acct-byte": "byte", "acct-dup": "dup", "acct-order": "order", "acct-other": "other-trie", "acct-empty": "empty", "acct-as-storage": "other-trie", "addr": "path-nibble", "code": "hash"}[kind]
	}
	if kind == "code" && isNode {
		kind = "hash"
	}
	if kind == "acct-as-storage" && w.key.Kind != vm.StateStorageTrieNode {
		if isNode {
			kind = "other-trie"
		} else {
			kind = "acct-other"
		}
	}
	c.Class("mut:" + kind)
	flipIn := func(b []byte, pos int) {
		if len(b) > 0 {
			b[pos%len(b)] ^= byte(m.V) | 1
		}
	}
	mutProof := func(pp *[][]byte, what string) {
		pr := *pp
		switch what {
		case "order":
			if len(pr) > 1 {
				i := m.A % len(pr)
				j := (i + 1 + m.B%(len(pr)-1)) % len(pr)
				pr[i], pr[j] = pr[j], pr[i]
			}
		case "drop":
			if len(pr) > 0 {
				i := m.A % len(pr)
				if m.B%3 == 0 {
					i = len(pr) - 1
				} else if m.B%3 == 1 {
					i = 0
				}
				*pp = append(append([][]byte{}, pr[:i]...), pr[i+1:]...)
			}
		case "dup":
			if len(pr) > 0 {
				i := m.A % len(pr)
				np := append([][]byte{}, pr[:i+1]...)
				np = append(np, pr[i])
				*pp = append(np, pr[i+1:]...)
			}
		case "byte":
			if len(pr) > 0 {
				i := m.A % len(pr)
				n := append([]byte{}, pr[i]...)
				flipIn(n, m.B+int(m.V>>8)%997)
				pr[i] = n
			}
		case "empty":
			*pp = [][]byte{}
		}
	}
	switch kind {
	case "path-short":
		n := 1 + m.A%3
		if n > len(w.key.Path) {
			n = len(w.key.Path)
		}
		w.key.Path = w.key.Path[:len(w.key.Path)-n]
	case "path-long":
		for i := 0; i <= m.A%3 && len(w.key.Path) < 64; i++ {
			w.key.Path = append(w.key.Path, byte(m.V>>(4*uint(i)))&15)
		}
	case "path-nibble":
		if len(w.key.Path) > 0 {
			i := m.A % len(w.key.Path)
			w.key.Path = append([]byte{}, w.key.Path...)
			w.key.Path[i] = (w.key.Path[i] + 1 + byte(m.V%15)) & 15
		}
	case "hash":
		w.key.Hash[m.A%32] ^= byte(m.V) | 1
	case "addr":
		w.key.AddressHash[m.A%32] ^= byte(m.V) | 1
	case "block":
		switch m.A % 3 {
		case 0, 1:
			w.offer.BlockHash = vm.H32(w.headers[1].Hash()) // a known header with another state root
		default:
			w.offer.BlockHash[m.B%32] ^= byte(m.V) | 1 // unknown block
		}
	case "order", "drop", "dup", "byte", "empty":
		mutProof(&w.offer.Proof, kind)
	case "surplus":
		switch m.A % 3 {
		case 0: // arbitrary extra node at the end
			w.offer.Proof = append(w.offer.Proof, prfBytes(m.V, "surplus", 1+m.B%80))
		case 1: // a genuine node of the same trie that is not on the path, at the end
			n := w.main.Nodes[m.B%len(w.main.Nodes)]
			w.offer.Proof = append(w.offer.Proof, n.Blob)
		default: // extra node in front
			w.offer.Proof = append([][]byte{prfBytes(m.V, "surplus", 1+m.B%80)}, w.offer.Proof...)
		}
	case "other-trie":
		// proof of another trie for the same key (trie A's key under root B is mutation "block")
		n := w.other.Nodes[m.A%len(w.other.Nodes)]
		w.offer.Proof = w.other.proofTo(n.Path)
		if m.B%2 == 0 {
			w.key.Path, w.key.Hash = append([]byte{}, n.Path...), vm.Keccak(n.Blob)
		}
	case "retarget":
		// claim the parent's position / hash with the child's proof and vice versa
		if len(w.offer.Proof) > 1 {
			if m.A%2 == 0 {
				w.key.Hash = vm.Keccak(w.offer.Proof[len(w.offer.Proof)-2])
			} else {
				w.offer.Proof = w.offer.Proof[:len(w.offer.Proof)-1]
			}
		}
	case "acct-order", "acct-drop", "acct-dup", "acct-byte", "acct-empty":
		mutProof(&w.offer.AccountProof, strings.TrimPrefix(kind, "acct-"))
	case "acct-as-storage":
		// a genuine node of the ACCOUNT trie (hash-linked to the state root) offered as a node of the contract's storage trie
		n := w.acctTrie.Nodes[m.A%len(w.acctTrie.Nodes)]
		w.offer.Proof = w.acctTrie.proofTo(n.Path)
		w.key.Path, w.key.Hash = append([]byte{}, n.Path...), vm.Keccak(n.Blob)
	case "acct-other":
		// the account proof of another account of the same trie
		k := w.acctKeys[m.A%len(w.acctKeys)]
		w.offer.AccountProof = w.acctTrie.proofTo(vm.BytesToNibbles(k))
		if m.B%2 == 0 {
			copy(w.key.AddressHash[:], k)
		}
	case "code":
		code := append([]byte{}, w.offer.Code...)
		switch {
		case m.A%3 == 0 && len(code) > 0:
			code = code[:len(code)-1]
		case m.A%3 == 1:
			code = append(code, byte(m.V))
		default:
			flipIn(code, m.B)
			if len(code) == 0 {
				code = []byte{byte(m.V) | 1}
			}
		}
		w.offer.Code = code
	}
}

// validationStore is the ContentStorage the state storage adapter writes into.
type validationStore struct {
	puts [][3][]byte
}

func (s *validationStore) Get(contentKey []byte, contentId []byte) ([]byte, error) {
	for i := len(s.puts) - 1; i >= 0; i-- {
		if bytes.Equal(s.puts[i][1], contentId) {
			return s.puts[i][2], nil
		}
	}
	return nil, fmt.Errorf("not found")
}

func (s *validationStore) Put(contentKey []byte, contentId []byte, content []byte) error {
	s.puts = append(s.puts, [3][]byte{append([]byte{}, contentKey...), append([]byte{}, contentId...), append([]byte{}, content...)})
	return nil
}

func (s *validationStore) Radius() *uint256.Int { return uint256.NewInt(0).Not(uint256.NewInt(0)) }
func (s *validationStore) Close() error         { return nil }

func runC13(p c13Plan, c *stats.Case) error {
	if p.Kind < 0 || p.Kind > 2 || p.NLeaves < 1 || p.NLeaves > 2000 || p.NAcct < 1 || p.NAcct > 500 || p.CodeLen < 0 || p.CodeLen > 32768 || p.Target < 0 || p.KeyMode < 0 || p.ValMode < 0 {
		return nil
	}
	w := buildC13(p)
	for _, m := range p.Muts {
		w.mutate(m, c)
	}
	keyBytes := w.key.Encode()
	content := w.offer.Encode(w.key.Kind)

	// what the bytes mean, by the reference's own readers
	k2, kerr := vm.DecodeStateKey(keyBytes)
	var o2 *vm.StateOffer
	var oerr error
	if kerr == nil {
		o2, oerr = vm.DecodeStateOffer(k2.Kind, content)
	}
	pool := newPoolOracle()
	for _, h := range w.headers {
		pool.add(h)
	}
	var store []byte
	var refErr error
	switch {
	case kerr != nil:
		refErr = kerr
	case oerr != nil:
		refErr = oerr
	default:
		hdr, herr := pool.lookup(o2.BlockHash[:])
		if herr != nil {
			refErr = herr
		} else {
			store, refErr = vm.StateOfferVerdict(k2, o2, vm.H32(hdr.Root))
		}
	}

	// header source
	var oracle validation.Oracle = pool
	var srv *scriptedPortal
	if p.Source != 0 {
		srv = newScriptedPortal()
		defer srv.close()
		for _, h := range w.headers {
			srv.addHeader(h)
		}
		if p.Source == 2 {
			// whatever hash is asked for, the portal answers with the header the proof was built for
			srv.lieWith = headerContent(w.headers[0], nil)
			c.Class("source:rpc-lying")
		} else {
			c.Class("source:rpc-honest")
		}
		oracle = validation.NewOracle(srv.client())
	}

	fo := &flakyOracle{inner: oracle}
	validator := state.NewStateValidator(fo)
	if p.Prelude {
		w0 := buildC13(p) // the same world without mutations
		hk, hc := w0.key.Encode(), w0.offer.Encode(w0.key.Kind)
		_, _ = call(func() error { return validator.ValidateContent(hk, hc) })
		c.Class("history:prelude")
	}
	if p.FailFirst {
		fo.failNext = true
		ferr, _ := call(func() error {
			return validator.ValidateContent(append([]byte{}, keyBytes...), append([]byte{}, content...))
		})
		if ferr != nil {
			c.Class("history:failed-lookup-first")
		}
		fo.failNext = false
	}
	if p.Prelude && p.FailFirst && len(p.Muts) > 0 {
		c.NT("history:prelude+failed-lookup-then-judged")
	}
	verr, pan := call(func() error {
		return validator.ValidateContent(append([]byte{}, keyBytes...), append([]byte{}, content...))
	})
	if pan != "" {
		return fmt.Errorf("StateValidator.ValidateContent panicked (%s); reference: %v", pan, refErr)
	}

	ms := &validationStore{}
	storage := state.NewStateStorage(ms, nil)
	cid := sha256.Sum256(keyBytes)
	perr, ppan := call(func() error { return storage.Put(append([]byte{}, keyBytes...), cid[:], append([]byte{}, content...)) })
	if ppan != "" {
		return fmt.Errorf("state Storage.Put panicked (%s); validator said %v", ppan, verr)
	}

	honest := len(p.Muts) == 0 && !w.crafted && p.Source != 2
	kindName := [...]string{"account-node", "storage-node", "bytecode"}[p.Kind]
	accepted := verr == nil
	if w.key.Kind == vm.StateBytecode {
		accepted = verr == nil && perr == nil // the code hash of the code itself is checked by Put (validateContents: validate, then Put)
		if verr == nil && perr != nil {
			c.Class("bytecode:validator-ok-put-rejects")
		}
	}
	// classes
	if honest {
		c.Class("honest:" + kindName) // non-trivial only with an extension node, a leaf target or an inline child in the proof (marked below)
		if refErr != nil {
			return fmt.Errorf("harness bug: honest offer rejected by the reference: %v", refErr)
		}
		if !accepted {
			err := verr
			if err == nil {
				err = perr
			}
			if strings.Contains(err.Error(), "empty key") {
				// account leaf directly below a depth-63 branch: TraverseTrieNode refuses a leaf whose
				// remaining key is empty. Completeness gap outside this (soundness) property.
				c.Class("honest-rejected:empty-leaf-key")
			} else {
				stats.For("C13").Unhealthy(fmt.Sprintf("honest %s offer rejected: %v", kindName, err))
			}
		}
	} else if refErr != nil {
		// rejected by shape alone (no node at all) is only counted; everything else reaches a hash-link comparison
		shapeOnly := false
		for _, m := range p.Muts {
			if m.Kind == "empty" || m.Kind == "acct-empty" {
				shapeOnly = true
			}
		}
		if shapeOnly {
			c.Class("ref-rejects:" + kindName)
		} else {
			c.NT("ref-rejects:" + kindName)
		}
	} else {
		c.NT("mutated-but-valid:" + kindName)
	}
	if w.crafted {
		c.Class([]string{"", "crafted:leaf-value-as-link", "crafted:malformed-committed-node"}[p.Craft])
	}
	if w.key.Kind != vm.StateBytecode {
		for _, n := range w.offer.Proof {
			if it, _, err := vm.RLPSplit(n); err == nil && it.IsList {
				if items, err := vm.RLPListItems(it.Payload); err == nil && len(items) == 2 {
					if _, leaf, err := vm.HexPrefixDecode(items[0].Payload); err == nil {
						if leaf {
							c.Class("proof-has-leaf")
						} else {
							c.NT("proof-has-extension")
						}
					}
				} else if err == nil && len(items) == 17 {
					for _, ch := range items[:16] {
						if ch.IsList {
							c.NT("proof-has-inline-child")
						}
					}
					if len(items[16].Payload) > 0 {
						c.Class("proof-has-branch-value")
					}
				}
			}
		}
		if honest && len(w.offer.Proof) > 0 {
			if _, err := leafValueOf(w.offer.Proof[len(w.offer.Proof)-1]); err == nil {
				c.NT("target-is-leaf")
			}
			if len(w.offer.Proof) == 1 {
				c.Class("target-is-root")
			}
		}
	}

	// soundness
	if accepted && refErr != nil {
		return fmt.Errorf("%s offer accepted although the reference walker rejects it: %v (validator err=%v, put err=%v, proof %d nodes, path %d nibbles)",
			kindName, refErr, verr, perr, len(w.offer.Proof), len(w.key.Path))
	}
	// what is stored
	if perr == nil {
		if len(ms.puts) != 1 {
			return fmt.Errorf("Put returned nil but wrote %d entries", len(ms.puts))
		}
		got := ms.puts[0]
		if !bytes.Equal(got[1], cid[:]) {
			return fmt.Errorf("stored under id %x, want the content id %x", got[1], cid)
		}
		// storage's own re-check (holds for every Put, validated or not): the stored payload hashes to the key's hash
		if len(got[2]) < 4 || !bytes.Equal(got[2][:4], []byte{4, 0, 0, 0}) {
			return fmt.Errorf("stored value is not Container(ByteList): %x", clip(got[2]))
		}
		if k2 == nil || vm.Keccak(got[2][4:]) != k2.Hash {
			return fmt.Errorf("stored payload does not hash to the key's node/code hash")
		}
		if accepted {
			if want := vm.StateRetrievalValue(store); !bytes.Equal(got[2], want) {
				return fmt.Errorf("stored value differs from the final node / the code: %d bytes stored, %d expected", len(got[2]), len(want))
			}
			c.Class("stored-checked")
		} else {
			c.Class("put-direct-ok")
		}
	} else {
		if len(ms.puts) != 0 {
			return fmt.Errorf("Put failed (%v) but wrote %d entries", perr, len(ms.puts))
		}
		if verr == nil && w.key.Kind != vm.StateBytecode {
			return fmt.Errorf("validated trie node was refused by Storage.Put: %v", perr)
		}
	}
	return nil
}

func clip(b []byte) []byte {
	if len(b) > 64 {
		return b[:64]
	}
	return b
}

func TestC13_StateProofs(t *testing.T) { pbt.Run(t, "C13", "state", genC13, runC13) }
