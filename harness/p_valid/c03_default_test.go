package p_valid

// C03, production wiring: validators built the way the node builds them (embedded mainnet accumulators,
// summaries from the oracle), possibly several of them in one process, judged on genuine mainnet proofs
// whose slot is moved by whole multiples of the accumulator size, by whole periods and by single slots.
// The verdict must be the reference's verdict against the embedded accumulators for every instance.

import (
	"encoding/binary"
	"fmt"
	"testing"

	"github.com/protolambda/zrnt/eth2/beacon/capella"
	"github.com/zen-eth/shisui/validation"
	"pgregory.net/rapid"
	vm "verifharness/model/vmodel"
	"verifharness/pbt"
	"verifharness/stats"
)

type c03Default struct {
	NValidators int   // how many validators were constructed in the process before (and including) the judged one
	Vec         int   // which genuine header-with-proof vector
	Periods     int64 // slot += Periods * 8192
	AccLens     int64 // slot += AccLens * 8192 * (length of the historical-roots accumulator)
	Slots       int64 // slot += Slots
	ViaHistory  bool  // construct through history.NewHistoryValidator-style constructor (with oracle) or with a summaries list
}

func genC03Default(t *rapid.T) c03Default {
	return c03Default{NValidators: rapid.IntRange(1, 4).Draw(t, "nvalidators"), Vec: rapid.IntRange(0, 40).Draw(t, "vec"),
		Periods: int64(rapid.SampledFrom([]int{0, 0, 1, -1, 2, 757, 758, 759}).Draw(t, "periods")),
		AccLens: int64(rapid.SampledFrom([]int{0, 0, 1, 2, 3, -1}).Draw(t, "acclens")),
		Slots:   int64(rapid.SampledFrom([]int{0, 0, 1, -1, 8191}).Draw(t, "slots")), ViaHistory: rapid.Bool().Draw(t, "via")}
}

func runC03Default(p c03Default, c *stats.Case) error {
	g, err := loadGenuine()
	if err != nil {
		stats.For("C03").Unhealthy("genuine vectors: " + err.Error())
		return nil
	}
	if len(g.withProof) == 0 || p.NValidators < 1 || p.NValidators > 8 {
		stats.For("C03").Unhealthy("no genuine header proof vector")
		return nil
	}
	b := g.blocks[g.withProof[p.Vec%len(g.withProof)]]
	_, proof, err := vm.SplitHeaderWithProof(b.HeaderContent)
	if err != nil {
		return fmt.Errorf("harness: %v", err)
	}
	number := b.Header.Number.Uint64()
	era := vm.EraOf(number)
	proof = append([]byte{}, proof...)
	moved := p.Periods != 0 || p.AccLens != 0 || p.Slots != 0
	if era != vm.EraPreMerge && len(proof) >= 8 {
		slot := binary.LittleEndian.Uint64(proof[len(proof)-8:])
		nroots := int64(len(g.acc.HistoricalRoots))
		slot = uint64(int64(slot) + p.Periods*8192 + p.AccLens*8192*nroots + p.Slots)
		binary.LittleEndian.PutUint64(proof[len(proof)-8:], slot)
	} else {
		moved = false
	}
	want, why := vm.HeaderProofVerdict(g.acc, number, b.Hash, proof)
	pool := newPoolOracle()
	pool.summaries = func(uint64) (capella.HistoricalSummaries, error) {
		return capella.HistoricalSummaries(append([]capella.HistoricalSummary{}, g.summaries...)), nil
	}
	var v validation.HeaderValidator
	for i := 0; i < p.NValidators; i++ {
		if p.ViaHistory {
			v = validation.NewHeaderValidatorWithOracle(pool)
		} else {
			v = validation.NewHeaderValidatorWithHistorySummaries(append([]capella.HistoricalSummary{}, g.summaries...))
		}
	}
	verr, pan := call(func() error { return v.ValidateHeaderAndProof(b.Header, proof) })
	if pan != "" {
		return fmt.Errorf("default validator #%d panicked on %s (slot moved by %d periods, %d accumulator lengths, %d slots): %s", p.NValidators, b.Name, p.Periods, p.AccLens, p.Slots, pan)
	}
	c.Class("default:" + era.String())
	if p.NValidators > 1 {
		c.Class("default:later-instance")
	}
	if !moved {
		if !want {
			return fmt.Errorf("harness bug: genuine proof of %s rejected by the reference (%s)", b.Name, why)
		}
		if verr != nil {
			stats.For("C03").Unhealthy(fmt.Sprintf("default validator #%d rejects the genuine proof of %s: %v", p.NValidators, b.Name, verr))
		}
		c.NT("default:honest:" + era.String())
		return nil
	}
	c.NT("default:slot-moved:" + why)
	if (verr == nil) != want {
		return fmt.Errorf("default validator (instance #%d of this process, %s) on %s with the slot moved by %d periods + %d accumulator lengths + %d slots: accepted=%v, the reference against the embedded accumulators says %v (%s)",
			p.NValidators, map[bool]string{true: "with oracle", false: "with summaries"}[p.ViaHistory], b.Name, p.Periods, p.AccLens, p.Slots, verr == nil, want, why)
	}
	return nil
}

func TestC03_DefaultValidators(t *testing.T) {
	pbt.Run(t, "C03", "default", genC03Default, runC03Default)
}
