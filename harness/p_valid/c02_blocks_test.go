package p_valid

// Block material for C02: the repository's genuine mainnet vectors and
// synthetic blocks whose header is derived from a generated body, so that the
// true roots are known by construction.

import (
	"encoding/binary"
	"fmt"
	"math/big"
	"sync"

	gcommon "github.com/ethereum/go-ethereum/common"
	"github.com/ethereum/go-ethereum/core/types"
	"github.com/ethereum/go-ethereum/rlp"
	"github.com/holiman/uint256"
	"github.com/protolambda/zrnt/eth2/beacon/capella"
	"github.com/protolambda/zrnt/eth2/beacon/common"
	vm "verifharness/model/vmodel"
)

type histBlock struct {
	Name          string
	Header        *types.Header
	HeaderRaw     []byte
	Hash          vm.H32
	HeaderContent []byte // BlockHeaderWithProof content value
	ProofValid    bool   // the reference verifies HeaderContent's proof against the mainnet accumulators
	Body          []byte
	Receipts      []byte
	HasBody       bool
	HasReceipts   bool
}

func (b *histBlock) hashKey(sel byte) []byte { return append([]byte{sel}, b.Hash[:]...) }

func (b *histBlock) numberKey() []byte {
	return binary.LittleEndian.AppendUint64([]byte{3}, b.Header.Number.Uint64())
}

type genuinePool struct {
	blocks    []*histBlock
	acc       *vm.Accumulators
	summaries []capella.HistoricalSummary
	withProof []int // indices of blocks whose header proof is valid
	withBody  []int
}

var (
	gpOnce sync.Once
	gp     *genuinePool
	gpErr  error
)

func loadGenuine() (*genuinePool, error) {
	gpOnce.Do(func() {
		p := &genuinePool{}
		p.acc, gpErr = vm.LoadMainnetAccumulators()
		if gpErr != nil {
			return
		}
		raw, err := vm.RawSummaries()
		if err != nil {
			gpErr = err
			return
		}
		for _, r := range raw {
			p.summaries = append(p.summaries, capella.HistoricalSummary{BlockSummaryRoot: common.Root(r[0]), StateSummaryRoot: common.Root(r[1])})
		}
		vs, err := vm.LoadHistoryVectors()
		if err != nil {
			gpErr = err
			return
		}
		byHash := map[vm.H32]*histBlock{}
		for _, v := range vs {
			if v.Key[0] != 0 {
				continue
			}
			hraw, proof, err := vm.SplitHeaderWithProof(v.Value)
			if err != nil {
				gpErr = fmt.Errorf("%s: %v", v.Source, err)
				return
			}
			h, bound := vm.HeaderKeyBinding(v.Key, hraw)
			if h == nil || !bound {
				gpErr = fmt.Errorf("%s: header vector not bound to its key", v.Source)
				return
			}
			b := &histBlock{Name: fmt.Sprintf("%s#%d", v.Source, h.Number), Header: h, HeaderRaw: hraw, Hash: vm.Keccak(hraw), HeaderContent: v.Value}
			b.ProofValid, _ = vm.HeaderProofVerdict(p.acc, h.Number.Uint64(), b.Hash, proof)
			byHash[b.Hash] = b
			p.blocks = append(p.blocks, b)
		}
		for _, v := range vs {
			if len(v.Key) != 33 {
				continue
			}
			b := byHash[vm.H32(v.Key[1:])]
			if b == nil {
				continue
			}
			switch v.Key[0] {
			case 1:
				b.Body, b.HasBody = v.Value, true
			case 2:
				b.Receipts, b.HasReceipts = v.Value, true
			}
		}
		for i, b := range p.blocks {
			if b.ProofValid {
				p.withProof = append(p.withProof, i)
			}
			if b.HasBody && b.HasReceipts {
				p.withBody = append(p.withBody, i)
			}
		}
		if len(p.withProof) < 12 || len(p.withBody) < 6 {
			gpErr = fmt.Errorf("genuine pool too small: %d headers with valid proof, %d with body+receipts", len(p.withProof), len(p.withBody))
			return
		}
		gp = p
	})
	return gp, gpErr
}

// ---------------------------------------------------------------------------
// synthetic blocks

type synthSpec struct {
	Seed    uint64
	Era     int // 0 pre-merge, 1 merge..shanghai, 2 shanghai..cancun, 3 cancun.. ; a withdrawals root exists from era 2 on
	NTx     int
	NUncles int
	NWd     int // withdrawals (era >= 2)
	NRc     int
}

func u256(seed uint64, label string, i uint64) *uint256.Int {
	return uint256.NewInt(prfU64(seed, label, i) >> (prfU64(seed, label+"sh", i) % 40))
}

func synthTx(seed uint64, i uint64, era int) *types.Transaction {
	var to *gcommon.Address
	if prfU64(seed, "to?", i)%5 != 0 {
		a := gcommon.Address(prfBytes(seed+i, "to", 20))
		to = &a
	}
	data := prfBytes(seed+i, "data", int(prfU64(seed, "datalen", i)%120))
	v, r, s := u256(seed, "v", i).ToBig(), new(big.Int).SetBytes(prfBytes(seed+i, "r", 32)), new(big.Int).SetBytes(prfBytes(seed+i, "s", 32))
	al := types.AccessList{}
	for j := uint64(0); j < prfU64(seed, "al", i)%3; j++ {
		t := types.AccessTuple{Address: gcommon.Address(prfBytes(seed+i+j, "ala", 20))}
		for k := uint64(0); k < prfU64(seed, "alk", i+j)%3; k++ {
			t.StorageKeys = append(t.StorageKeys, gcommon.Hash(prf(seed+i, "alkey", j*8+k)))
		}
		al = append(al, t)
	}
	kinds := 1 + era // era 0: legacy + access list; later eras add dynamic-fee and blob transactions
	if kinds < 2 {
		kinds = 2
	}
	if kinds > 4 {
		kinds = 4
	}
	switch prfU64(seed, "txtype", i) % uint64(kinds) {
	case 0:
		return types.NewTx(&types.LegacyTx{Nonce: prfU64(seed, "nonce", i) % 100000, GasPrice: u256(seed, "gp", i).ToBig(), Gas: 21000 + prfU64(seed, "gas", i)%1000000,
			To: to, Value: u256(seed, "val", i).ToBig(), Data: data, V: v, R: r, S: s})
	case 1:
		return types.NewTx(&types.AccessListTx{ChainID: big.NewInt(1), Nonce: prfU64(seed, "nonce", i) % 100000, GasPrice: u256(seed, "gp", i).ToBig(), Gas: 21000 + prfU64(seed, "gas", i)%1000000,
			To: to, Value: u256(seed, "val", i).ToBig(), Data: data, AccessList: al, V: big.NewInt(int64(i % 2)), R: r, S: s})
	case 2:
		return types.NewTx(&types.DynamicFeeTx{ChainID: big.NewInt(1), Nonce: prfU64(seed, "nonce", i) % 100000, GasTipCap: u256(seed, "tip", i).ToBig(), GasFeeCap: u256(seed, "fee", i).ToBig(),
			Gas: 21000 + prfU64(seed, "gas", i)%1000000, To: to, Value: u256(seed, "val", i).ToBig(), Data: data, AccessList: al, V: big.NewInt(int64(i % 2)), R: r, S: s})
	default:
		bt := &types.BlobTx{ChainID: uint256.NewInt(1), Nonce: prfU64(seed, "nonce", i) % 100000, GasTipCap: u256(seed, "tip", i), GasFeeCap: u256(seed, "fee", i),
			Gas: 21000 + prfU64(seed, "gas", i)%1000000, Value: u256(seed, "val", i), Data: data, AccessList: al, BlobFeeCap: u256(seed, "bfc", i),
			V: uint256.NewInt(i % 2), R: uint256.MustFromBig(r), S: uint256.MustFromBig(s)}
		if to != nil {
			bt.To = *to
		}
		for j := uint64(0); j <= prfU64(seed, "nblob", i)%3; j++ {
			h := gcommon.Hash(prf(seed+i, "blob", j))
			h[0] = 1
			bt.BlobHashes = append(bt.BlobHashes, h)
		}
		return types.NewTx(bt)
	}
}

func synthReceipt(seed uint64, i uint64, era int, cum *uint64) *types.Receipt {
	r := &types.Receipt{}
	kinds := 1 + era
	if kinds < 2 {
		kinds = 2
	}
	if kinds > 4 {
		kinds = 4
	}
	r.Type = uint8(prfU64(seed, "txtype", i) % uint64(kinds))
	if era == 0 && prfU64(seed, "poststate", i)%3 == 0 {
		r.PostState = prfBytes(seed+i, "poststate", 32) // pre-Byzantium receipts carry a state root
	} else {
		r.Status = prfU64(seed, "status", i) % 2
	}
	*cum += 21000 + prfU64(seed, "rgas", i)%500000
	r.CumulativeGasUsed = *cum
	for j := uint64(0); j < prfU64(seed, "nlogs", i)%4; j++ {
		l := &types.Log{Address: gcommon.Address(prfBytes(seed+i+j, "laddr", 20)), Data: prfBytes(seed+i+j, "ldata", int(prfU64(seed, "ldl", i+j)%70))}
		for k := uint64(0); k < prfU64(seed, "ntopics", i+j)%5; k++ {
			l.Topics = append(l.Topics, gcommon.Hash(prf(seed+i+j, "topic", k)))
		}
		if l.Topics == nil {
			l.Topics = []gcommon.Hash{}
		}
		r.Logs = append(r.Logs, l)
	}
	if r.Logs == nil {
		r.Logs = []*types.Log{}
	}
	r.Bloom = types.CreateBloom(r)
	return r
}

func encodeSSZList(items [][]byte) []byte {
	var out []byte
	off := 4 * len(items)
	for _, it := range items {
		out = binary.LittleEndian.AppendUint32(out, uint32(off))
		off += len(it)
	}
	for _, it := range items {
		out = append(out, it...)
	}
	return out
}

// encodeBody serialises a body in the legacy (two fields) or Shanghai (three fields) container.
func encodeBody(b *vm.PortalBody) []byte {
	txs := encodeSSZList(b.Txs)
	if !b.HasWithdrawals {
		out := binary.LittleEndian.AppendUint32(nil, 8)
		out = binary.LittleEndian.AppendUint32(out, uint32(8+len(txs)))
		out = append(out, txs...)
		return append(out, b.Uncles...)
	}
	out := binary.LittleEndian.AppendUint32(nil, 12)
	out = binary.LittleEndian.AppendUint32(out, uint32(12+len(txs)))
	out = binary.LittleEndian.AppendUint32(out, uint32(12+len(txs)+len(b.Uncles)))
	out = append(out, txs...)
	out = append(out, b.Uncles...)
	return append(out, encodeSSZList(b.Withdrawals)...)
}

func buildSynth(s synthSpec) *histBlock {
	number := eraNumber(s.Era, 4, prfU64(s.Seed, "number", 0))
	h := mkHeader(s.Seed, number)
	body := &vm.PortalBody{HasWithdrawals: s.Era >= 2}
	for i := 0; i < s.NTx; i++ {
		enc, err := synthTx(s.Seed, uint64(i), s.Era).MarshalBinary()
		if err != nil {
			panic(err)
		}
		body.Txs = append(body.Txs, enc)
	}
	uncles := []*types.Header{}
	for i := 0; i < s.NUncles; i++ {
		uncles = append(uncles, mkHeader(s.Seed+uint64(i)+77, number-1-uint64(i)%6))
	}
	var err error
	if body.Uncles, err = rlp.EncodeToBytes(uncles); err != nil {
		panic(err)
	}
	if body.HasWithdrawals {
		body.Withdrawals = [][]byte{}
		for i := 0; i < s.NWd; i++ {
			w := &types.Withdrawal{Index: prfU64(s.Seed, "wi", uint64(i)), Validator: prfU64(s.Seed, "wv", uint64(i)) % 1000000,
				Address: gcommon.Address(prfBytes(s.Seed+uint64(i), "wa", 20)), Amount: prfU64(s.Seed, "wamt", uint64(i)) >> 20}
			enc, err := rlp.EncodeToBytes(w)
			if err != nil {
				panic(err)
			}
			body.Withdrawals = append(body.Withdrawals, enc)
		}
	}
	var rcs [][]byte
	var cum uint64
	for i := 0; i < s.NRc; i++ {
		enc, err := synthReceipt(s.Seed, uint64(i), s.Era, &cum).MarshalBinary()
		if err != nil {
			panic(err)
		}
		rcs = append(rcs, enc)
	}
	// the header commits to exactly this body and these receipts (roots by the reference calculator)
	h.TxHash = gcommon.Hash(vm.OrderedTrieRoot(body.Txs))
	h.UncleHash = gcommon.Hash(vm.Keccak(body.Uncles))
	h.ReceiptHash = gcommon.Hash(vm.OrderedTrieRoot(rcs))
	if body.HasWithdrawals {
		wr := gcommon.Hash(vm.OrderedTrieRoot(body.Withdrawals))
		h.WithdrawalsHash = &wr
	} else {
		h.WithdrawalsHash = nil
	}
	raw, err := rlp.EncodeToBytes(h)
	if err != nil {
		panic(err)
	}
	b := &histBlock{Name: fmt.Sprintf("synth-%d-era%d", s.Seed, s.Era), Header: h, HeaderRaw: raw, Hash: vm.Keccak(raw), HasBody: true, HasReceipts: true}
	// a proof of the right shape for the era that proves nothing
	psize := 15 * 32
	if s.Era > 0 {
		psize = vm.PostMergeProofSize(vm.Era(s.Era))
	}
	b.HeaderContent = headerContentRaw(raw, prfBytes(s.Seed, "fakeproof", psize))
	b.Body = encodeBody(body)
	b.Receipts = encodeSSZList(rcs)
	return b
}
