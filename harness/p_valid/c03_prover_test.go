package p_valid

// C03, "an honestly generated proof always verifies", with the repository's
// own prover (history/accumulator.go: Accumulator, BuildProof) as the honest
// party: a chain of real headers is
// accumulated, the epoch root goes into the validator's epoch list, and every
// sampled record's proof has to verify — by the code and by the reference.

import (
	"fmt"
	"math/big"
	"testing"

	"github.com/ethereum/go-ethereum/rlp"
	"github.com/holiman/uint256"
	"github.com/zen-eth/shisui/history"
	thistory "github.com/zen-eth/shisui/types/history"
	"github.com/zen-eth/shisui/validation"
	"pgregory.net/rapid"
	vm "verifharness/model/vmodel"
	"verifharness/pbt"
	"verifharness/stats"
)

type c03ProverPlan struct {
	Seed    uint64
	N       int   // headers in the chain (block numbers 0..N-1, epoch 0)
	Samples []int // which records are proven (mod N)
}

func genC03Prover(t *rapid.T) c03ProverPlan {
	p := c03ProverPlan{Seed: rapid.Uint64().Draw(t, "seed")}
	switch rapid.IntRange(0, 4).Draw(t, "nClass") {
	case 0:
		p.N = rapid.SampledFrom([]int{8192, 8192, 1, 8191}).Draw(t, "nB")
	case 1:
		p.N = rapid.IntRange(1, 8192).Draw(t, "nR")
	default:
		p.N = rapid.IntRange(1, 300).Draw(t, "nS")
	}
	p.Samples = append([]int{0, p.N - 1}, rapid.SliceOfN(rapid.IntRange(0, 8191), 1, 4).Draw(t, "samples")...)
	return p
}

func runC03Prover(p c03ProverPlan, c *stats.Case) error {
	if p.N < 1 || p.N > 8192 || len(p.Samples) > 16 {
		return nil
	}
	acc := history.NewAccumulator()
	records := make([][]byte, 0, 8192)
	td := uint256.NewInt(0)
	want := map[int]bool{}
	for _, s := range p.Samples {
		if s >= 0 {
			want[s%p.N] = true
		}
	}
	headers := map[int]*vm.H32{}
	kept := map[int]int{}
	for i := 0; i < p.N; i++ {
		h := mkHeader(p.Seed+uint64(i), uint64(i))
		h.Difficulty = new(big.Int).SetUint64(1 + prfU64(p.Seed, "d", uint64(i))>>20)
		if err := acc.Update(*h); err != nil {
			return fmt.Errorf("Accumulator.Update: %v", err)
		}
		td = new(uint256.Int).Add(td, uint256.MustFromBig(h.Difficulty))
		tdb, _ := td.MarshalSSZ()
		hash := vm.H32(h.Hash())
		records = append(records, append(append([]byte{}, hash[:]...), tdb...))
		if want[i] {
			headers[i] = &hash
			kept[i] = i
		}
	}
	master, err := acc.Finish()
	if err != nil || len(master.HistoricalEpochs) != 1 {
		return fmt.Errorf("Accumulator.Finish: %v (%d epochs)", err, len(master.HistoricalEpochs))
	}
	for len(records) < 8192 {
		records = append(records, make([]byte, 64))
	}
	epochAcc := history.EpochAccumulator{HeaderRecords: records}

	epochs := make([][]byte, vm.PreMergeEpochs)
	ref := &vm.Accumulators{PreMergeEpochs: make([]vm.H32, vm.PreMergeEpochs)}
	for i := range epochs {
		e := prf(p.Seed, "epoch", uint64(i))
		if i == 0 {
			copy(e[:], master.HistoricalEpochs[0])
		}
		epochs[i], ref.PreMergeEpochs[i] = append([]byte{}, e[:]...), e
	}
	v := validation.VerifNewHeaderValidator(epochs, nil, nil, nil)
	if p.N == 8192 {
		c.Class("prover:full-epoch")
	}
	c.NT("prover:honest")
	for i := range kept {
		h := mkHeader(p.Seed+uint64(i), uint64(i))
		h.Difficulty = new(big.Int).SetUint64(1 + prfU64(p.Seed, "d", uint64(i))>>20)
		// (history.BuildHeaderWithProof cannot be used: it passes the header to rlp.EncodeToBytes by value,
		// which fails with "unaddressable value ... EncodeRLP is pointer method" for every input; it has no
		// caller in the repository. BuildProof is the part that matters here.)
		branch, err := history.BuildProof(*h, epochAcc)
		if err != nil {
			return fmt.Errorf("BuildProof(record %d of %d): %v", i, p.N, err)
		}
		var proof []byte
		for _, b := range branch {
			proof = append(proof, b...)
		}
		hraw, err := rlp.EncodeToBytes(h)
		if err != nil {
			return err
		}
		hwp := &thistory.BlockHeaderWithProof{Header: hraw, Proof: proof}
		if ok, why := vm.HeaderProofVerdict(ref, uint64(i), *headers[i], hwp.Proof); !ok {
			return fmt.Errorf("proof built by history.BuildProof for record %d of %d is rejected by the reference: %s", i, p.N, why)
		}
		err, pan := call(func() error {
			return v.ValidateHeaderWithProof(&thistory.BlockHeaderWithProof{Header: hwp.Header, Proof: hwp.Proof})
		})
		if pan != "" || err != nil {
			return fmt.Errorf("honest proof (history.BuildProof, record %d of %d) does not verify: %v %s", i, p.N, err, pan)
		}
		// and it is a proof for this record only
		if i+1 < 8192 {
			bad := mkHeader(p.Seed+uint64(i), uint64(i+1))
			bad.Difficulty = h.Difficulty
			if err, _ := call(func() error { return v.ValidateHeaderAndProof(bad, hwp.Proof) }); err == nil {
				return fmt.Errorf("proof of record %d accepted for a header numbered %d", i, i+1)
			}
		}
	}
	return nil
}

func TestC03_RepoProver(t *testing.T) { pbt.Run(t, "C03", "prover", genC03Prover, runC03Prover) }
