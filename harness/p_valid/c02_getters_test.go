package p_valid

// C02, "accepted - validated, stored or returned by the block getters": the getters of history.Network over a
// running protocol instance. The only peer of the node is a scripted endpoint that answers FINDCONTENT with the
// bytes of the plan (genuine, taken from another block, or mutated). A getter returns a value, and the node keeps
// the bytes, only when the reference calls them bound to the key of the requested block hash; and what was refused
// once is refused again: a second call (a retry, or any later local read) must not serve it either, and a genuine
// answer afterwards must still be accepted.

import (
	"bytes"
	"fmt"
	"net"
	"sync"
	"testing"
	"time"

	"github.com/ethereum/go-ethereum/core/types"
	"github.com/ethereum/go-ethereum/p2p/enode"
	"github.com/protolambda/zrnt/eth2/beacon/capella"
	"github.com/zen-eth/shisui/history"
	"github.com/zen-eth/shisui/portalwire"
	"pgregory.net/rapid"
	vm "verifharness/model/vmodel"
	"verifharness/pbt"
	"verifharness/pp"
	"verifharness/simnet"
	"verifharness/stats"
)

type c02Getter struct {
	Item   c02Plan // key kind 0..2 (by hash), no key mutations
	Second string  // what the peer serves at the second call: "same", "genuine", "nothing"
}

func genC02Getter(t *rapid.T) c02Getter {
	it := genC02(t)
	it.Source, it.Garble = 0, 0
	if it.KeyKind == 3 {
		it.KeyKind = 0
	}
	var muts []c02Mut
	for _, m := range it.Muts {
		if len(m.Kind) < 4 || m.Kind[:4] != "key-" {
			muts = append(muts, m)
		}
	}
	it.Muts = muts
	if rapid.IntRange(0, 3).Draw(t, "plain") == 0 {
		it.Muts, it.Cross = nil, false
		it.ContKind = it.KeyKind
	}
	return c02Getter{Item: it, Second: rapid.SampledFrom([]string{"same", "same", "genuine", "nothing"}).Draw(t, "second")}
}

const getterPort = 41000

func runC02Getter(p c02Getter, c *stats.Case) error {
	it := p.Item
	if it.KeyKind < 0 || it.KeyKind > 2 || it.ContKind < 0 || it.ContKind > 2 {
		return nil
	}
	for _, s := range []synthSpec{it.KeyBlock.Synth, it.Other.Synth} {
		if s.NTx < 0 || s.NTx > 200 || s.NRc < 0 || s.NRc > 200 || s.NWd < 0 || s.NWd > 64 || s.NUncles < 0 || s.NUncles > 8 || s.Era < 0 || s.Era > 3 {
			return nil
		}
	}
	g, err := loadGenuine()
	if err != nil {
		stats.For("C02").Unhealthy("genuine vectors: " + err.Error())
		return nil
	}
	cs, a, b := c02Materialize(it, g, c)
	key := a.hashKey(byte(it.KeyKind))
	cs.key = key
	genuine := [][]byte{a.HeaderContent, a.Body, a.Receipts}[it.KeyKind]
	const inlineMax = 1100
	if len(cs.content) > inlineMax || (p.Second == "genuine" && len(genuine) > inlineMax) {
		c.Class("getter:skipped-content-larger-than-one-packet")
		return nil
	}
	known := map[vm.H32]*types.Header{a.Hash: a.Header, b.Hash: b.Header}
	for _, gb := range g.blocks {
		known[gb.Hash] = gb.Header
	}
	pool := newPoolOracle()
	for _, h := range known {
		pool.add(h)
	}
	pool.summaries = func(uint64) (capella.HistoricalSummaries, error) {
		return capella.HistoricalSummaries(append([]capella.HistoricalSummary{}, g.summaries...)), nil
	}
	trueHeader := func(hash []byte) *types.Header {
		if len(hash) != 32 {
			return nil
		}
		return known[vm.H32(hash)]
	}
	bound, reason := c02Reference(key, cs.content, trueHeader, g.acc)
	genuineBound, _ := c02Reference(key, genuine, trueHeader, g.acc)

	hub := simnet.NewHub()
	st := &recStore{db: map[string][]byte{}}
	l, err := pp.NewLive(hub, pp.LiveOpts{KeyIdx: 21, Port: getterPort, Versions: []byte{0, 1}, Storage: st, Proto: portalwire.History, UtpFast: true, RespTimeout: 2 * time.Second})
	if err != nil {
		return fmt.Errorf("harness: %v", err)
	}
	defer l.Stop()
	s, err := pp.NewScripted(hub, 22, net.IP{127, 0, 0, 1}, getterPort+1, []byte{0, 1}, 300*time.Millisecond)
	if err != nil {
		return fmt.Errorf("harness: %v", err)
	}
	defer s.Stop()
	release := make(chan struct{})
	defer close(release)
	var mu sync.Mutex
	serve := cs.content
	serveNothing := false
	served := 0
	s.Handle(portalwire.History, func(id enode.ID, addr *net.UDPAddr, msg []byte) []byte {
		if len(msg) == 0 {
			return nil
		}
		switch msg[0] {
		case portalwire.PING:
			<-release // a liveness check of the table stays unanswered for the rest of the case (a refusal would evict the peer)
			return nil
		case portalwire.FINDCONTENT:
			mu.Lock()
			defer mu.Unlock()
			if serveNothing {
				enrs, _ := (&portalwire.Enrs{}).MarshalSSZ()
				return append([]byte{portalwire.CONTENT, portalwire.ContentEnrsSelector}, enrs...)
			}
			served++
			body, _ := (&portalwire.Content{Content: serve}).MarshalSSZ()
			return append([]byte{portalwire.CONTENT, portalwire.ContentRawSelector}, body...)
		}
		return nil
	})
	l.P.VerifTable().VerifAddFoundNode(s.Node(), true)
	network := history.NewHistoryNetwork(l.P, history.NewHistoryValidator(pool))
	contentID := l.P.ToContentId(key)
	get := func() (bool, error) {
		switch it.KeyKind {
		case 0:
			_, err := network.GetBlockHeader(a.Hash[:])
			return err == nil, err
		case 1:
			_, err := network.GetBlockBody(a.Hash[:])
			return err == nil, err
		default:
			_, err := network.GetReceipts(a.Hash[:])
			return err == nil, err
		}
	}
	kind := [...]string{"header", "body", "receipts"}[it.KeyKind]
	judge := func(call int, servedBytes []byte, want bool, why string) error {
		ok, gerr := get()
		mu.Lock()
		n := served
		mu.Unlock()
		if n == 0 && call == 1 {
			stats.For("C02").Count("inconclusive:getter-peer-was-not-asked", 1)
			return errSkipCase
		}
		if ok && !want {
			return fmt.Errorf("call %d: the %s getter returned a value for block %s although the bytes it has for that key are not bound to it: %s (%d bytes served by the peer)", call, kind, a.Name, why, len(servedBytes))
		}
		stored, serr := st.Get(key, contentID)
		if serr == nil && !want && servedBytes != nil && bytes.Equal(stored, servedBytes) {
			return fmt.Errorf("call %d: the %s getter refused the peer's answer (%v) but the node now holds those %d bytes under the key of block %s: %s", call, kind, gerr, len(stored), a.Name, why)
		}
		if ok {
			c.NT("getter:" + kind + ":returned")
		} else {
			c.NT("getter:" + kind + ":refused")
		}
		return nil
	}
	if err := judge(1, cs.content, bound, reason); err != nil {
		if err == errSkipCase {
			return nil
		}
		return err
	}
	// second call
	mu.Lock()
	switch p.Second {
	case "genuine":
		serve = genuine
	case "nothing":
		serveNothing = true
	}
	second := serve
	mu.Unlock()
	want2, why2 := bound, reason
	if !bound && p.Second == "genuine" {
		want2, why2 = genuineBound, "genuine"
	}
	if !bound && p.Second == "nothing" {
		want2 = false
	}
	if bound {
		want2 = true // held locally since the first call
	}
	ok2, gerr2 := get()
	if ok2 && !want2 {
		return fmt.Errorf("second call (%s): the %s getter returned a value for block %s although nothing bound to the key was ever served: first answer refused (%s), second answer: %s", p.Second, kind, a.Name, reason, why2)
	}
	if stored, serr := st.Get(key, contentID); serr == nil {
		if ok, _ := c02Reference(key, stored, trueHeader, g.acc); !ok {
			return fmt.Errorf("after two calls the node holds %d bytes under the %s key of block %s that are not bound to it (%s)", len(stored), kind, a.Name, reason)
		}
	}
	if !bound && p.Second == "genuine" && genuineBound && !ok2 {
		// what was refused must not stand in the way of the genuine item (tolerated only as a time-out)
		if gerr2 != nil && pp.IsTimeout(gerr2) {
			stats.For("C02").Count("inconclusive:getter-timeout", 1)
			return nil
		}
		return fmt.Errorf("second call: a refused answer came first, then the peer served the genuine %s of block %s, and the getter still fails: %v", kind, a.Name, gerr2)
	}
	_ = second
	if !bound {
		c.NT("getter:refused-then-" + p.Second)
	}
	return nil
}

var errSkipCase = fmt.Errorf("skip")

func TestC02_Getters(t *testing.T) { pbt.Run(t, "C02", "getters", genC02Getter, runC02Getter) }
