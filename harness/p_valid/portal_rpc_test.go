package p_valid

// A scripted "portal" JSON-RPC namespace, served in process. The real
// validation.ValidationOracle is pointed at it through rpc.DialInProc — the
// production wiring, with the network replaced by a script that can answer
// honestly, with another header, or with undecodable content.

import (
	"bytes"
	"encoding/binary"
	"errors"
	"sync"

	"github.com/ethereum/go-ethereum/common/hexutil"
	"github.com/ethereum/go-ethereum/core/types"
	"github.com/ethereum/go-ethereum/rlp"
	"github.com/ethereum/go-ethereum/rpc"
	"github.com/protolambda/zrnt/eth2/beacon/capella"
	"github.com/protolambda/zrnt/eth2/beacon/common"
	"github.com/protolambda/zrnt/eth2/configs"
	"github.com/protolambda/ztyp/codec"
	"github.com/zen-eth/shisui/portalwire"
	"github.com/zen-eth/shisui/types/beacon"
	vm "verifharness/model/vmodel"
)

type portalAPI struct {
	mu        sync.Mutex
	headers   map[vm.H32][]byte // block hash -> BlockHeaderWithProof content
	lieWith   []byte            // when set: every header request is answered with this content
	garble    string            // "", "hex", "ssz", "rlp", "error", "empty"
	summaries []capella.HistoricalSummary
	calls     int
}

func headerContent(h *types.Header, proof []byte) []byte {
	raw, err := rlp.EncodeToBytes(h)
	if err != nil {
		panic(err)
	}
	return headerContentRaw(raw, proof)
}

func headerContentRaw(raw, proof []byte) []byte {
	out := binary.LittleEndian.AppendUint32(nil, 8)
	out = binary.LittleEndian.AppendUint32(out, uint32(8+len(raw)))
	out = append(out, raw...)
	return append(out, proof...)
}

// HistoryGetContent is portal_historyGetContent.
func (a *portalAPI) HistoryGetContent(keyHex string) (*portalwire.ContentInfo, error) {
	a.mu.Lock()
	defer a.mu.Unlock()
	a.calls++
	key, err := hexutil.Decode(keyHex)
	if err != nil {
		return nil, err
	}
	switch a.garble {
	case "error":
		return nil, errors.New("content not found")
	case "hex":
		return &portalwire.ContentInfo{Content: "0xzz"}, nil
	case "empty":
		return &portalwire.ContentInfo{Content: "0x"}, nil
	case "ssz":
		return &portalwire.ContentInfo{Content: "0x0900000005000000aabbcc"}, nil
	case "rlp":
		return &portalwire.ContentInfo{Content: hexutil.Encode(headerContentRaw([]byte{0xf9, 0x02, 0x11, 0x01, 0x02}, nil))}, nil
	}
	if a.lieWith != nil {
		return &portalwire.ContentInfo{Content: hexutil.Encode(a.lieWith)}, nil
	}
	if len(key) == 33 && key[0] == 0 {
		if c, ok := a.headers[vm.H32(key[1:])]; ok {
			return &portalwire.ContentInfo{Content: hexutil.Encode(c)}, nil
		}
	}
	return nil, errors.New("content not found")
}

// BeaconGetContent is portal_beaconGetContent (only historical summaries are scripted).
func (a *portalAPI) BeaconGetContent(keyHex string) (*portalwire.ContentInfo, error) {
	a.mu.Lock()
	defer a.mu.Unlock()
	if a.summaries == nil {
		return nil, errors.New("content not found")
	}
	v := beacon.ForkedHistoricalSummariesWithProof{
		HistoricalSummariesWithProof: beacon.HistoricalSummariesWithProof{
			EPOCH:               common.Epoch(300000),
			HistoricalSummaries: capella.HistoricalSummaries(a.summaries),
		},
	}
	var buf bytes.Buffer
	if err := v.Serialize(configs.Mainnet, codec.NewEncodingWriter(&buf)); err != nil {
		return nil, err
	}
	return &portalwire.ContentInfo{Content: hexutil.Encode(buf.Bytes())}, nil
}

// BeaconFinalizedStateRoot is portal_beaconFinalizedStateRoot.
func (a *portalAPI) BeaconFinalizedStateRoot() (string, error) {
	return "", errors.New("content not found")
}

type scriptedPortal struct {
	*portalAPI
	srv *rpc.Server
	cl  *rpc.Client
}

func newScriptedPortal() *scriptedPortal {
	api := &portalAPI{headers: map[vm.H32][]byte{}}
	srv := rpc.NewServer()
	if err := srv.RegisterName("portal", api); err != nil {
		panic(err)
	}
	return &scriptedPortal{portalAPI: api, srv: srv, cl: rpc.DialInProc(srv)}
}

func (s *scriptedPortal) client() *rpc.Client { return s.cl }

func (s *scriptedPortal) close() {
	s.cl.Close()
	s.srv.Stop()
}

func (s *scriptedPortal) addHeader(h *types.Header) {
	s.headers[vm.H32(h.Hash())] = headerContent(h, nil)
}

func (s *scriptedPortal) addHeaderContent(hash vm.H32, content []byte) {
	s.headers[hash] = content
}
