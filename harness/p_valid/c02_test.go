package p_valid

// C02 — history content is accepted only when bound to its key and the trusted
// roots. Soundness ("accepted => bound") is judged by the reference in
// vmodel (own SSZ readers, own ordered-trie root calculator, own Merkle
// verifier over the accumulator assets); completeness on genuine vectors is a
// generator-health condition.

import (
	"encoding/binary"
	"fmt"
	"math/big"
	"os"
	"strings"
	"testing"

	"github.com/ethereum/go-ethereum/core/types"
	"github.com/ethereum/go-ethereum/rlp"
	"github.com/protolambda/zrnt/eth2/beacon/capella"
	"github.com/protolambda/zrnt/eth2/beacon/common"
	"github.com/zen-eth/shisui/history"
	"github.com/zen-eth/shisui/validation"
	"pgregory.net/rapid"
	vm "verifharness/model/vmodel"
	"verifharness/pbt"
	"verifharness/stats"
)

type blockRef struct {
	Genuine bool
	Idx     int // genuine: index into the pool (mod size)
	Synth   synthSpec
}

type c02Mut struct {
	Kind string
	A    int
	B    int
	V    uint64
}

type c02Plan struct {
	KeyKind  int      // content-key selector the key is built with: 0 header by hash, 1 body, 2 receipts, 3 header by number
	ContKind int      // what is supplied as content: 0 header-with-proof, 1 body, 2 receipts
	KeyBlock blockRef // the block the key names
	Other    blockRef // a second block (cross-pairings, lying sources, spliced parts)
	Cross    bool     // content is taken from Other instead of KeyBlock
	Source   int      // 0 honest oracle, 1 lying oracle, 2 real ValidationOracle + honest RPC, 3 + lying RPC, 4 + undecodable RPC, 5 + RPC serving forged historical summaries
	Garble   int      // source 4: which kind of undecodable answer
	Muts     []c02Mut
	// history on the same (long-lived) validator before the judged call:
	Prelude   bool // first validate the unmutated content of the block the content was taken from, under its own key
	FailFirst bool // then validate the judged item once while the header lookup fails
}

var c02BodyMuts = []string{"tx-drop", "tx-dup", "tx-swap", "tx-byte", "tx-other", "uncles-drop", "uncles-add", "uncles-byte", "uncles-other",
	"wd-drop", "wd-dup", "wd-byte", "wd-strip", "wd-strip", "wd-add-empty", "wd-add-empty", "wd-other", "wd-empty-list"}
var c02RcMuts = []string{"rc-drop", "rc-dup", "rc-swap", "rc-byte", "rc-empty", "rc-other-one"}
var c02HdrMuts = []string{"hdr-field", "hdr-proof-byte", "hdr-proof-other", "hdr-header-other", "hdr-number", "hdr-gap"}
var c02ByteMuts = []string{"bit", "bit", "trunc", "extend", "offset", "extend-zeros"}
var c02KeyMuts = []string{"key-selector", "key-byte", "key-trunc", "key-extend", "key-number", "key-insert", "key-cut-front"}

func genBlockRef(t *rapid.T, label string) blockRef {
	if rapid.IntRange(0, 9).Draw(t, label+"genuine") < 5 {
		return blockRef{Genuine: true, Idx: rapid.IntRange(0, 63).Draw(t, label+"idx")}
	}
	s := synthSpec{
		Seed:    rapid.Uint64().Draw(t, label+"seed"),
		Era:     rapid.IntRange(0, 3).Draw(t, label+"era"),
		NUncles: rapid.SampledFrom([]int{0, 0, 0, 1, 2}).Draw(t, label+"uncles"),
	}
	switch rapid.IntRange(0, 5).Draw(t, label+"txClass") {
	case 0:
		s.NTx = 0
	case 1:
		s.NTx = rapid.IntRange(17, 40).Draw(t, label+"ntxBig")
	default:
		s.NTx = rapid.IntRange(1, 16).Draw(t, label+"ntx")
	}
	s.NRc = s.NTx
	if rapid.IntRange(0, 7).Draw(t, label+"rcDiff") == 0 {
		s.NRc = rapid.IntRange(0, 40).Draw(t, label+"nrc")
	}
	if s.Era >= 2 {
		s.NWd = rapid.SampledFrom([]int{0, 0, 1, 2, 5, 16}).Draw(t, label+"nwd")
	}
	return blockRef{Synth: s}
}

func genC02(t *rapid.T) c02Plan {
	p := c02Plan{
		KeyKind:  rapid.SampledFrom([]int{0, 0, 1, 1, 1, 2, 2, 3}).Draw(t, "keyKind"),
		KeyBlock: genBlockRef(t, "a"),
		Other:    genBlockRef(t, "b"),
	}
	p.ContKind = map[int]int{0: 0, 1: 1, 2: 2, 3: 0}[p.KeyKind]
	if rapid.IntRange(0, 11).Draw(t, "kindCross") == 0 {
		p.ContKind = rapid.IntRange(0, 2).Draw(t, "contKind") // e.g. a body under a receipts key
	}
	p.Cross = rapid.IntRange(0, 5).Draw(t, "cross") == 0
	switch rapid.IntRange(0, 15).Draw(t, "srcClass") {
	case 0, 1:
		p.Source = 1
	case 2, 3, 4:
		p.Source = 2
	case 5, 6:
		p.Source = 3
	case 7:
		p.Source = 4
		p.Garble = rapid.IntRange(0, 4).Draw(t, "garble")
	case 8:
		p.Source = 5
	}
	if p.Source == 3 && rapid.IntRange(0, 3).Draw(t, "lieCross") != 0 {
		p.Cross = true // a lying source is interesting with the content of the block it lies with
	}
	if p.Source == 1 && rapid.IntRange(0, 1).Draw(t, "lieCross1") == 0 {
		p.Cross = true
	}
	if p.Source == 5 {
		p.KeyKind = rapid.SampledFrom([]int{0, 3}).Draw(t, "forgedKey")
		p.ContKind = 0
	}
	nm := 0
	switch rapid.IntRange(0, 9).Draw(t, "nmuts") {
	case 0, 1, 2, 3:
	case 4, 5, 6, 7, 8:
		nm = 1
	default:
		nm = 2
	}
	if p.ContKind == 1 && rapid.IntRange(0, 6).Draw(t, "wdFocus") == 0 {
		// exactly one thing wrong: the withdrawals
		nm = 0
		p.Muts = append(p.Muts, c02Mut{Kind: rapid.SampledFrom([]string{"wd-strip", "wd-strip", "wd-add-empty", "wd-empty-list", "wd-other", "wd-drop"}).Draw(t, "wdk"),
			A: rapid.IntRange(0, 255).Draw(t, "wda"), V: rapid.Uint64().Draw(t, "wdv")})
	}
	for i := 0; i < nm; i++ {
		var pool []string
		switch rapid.IntRange(0, 9).Draw(t, "mutClass") {
		case 0, 1:
			pool = c02ByteMuts
		case 2:
			pool = c02KeyMuts
		default:
			pool = [][]string{c02HdrMuts, c02BodyMuts, c02RcMuts}[p.ContKind]
		}
		p.Muts = append(p.Muts, c02Mut{
			Kind: rapid.SampledFrom(pool).Draw(t, "mk"),
			A:    rapid.IntRange(0, 255).Draw(t, "ma"),
			B:    rapid.IntRange(0, 255).Draw(t, "mb"),
			V:    rapid.Uint64().Draw(t, "mv"),
		})
	}
	p.Prelude = rapid.IntRange(0, 2).Draw(t, "prelude") == 0
	p.FailFirst = rapid.IntRange(0, 2).Draw(t, "failFirst") == 0
	return p
}

func resolveBlock(g *genuinePool, r blockRef, wantContent int) *histBlock {
	if !r.Genuine {
		return buildSynth(r.Synth)
	}
	switch wantContent {
	case 0:
		// mostly headers whose proof is valid, sometimes any genuine header (obsolete proof format)
		if r.Idx%5 == 4 {
			return g.blocks[r.Idx%len(g.blocks)]
		}
		return g.blocks[g.withProof[r.Idx%len(g.withProof)]]
	default:
		return g.blocks[g.withBody[r.Idx%len(g.withBody)]]
	}
}

func flipAt(b []byte, pos int, v uint64) []byte {
	out := append([]byte{}, b...)
	if len(out) > 0 {
		out[pos%len(out)] ^= byte(v) | 1
	}
	return out
}

// regionPos picks a byte position: offsets area, start, middle, end.
func regionPos(n, a, b int) int {
	if n == 0 {
		return 0
	}
	switch a % 4 {
	case 0:
		return b % min(n, 16)
	case 1:
		return n - 1 - b%min(n, 16)
	case 2:
		return n/2 + b%min(n-n/2, 64)
	}
	return (a*256 + b) % n
}

type c02Case struct {
	key     []byte
	content []byte
}

func mutateBody(content []byte, m c02Mut, other *histBlock) []byte {
	pb, err := vm.SplitPortalBody(content)
	if err != nil {
		return flipAt(content, m.A*256+m.B, m.V)
	}
	ob, _ := vm.SplitPortalBody(other.Body)
	b := &vm.PortalBody{Txs: append([][]byte{}, pb.Txs...), Uncles: pb.Uncles, Withdrawals: append([][]byte{}, pb.Withdrawals...), HasWithdrawals: pb.HasWithdrawals}
	listMut := func(l [][]byte, what string) [][]byte {
		if len(l) == 0 {
			if what == "dup" {
				return [][]byte{{0xc0}}
			}
			return l
		}
		i := m.A % len(l)
		switch what {
		case "drop":
			return append(append([][]byte{}, l[:i]...), l[i+1:]...)
		case "dup":
			out := append([][]byte{}, l[:i+1]...)
			return append(append(out, l[i]), l[i+1:]...)
		case "swap":
			out := append([][]byte{}, l...)
			j := (i + 1 + m.B%max(1, len(l)-1)) % len(l)
			out[i], out[j] = out[j], out[i]
			return out
		case "byte":
			out := append([][]byte{}, l...)
			out[i] = flipAt(l[i], regionPos(len(l[i]), m.B, int(m.V>>8)%251), m.V)
			return out
		}
		return l
	}
	switch m.Kind {
	case "tx-drop":
		b.Txs = listMut(b.Txs, "drop")
	case "tx-dup":
		b.Txs = listMut(b.Txs, "dup")
	case "tx-swap":
		b.Txs = listMut(b.Txs, "swap")
	case "tx-byte":
		b.Txs = listMut(b.Txs, "byte")
	case "tx-other":
		if ob != nil {
			b.Txs = ob.Txs
		}
	case "uncles-drop", "uncles-add":
		var us []*types.Header
		if rlp.DecodeBytes(b.Uncles, &us) == nil {
			if m.Kind == "uncles-drop" && len(us) > 0 {
				us = us[1:]
			} else {
				us = append(us, mkHeader(m.V, 1000+m.V%1000))
			}
			if us == nil {
				us = []*types.Header{}
			}
			b.Uncles, _ = rlp.EncodeToBytes(us)
		}
	case "uncles-byte":
		b.Uncles = flipAt(b.Uncles, regionPos(len(b.Uncles), m.A, m.B), m.V)
	case "uncles-other":
		if ob != nil {
			b.Uncles = ob.Uncles
		}
	case "wd-drop":
		b.Withdrawals = listMut(b.Withdrawals, "drop")
	case "wd-dup":
		b.Withdrawals = listMut(b.Withdrawals, "dup")
	case "wd-byte":
		b.Withdrawals = listMut(b.Withdrawals, "byte")
	case "wd-strip":
		// the same transactions and uncles in the legacy container: the withdrawals are simply left out
		b.HasWithdrawals, b.Withdrawals = false, nil
	case "wd-add-empty":
		// the same transactions and uncles in the Shanghai container with an empty withdrawals list
		b.HasWithdrawals, b.Withdrawals = true, [][]byte{}
	case "wd-empty-list":
		if b.HasWithdrawals {
			b.Withdrawals = [][]byte{}
		}
	case "wd-other":
		if ob != nil && ob.HasWithdrawals {
			b.HasWithdrawals, b.Withdrawals = true, ob.Withdrawals
		} else {
			b.HasWithdrawals = true
			w, _ := rlp.EncodeToBytes(&types.Withdrawal{Index: m.V, Validator: 1, Amount: 2})
			b.Withdrawals = [][]byte{w}
		}
	}
	return encodeBody(b)
}

func mutateReceipts(content []byte, m c02Mut, other *histBlock) []byte {
	rs, err := vm.SplitPortalReceipts(content)
	if err != nil {
		return flipAt(content, m.A*256+m.B, m.V)
	}
	rs = append([][]byte{}, rs...)
	switch m.Kind {
	case "rc-empty":
		return nil
	case "rc-other-one":
		if or, err := vm.SplitPortalReceipts(other.Receipts); err == nil && len(or) > 0 {
			if len(rs) == 0 {
				rs = [][]byte{or[0]}
			} else {
				rs[m.A%len(rs)] = or[m.B%len(or)]
			}
		}
		return encodeSSZList(rs)
	}
	if len(rs) == 0 {
		if m.Kind == "rc-dup" {
			return encodeSSZList([][]byte{{0xc0}})
		}
		return content
	}
	i := m.A % len(rs)
	switch m.Kind {
	case "rc-drop":
		rs = append(rs[:i], rs[i+1:]...)
	case "rc-dup":
		rs = append(rs[:i+1], append([][]byte{rs[i]}, rs[i+1:]...)...)
	case "rc-swap":
		j := (i + 1 + m.B%max(1, len(rs)-1)) % len(rs)
		rs[i], rs[j] = rs[j], rs[i]
	case "rc-byte":
		rs[i] = flipAt(rs[i], regionPos(len(rs[i]), m.B, int(m.V>>8)%251), m.V)
	}
	return encodeSSZList(rs)
}

func mutateHeader(content []byte, m c02Mut, other *histBlock) []byte {
	hraw, proof, err := vm.SplitHeaderWithProof(content)
	if err != nil {
		return flipAt(content, m.A*256+m.B, m.V)
	}
	oraw, oproof, _ := vm.SplitHeaderWithProof(other.HeaderContent)
	switch m.Kind {
	case "hdr-field", "hdr-number":
		h := new(types.Header)
		if rlp.DecodeBytes(hraw, h) == nil {
			if m.Kind == "hdr-number" {
				d := []int64{1, -1, 8192, -8192}[m.A%4]
				h.Number = new(big.Int).Add(h.Number, big.NewInt(d))
				if h.Number.Sign() < 0 {
					h.Number = big.NewInt(1)
				}
			} else {
				switch m.A % 5 {
				case 0:
					h.GasUsed++
				case 1:
					h.Extra = append(append([]byte{}, h.Extra...), byte(m.V))
				case 2:
					h.TxHash[m.B%32] ^= byte(m.V) | 1
				case 3:
					h.ReceiptHash[m.B%32] ^= byte(m.V) | 1
				case 4:
					h.Time++
				}
			}
			hraw, _ = rlp.EncodeToBytes(h)
		}
	case "hdr-proof-byte":
		proof = flipAt(proof, regionPos(len(proof), m.A, m.B), m.V)
	case "hdr-proof-other":
		proof = oproof
	case "hdr-header-other":
		if oraw != nil {
			hraw = oraw
		}
	case "hdr-gap":
		// the same header and proof in another byte string: filler bytes behind the offset table (both offsets
		// raised accordingly), or between the header and the proof (second offset raised)
		out := headerContentRaw(hraw, proof)
		if len(out) < 8 {
			return out
		}
		k := 1 + m.A%7
		filler := prfBytes(m.V, "gap", k)
		o0, o1 := binary.LittleEndian.Uint32(out[0:]), binary.LittleEndian.Uint32(out[4:])
		if m.B%2 == 0 {
			res := append([]byte{}, out[:8]...)
			binary.LittleEndian.PutUint32(res[0:], o0+uint32(k))
			binary.LittleEndian.PutUint32(res[4:], o1+uint32(k))
			res = append(res, filler...)
			return append(res, out[8:]...)
		}
		if int(o1) <= len(out) {
			res := append([]byte{}, out[:o1]...)
			binary.LittleEndian.PutUint32(res[4:], o1+uint32(k))
			res = append(res, filler...)
			return append(res, out[o1:]...)
		}
		return out
	}
	return headerContentRaw(hraw, proof)
}

func c02Mutate(cs *c02Case, m c02Mut, contKind int, other *histBlock, c *stats.Case) {
	c.Class("mut:" + m.Kind)
	switch {
	case strings.HasPrefix(m.Kind, "tx-") || strings.HasPrefix(m.Kind, "uncles-") || strings.HasPrefix(m.Kind, "wd-"):
		cs.content = mutateBody(cs.content, m, other)
	case strings.HasPrefix(m.Kind, "rc-"):
		cs.content = mutateReceipts(cs.content, m, other)
	case strings.HasPrefix(m.Kind, "hdr-"):
		cs.content = mutateHeader(cs.content, m, other)
	}
	switch m.Kind {
	case "bit":
		if len(cs.content) > 0 {
			out := append([]byte{}, cs.content...)
			out[regionPos(len(out), m.A, m.B)] ^= 1 << (m.V % 8)
			cs.content = out
		}
	case "trunc":
		n := 1 + m.A%40
		if m.B%4 == 0 {
			n = 1
		}
		if n > len(cs.content) {
			n = len(cs.content)
		}
		cs.content = cs.content[:len(cs.content)-n]
	case "extend":
		cs.content = append(append([]byte{}, cs.content...), prfBytes(m.V, "ext", 1+m.A%40)...)
	case "extend-zeros":
		// zero bytes appended (1..8, mostly exactly one SSZ offset worth of them): what a lenient list decoder reads as "no elements"
		n := 4
		if m.B%3 == 0 {
			n = 1 + m.A%8
		}
		cs.content = append(append([]byte{}, cs.content...), make([]byte, n)...)
	case "offset":
		// one of the leading SSZ offsets +-1/+-4/zero
		if len(cs.content) >= 12 {
			out := append([]byte{}, cs.content...)
			at := 4 * (m.A % 3)
			v := binary.LittleEndian.Uint32(out[at:])
			v += []uint32{1, ^uint32(0), 4, ^uint32(3), -v}[m.B%5]
			binary.LittleEndian.PutUint32(out[at:], v)
			cs.content = out
		}
	case "key-selector":
		if len(cs.key) > 0 {
			k := append([]byte{}, cs.key...)
			k[0] = []byte{0, 1, 2, 3, 4, 5, 6, 0xff}[m.A%8]
			cs.key = k
		}
	case "key-byte":
		if len(cs.key) > 1 {
			cs.key = append(cs.key[:1:1], flipAt(cs.key[1:], m.A, m.V)...)
		}
	case "key-trunc":
		if len(cs.key) > 1 { // empty keys are C01's subject
			n := 1 + m.A%8
			if n >= len(cs.key) {
				n = len(cs.key) - 1
			}
			cs.key = cs.key[:len(cs.key)-n]
		}
	case "key-extend":
		cs.key = append(append([]byte{}, cs.key...), prfBytes(m.V, "kext", 1+m.A%4)...)
	case "key-insert":
		// bytes inserted between the selector and the body: the key still *ends* with the genuine hash / number
		if len(cs.key) > 1 {
			k := append([]byte{cs.key[0]}, prfBytes(m.V, "kins", 1+m.A%4)...)
			if m.B%3 == 0 {
				for i := 1; i < len(k); i++ {
					k[i] = 0
				}
			}
			cs.key = append(k, cs.key[1:]...)
		}
	case "key-cut-front":
		// bytes removed behind the selector (all leading zero bytes of the body, or 1..3 bytes)
		if len(cs.key) > 2 {
			n := 1 + m.A%3
			if m.B%2 == 0 {
				n = 0
				for 1+n < len(cs.key)-1 && cs.key[1+n] == 0 {
					n++
				}
			}
			if n > 0 && 1+n < len(cs.key) {
				cs.key = append([]byte{cs.key[0]}, cs.key[1+n:]...)
			}
		}
	case "key-number":
		if len(cs.key) == 9 && cs.key[0] == 3 {
			n := binary.LittleEndian.Uint64(cs.key[1:])
			n += []uint64{1, ^uint64(0), 8192, 1 << 32}[m.A%4]
			cs.key = binary.LittleEndian.AppendUint64([]byte{3}, n)
		}
	}
}

// c02Reference: is `content` bound to `key`? hdrFor resolves the header the
// body/receipts have to be checked against (nil: there is no such header).
func c02Reference(key, content []byte, hdrFor func(hash []byte) *types.Header, acc *vm.Accumulators) (bool, string) {
	switch key[0] {
	case 0x00, 0x03:
		hraw, proof, err := vm.SplitHeaderWithProof(content)
		if err != nil {
			return false, "ssz"
		}
		h, bound := vm.HeaderKeyBinding(key, hraw)
		if h == nil {
			return false, "header-rlp"
		}
		if !bound {
			return false, "key-mismatch"
		}
		if h.Number == nil || !h.Number.IsUint64() {
			return false, "number-overflow"
		}
		ok, why := vm.HeaderProofVerdict(acc, h.Number.Uint64(), vm.H32(h.Hash()), proof)
		if !ok {
			return false, "proof:" + why
		}
		return true, "ok"
	case 0x01:
		h := hdrFor(key[1:])
		if h == nil {
			return false, "no-header"
		}
		reason := "ssz"
		if pb, err := vm.SplitPortalBody(content); err == nil {
			r := vm.BodyBoundRaw(pb, h)
			if r.Bound {
				return true, "ok"
			}
			reason = r.Reason
			if cb, err := vm.CanonicalBody(pb); err == nil && vm.BodyBoundRaw(cb, h).Bound {
				return true, "ok-noncanonical"
			}
		}
		return false, reason
	case 0x02:
		h := hdrFor(key[1:])
		if h == nil {
			return false, "no-header"
		}
		reason := "ssz"
		if rs, err := vm.SplitPortalReceipts(content); err == nil {
			if vm.ReceiptsBoundRaw(rs, h) {
				return true, "ok"
			}
			reason = "receipts-root"
			if cr, err := vm.CanonicalReceipts(rs); err == nil && vm.ReceiptsBoundRaw(cr, h) {
				return true, "ok-noncanonical"
			}
		}
		return false, reason
	}
	return false, "unknown-selector"
}

const findingSummaries = "C02-oracle-summaries-unverified"

func runC02(p c02Plan, c *stats.Case) error {
	if p.KeyKind < 0 || p.KeyKind > 3 || p.ContKind < 0 || p.ContKind > 2 || p.Source < 0 || p.Source > 5 {
		return nil
	}
	for _, s := range []synthSpec{p.KeyBlock.Synth, p.Other.Synth} {
		if s.NTx < 0 || s.NTx > 200 || s.NRc < 0 || s.NRc > 200 || s.NWd < 0 || s.NWd > 64 || s.NUncles < 0 || s.NUncles > 8 || s.Era < 0 || s.Era > 3 {
			return nil
		}
	}
	g, err := loadGenuine()
	if err != nil {
		stats.For("C02").Unhealthy("genuine vectors: " + err.Error())
		return nil
	}
	a := resolveBlock(g, p.KeyBlock, p.ContKind)
	b := resolveBlock(g, p.Other, p.ContKind)
	src := a
	if p.Cross {
		src = b
	}

	var forged *c03World
	if p.Source == 5 {
		// a Capella/Deneb header that is not on mainnet, with a proof that is perfectly valid against
		// a historical-summaries list made up for it
		era := 2 + int(p.KeyBlock.Synth.Seed%2)
		forged = buildC03(c03Plan{NumEra: era, BuildEra: era, Seed: p.KeyBlock.Synth.Seed, NumSel: 4, NumRand: p.Other.Synth.Seed, ChainLen: 1,
			PosSel: 2, PosRand: p.KeyBlock.Idx, OffSel: 2, OffRand: p.Other.Idx * 100, NAcc: 1 + p.KeyBlock.Idx%50, NCache: 0, NOracle: 0})
		raw, _ := rlp.EncodeToBytes(forged.header)
		a = &histBlock{Name: "forged", Header: forged.header, HeaderRaw: raw, Hash: vm.Keccak(raw), HeaderContent: headerContentRaw(raw, forged.proof)}
		src = a
	}

	cs := &c02Case{}
	if p.KeyKind == 3 {
		cs.key = a.numberKey()
	} else {
		cs.key = a.hashKey(byte(p.KeyKind))
	}
	switch p.ContKind {
	case 0:
		cs.content = src.HeaderContent
	case 1:
		cs.content = src.Body
	default:
		cs.content = src.Receipts
	}
	other := b
	if p.Cross {
		other = a
	}
	for _, m := range p.Muts {
		c02Mutate(cs, m, p.ContKind, other, c)
	}
	if len(cs.key) == 0 {
		return nil
	}

	// every header this world knows, by hash
	known := map[vm.H32]*types.Header{}
	for _, gb := range g.blocks {
		known[gb.Hash] = gb.Header
	}
	known[a.Hash], known[b.Hash] = a.Header, b.Header
	trueHeader := func(hash []byte) *types.Header {
		if len(hash) != 32 {
			return nil
		}
		return known[vm.H32(hash)]
	}

	// header source
	pool := newPoolOracle()
	for _, h := range known {
		pool.add(h)
	}
	pool.summaries = func(uint64) (capella.HistoricalSummaries, error) {
		return capella.HistoricalSummaries(append([]capella.HistoricalSummary{}, g.summaries...)), nil
	}
	var oracle validation.Oracle = pool
	refHeader := trueHeader
	srcName := [...]string{"honest", "lying-oracle", "rpc-honest", "rpc-lying", "rpc-undecodable", "rpc-forged-summaries"}[p.Source]
	c.Class("source:" + srcName)
	switch p.Source {
	case 1:
		// the oracle answers every request with the header of the block the content was taken from.
		// Contract of the Oracle interface: "the header with that hash"; an implementation breaking it
		// is judged by what it returned (the production implementation is judged by sources 2..5).
		lie := types.CopyHeader(src.Header)
		pool.override = func([]byte) (*types.Header, error) { return types.CopyHeader(lie), nil }
		refHeader = func([]byte) *types.Header { return lie }
	case 2, 3, 4, 5:
		srv := newScriptedPortal()
		defer srv.close()
		for _, gb := range g.blocks {
			srv.addHeaderContent(gb.Hash, gb.HeaderContent)
		}
		srv.addHeaderContent(a.Hash, a.HeaderContent)
		srv.addHeaderContent(b.Hash, b.HeaderContent)
		srv.summaries = g.summaries
		switch p.Source {
		case 3:
			srv.lieWith = src.HeaderContent
		case 4:
			srv.garble = []string{"hex", "ssz", "rlp", "error", "empty"}[p.Garble%5]
		case 5:
			srv.summaries = nil
			for i, r := range forged.slotAcc {
				srv.summaries = append(srv.summaries, capella.HistoricalSummary{BlockSummaryRoot: common.Root(r), StateSummaryRoot: common.Root(prf(p.KeyBlock.Synth.Seed, "fss", uint64(i)))})
			}
		}
		oracle = validation.NewOracle(srv.client())
	}

	want, reason := c02Reference(cs.key, cs.content, refHeader, g.acc)

	fo := &flakyOracle{inner: oracle}
	validator := history.NewHistoryValidator(fo)
	if p.Prelude && p.ContKind != 0 {
		// the honest (key, content) pair of the block the content comes from
		hk := src.hashKey(byte(p.ContKind))
		hc := src.Body
		if p.ContKind == 2 {
			hc = src.Receipts
		}
		_, _ = call(func() error { return validator.ValidateContent(append([]byte{}, hk...), append([]byte{}, hc...)) })
		c.Class("history:prelude")
	}
	if p.FailFirst && p.ContKind != 0 {
		fo.failNext = true
		ferr, _ := call(func() error {
			return validator.ValidateContent(append([]byte{}, cs.key...), append([]byte{}, cs.content...))
		})
		if ferr != nil {
			c.Class("history:failed-lookup-first")
		}
		fo.failNext = false
	}
	if p.Prelude && p.FailFirst && p.ContKind != 0 && (p.Cross || len(p.Muts) > 0) {
		c.NT("history:prelude+failed-lookup-then-judged")
	}
	verr, pan := call(func() error {
		return validator.ValidateContent(append([]byte{}, cs.key...), append([]byte{}, cs.content...))
	})
	if pan != "" {
		return fmt.Errorf("HistoryValidator.ValidateContent panicked (%s): key selector %#x, %d content bytes, source %s, reference says %q", pan, cs.key[0], len(cs.content), srcName, reason)
	}
	accepted := verr == nil

	// classes
	matched := (p.KeyKind%3 == 0 && p.ContKind == 0) || (p.KeyKind == p.ContKind && p.KeyKind != 0)
	honest := len(p.Muts) == 0 && !p.Cross && matched && p.Source <= 3
	kindName := [...]string{"header", "body", "receipts"}[p.ContKind]
	origin := "synthetic"
	if p.KeyBlock.Genuine && p.Source != 5 {
		origin = "genuine"
	}
	reached := !(reason == "ssz" || reason == "header-rlp" || reason == "unknown-selector" || reason == "no-header")
	switch {
	case honest && want:
		c.NT("honest-bound:" + kindName + ":" + origin)
	case reached:
		c.NT("ref:" + reason)
	case p.Cross || p.Source == 1 || p.Source == 3 || p.Source == 5:
		c.NT("crossed-or-lying:" + reason)
	default:
		c.Class("shallow:" + reason)
	}
	if p.Cross {
		c.Class("cross-pairing")
	}
	if !matched {
		c.Class("content-kind-under-other-key")
	}
	if want && !honest {
		c.Class("mutated-but-bound")
	}
	if p.ContKind == 1 {
		if pb, err := vm.SplitPortalBody(cs.content); err == nil {
			if pb.HasWithdrawals {
				c.Class("body:shanghai-container")
			} else {
				c.Class("body:legacy-container")
			}
			if h := refHeader(cs.key[1:]); h != nil && len(cs.key) == 33 && cs.key[0] == 1 {
				switch {
				case !pb.HasWithdrawals && h.WithdrawalsHash != nil && vm.H32(*h.WithdrawalsHash) != vm.EmptyTrieRoot:
					c.Class("legacy-body-for-withdrawals-header")
				case pb.HasWithdrawals && h.WithdrawalsHash == nil:
					c.Class("shanghai-body-for-pre-shanghai-header")
				}
			}
		}
	}
	if a.Header.Number.IsUint64() {
		c.Class("key-era:" + vm.EraOf(a.Header.Number.Uint64()).String())
	}

	// completeness is a generator-health condition
	if honest && want && !accepted {
		stats.For("C02").Unhealthy(fmt.Sprintf("honest %s %s content (%s) rejected via source %s: %v", origin, kindName, a.Name, srcName, verr))
	}
	if honest && !want && origin == "genuine" && a.ProofValid {
		return fmt.Errorf("harness bug: genuine %s vector %s is not bound by the reference (%s)", kindName, a.Name, reason)
	}

	// soundness
	if accepted && !want {
		if p.Source == 5 && pbt.KnownOpen(findingSummaries) {
			// classifier: the defect is "the header proof is checked against whatever summaries the
			// RPC returned". Predict acceptance from exactly that and nothing else.
			facc := &vm.Accumulators{PreMergeEpochs: g.acc.PreMergeEpochs, HistoricalRoots: g.acc.HistoricalRoots, Summaries: forged.slotAcc}
			if ok, _ := c02Reference(cs.key, cs.content, refHeader, facc); ok {
				pbt.HitKnown("C02", findingSummaries)
				c.Class("known:" + findingSummaries)
				return nil
			}
		}
		return fmt.Errorf("%s content accepted under key %x... although it is not bound to it: %s (source %s, key block %s, content from %s, %d bytes)",
			kindName, cs.key[:min(len(cs.key), 5)], reason, srcName, a.Name, src.Name, len(cs.content))
	}
	if accepted {
		c.Class("accepted")
	} else {
		c.Class("rejected")
	}
	return nil
}

func TestC02_HistoryContent(t *testing.T) { pbt.Run(t, "C02", "content", genC02, runC02) }

// TestC02_GenuineVectors: every genuine vector must be accepted by the code and
// bound by the reference, through the honest oracle and through the real
// ValidationOracle over the scripted RPC. A failure is a health problem of the
// generator/model, not a property violation.
func TestC02_GenuineVectors(t *testing.T) {
	if os.Getenv("VERIF_REPLAY") != "" {
		t.Skip("replay mode")
	}
	g, err := loadGenuine()
	if err != nil {
		stats.For("C02").Unhealthy("genuine vectors: " + err.Error())
		t.Skip(err)
	}
	rec := stats.For("C02")
	pool := newPoolOracle()
	srv := newScriptedPortal()
	defer srv.close()
	srv.summaries = g.summaries
	for _, b := range g.blocks {
		pool.add(b.Header)
		srv.addHeaderContent(b.Hash, b.HeaderContent)
	}
	pool.summaries = func(uint64) (capella.HistoricalSummaries, error) {
		return capella.HistoricalSummaries(g.summaries), nil
	}
	known := func(hash []byte) *types.Header {
		h, _ := pool.lookup(hash)
		return h
	}
	eras := map[string]int{}
	for si, oracle := range []validation.Oracle{pool, validation.NewOracle(srv.client())} {
		for _, b := range g.blocks {
			type kc struct {
				key, content []byte
				must         bool
			}
			cases := []kc{{b.hashKey(0), b.HeaderContent, b.ProofValid}, {b.numberKey(), b.HeaderContent, b.ProofValid}}
			if b.HasBody {
				cases = append(cases, kc{b.hashKey(1), b.Body, true})
			}
			if b.HasReceipts {
				cases = append(cases, kc{b.hashKey(2), b.Receipts, true})
			}
			for _, k := range cases {
				want, reason := c02Reference(k.key, k.content, known, g.acc)
				v := history.NewHistoryValidator(oracle)
				verr, pan := call(func() error { return v.ValidateContent(k.key, k.content) })
				rec.AddEvaluations(1)
				if pan != "" {
					t.Errorf("%s key %x: panic %s", b.Name, k.key[:1], pan)
					pbt.ReportViolation("C02", fmt.Sprintf("genuine vector %s key %x panicked: %s", b.Name, k.key[:1], pan), "")
					continue
				}
				if want != k.must {
					rec.Unhealthy(fmt.Sprintf("reference verdict %v (%s) for genuine vector %s key selector %d", want, reason, b.Name, k.key[0]))
				}
				if (verr == nil) != k.must {
					if verr == nil {
						t.Errorf("%s: obsolete-format header accepted", b.Name)
						pbt.ReportViolation("C02", fmt.Sprintf("genuine header %s with an obsolete proof format accepted (source %d)", b.Name, si), "")
					} else {
						rec.Unhealthy(fmt.Sprintf("genuine vector %s key selector %d rejected (source %d): %v", b.Name, k.key[0], si, verr))
					}
				}
				if k.must && verr == nil {
					eras[vm.EraOf(b.Header.Number.Uint64()).String()+fmt.Sprintf(":sel%d", k.key[0])]++
				}
			}
		}
	}
	for k, n := range eras {
		rec.Count("genuine-accepted:"+k, int64(n))
	}
}
