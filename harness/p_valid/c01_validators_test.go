package p_valid

// C01, "an offered or looked-up content item together with its content key ... never panics", on the
// *structured* inputs of the validators. C01's own generator (p_proto) mutates genuine vectors byte-wise and
// cannot keep a header hash, a proof and a slot consistent with each other; the worlds of C02, C03 and C13 can
// (constructed headers whose hash matches the key, self-consistent proofs, slots and positions at the edges of
// the accumulators). The same plans are executed here and only one thing is judged: no call into a validator
// or a store adapter panics. Everything else those runs report belongs to C02/C03/C13 and is ignored here.

import (
	"strings"
	"testing"

	"verifharness/pbt"
	"verifharness/stats"
)

func onlyPanics[P any](kind string, run func(P, *stats.Case) error) func(P, *stats.Case) error {
	return func(p P, c *stats.Case) error {
		inner := &stats.Case{}
		err := run(p, inner)
		c.NT("structured-validator-input:" + kind)
		if err != nil && strings.Contains(err.Error(), "panicked") {
			return err
		}
		return nil
	}
}

func TestC01_HeaderProofInputs(t *testing.T) {
	pbt.Run(t, "C01", "validators-c03", genC03, onlyPanics("header-proof", runC03))
}

func TestC01_HistoryInputs(t *testing.T) {
	pbt.Run(t, "C01", "validators-c02", genC02, onlyPanics("history-content", runC02))
}

func TestC01_StateInputs(t *testing.T) {
	pbt.Run(t, "C01", "validators-c13", genC13, onlyPanics("state-proof", runC13))
}
