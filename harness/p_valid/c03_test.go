package p_valid

// C03 — header proofs: honest proofs verify and nothing else does, four eras.
//
// The validator is built over synthetic accumulators (hook
// validation.VerifNewHeaderValidator). The judge is vmodel.HeaderProofVerdict,
// an independent SHA-256 branch verifier by generalized index; both directions
// are compared: ValidateHeaderAndProof == nil  <=>  reference says "the header
// hash is the leaf at the position fixed by the block number / the proof slot".

import (
	"encoding/binary"
	"fmt"
	"math/big"
	"testing"

	gcommon "github.com/ethereum/go-ethereum/common"
	"github.com/ethereum/go-ethereum/core/types"
	"github.com/protolambda/zrnt/eth2/beacon/capella"
	"github.com/protolambda/zrnt/eth2/beacon/common"
	"github.com/zen-eth/shisui/validation"
	"pgregory.net/rapid"
	vm "verifharness/model/vmodel"
	"verifharness/pbt"
	"verifharness/stats"
)

type c03Mut struct {
	Kind string
	A    int
	B    int
	V    uint64
}

type c03Plan struct {
	NumEra   int // era of the header's block number
	BuildEra int // era whose proof layout / accumulator the prover uses (== NumEra for an honest prover)
	Seed     uint64
	NumSel   int // 0 first of era, 1 last, 2 first+1, 3 last-1, 4 random
	NumRand  uint64
	ChainLen int // pre-merge: number of records in the epoch accumulator (1..8192)
	RecSel   int // 0 first, 1 last, 2 random record of the chain
	RecRand  int
	PosSel   int // post-merge: index into the slot-indexed accumulator: 0 first, 1 last, 2 random
	PosRand  int
	OffSel   int // position inside the 8192-slot vector: 0 first, 1 last, 2 random
	OffRand  int
	NAcc     int  // length of the historical-roots / historical-summaries list
	NCache   int  // summaries the validator holds itself (<= NAcc); the rest only the oracle knows
	NOracle  int  // -1 no oracle, -2 failing oracle, k >= 0: oracle serves the NAcc summaries plus k more
	Fill     int  // other occupied slots of the block_roots vector
	Dup      bool // slot^1 carries the same block root (missed slot)
	Muts     []c03Mut
}

var c03MutKinds = []string{"sib", "sib", "root", "slot", "slot", "hdr", "num", "trunc", "extend", "swap", "acc-trunc", "acc-trunc", "acc-flip", "acc-shift", "neighbour"}

func genC03(t *rapid.T) c03Plan {
	p := c03Plan{
		NumEra:  rapid.IntRange(0, 3).Draw(t, "numEra"),
		Seed:    rapid.Uint64().Draw(t, "seed"),
		NumSel:  rapid.IntRange(0, 4).Draw(t, "numSel"),
		NumRand: rapid.Uint64().Draw(t, "numRand"),
		RecSel:  rapid.IntRange(0, 2).Draw(t, "recSel"),
		RecRand: rapid.IntRange(0, 8191).Draw(t, "recRand"),
		PosSel:  rapid.IntRange(0, 2).Draw(t, "posSel"),
		PosRand: rapid.IntRange(0, 2000).Draw(t, "posRand"),
		OffSel:  rapid.IntRange(0, 2).Draw(t, "offSel"),
		OffRand: rapid.IntRange(0, 8191).Draw(t, "offRand"),
		Dup:     rapid.IntRange(0, 5).Draw(t, "dup") == 0,
	}
	p.BuildEra = p.NumEra
	if rapid.IntRange(0, 9).Draw(t, "crossEra") == 0 {
		p.BuildEra = rapid.IntRange(0, 3).Draw(t, "buildEra")
	}
	switch rapid.IntRange(0, 9).Draw(t, "chainClass") {
	case 0, 1, 2:
		p.ChainLen = rapid.SampledFrom([]int{1, 2, 3, 8191, 8192}).Draw(t, "chainB")
	case 3, 4:
		p.ChainLen = rapid.IntRange(1, 8192).Draw(t, "chainR")
	default:
		p.ChainLen = rapid.IntRange(1, 64).Draw(t, "chainS")
	}
	switch rapid.IntRange(0, 9).Draw(t, "fillClass") {
	case 0, 1, 2, 3:
		p.Fill = 0
	case 4, 5, 6:
		p.Fill = rapid.IntRange(1, 8).Draw(t, "fillS")
	case 7:
		p.Fill = 8191
	default:
		p.Fill = rapid.IntRange(1, 8191).Draw(t, "fillR")
	}
	switch rapid.IntRange(0, 9).Draw(t, "accClass") {
	case 0:
		p.NAcc = rapid.SampledFrom([]int{643, 758, 1000}).Draw(t, "accP")
	default:
		p.NAcc = rapid.IntRange(1, 12).Draw(t, "accS")
	}
	p.NCache = p.NAcc
	p.NOracle = -1
	switch rapid.IntRange(0, 5).Draw(t, "oracleClass") {
	case 0:
		p.NOracle = -2
	case 1, 2:
		p.NOracle = rapid.IntRange(0, 3).Draw(t, "oracleExtra")
		p.NCache = rapid.IntRange(0, p.NAcc).Draw(t, "cache")
	}
	nm := 0
	switch rapid.IntRange(0, 9).Draw(t, "nmuts") {
	case 0, 1, 2:
		nm = 0
	case 3, 4, 5, 6, 7:
		nm = 1
	default:
		nm = 2
	}
	for i := 0; i < nm; i++ {
		p.Muts = append(p.Muts, c03Mut{
			Kind: rapid.SampledFrom(c03MutKinds).Draw(t, "mk"),
			A:    rapid.IntRange(0, 63).Draw(t, "ma"),
			B:    rapid.IntRange(0, 63).Draw(t, "mb"),
			V:    rapid.Uint64().Draw(t, "mv"),
		})
	}
	return p
}

// eraNumber picks the block number.
func eraNumber(era, sel int, r uint64) uint64 {
	var lo, hi uint64
	switch vm.Era(era) {
	case vm.EraPreMerge:
		lo, hi = 0, vm.MergeBlock-1
	case vm.EraBellatrix:
		lo, hi = vm.MergeBlock, vm.ShanghaiBlock-1
	case vm.EraCapella:
		lo, hi = vm.ShanghaiBlock, vm.CancunBlock-1
	default:
		lo, hi = vm.CancunBlock, vm.CancunBlock+40_000_000
	}
	switch sel {
	case 0:
		return lo
	case 1:
		if vm.Era(era) == vm.EraDeneb && r%4 == 0 {
			return 1<<64 - 1
		}
		return hi
	case 2:
		return lo + 1
	case 3:
		return hi - 1
	}
	return lo + r%(hi-lo+1)
}

func mkHeader(seed uint64, number uint64) *types.Header {
	h := &types.Header{
		ParentHash:  gcommon.Hash(prf(seed, "parent", 0)),
		UncleHash:   types.EmptyUncleHash,
		Coinbase:    gcommon.Address(prfBytes(seed, "coinbase", 20)),
		Root:        gcommon.Hash(prf(seed, "root", 0)),
		TxHash:      gcommon.Hash(prf(seed, "tx", 0)),
		ReceiptHash: gcommon.Hash(prf(seed, "rc", 0)),
		Difficulty:  new(big.Int).SetUint64(prfU64(seed, "diff", 0) >> 16),
		Number:      new(big.Int).SetUint64(number),
		GasLimit:    30_000_000,
		GasUsed:     prfU64(seed, "gas", 0) % 30_000_000,
		Time:        1_438_269_988 + number*13,
		Extra:       prfBytes(seed, "extra", int(prfU64(seed, "extralen", 0)%33)),
		MixDigest:   gcommon.Hash(prf(seed, "mix", 0)),
	}
	if number >= 12_965_000 {
		h.BaseFee = new(big.Int).SetUint64(prfU64(seed, "basefee", 0) >> 24)
	}
	if number >= vm.MergeBlock {
		h.Difficulty = new(big.Int)
	}
	if number >= vm.ShanghaiBlock {
		w := gcommon.Hash(prf(seed, "wd", 0))
		h.WithdrawalsHash = &w
	}
	if number >= vm.CancunBlock {
		var a, b uint64 = prfU64(seed, "blob", 0) % 786432, prfU64(seed, "blob", 1) >> 20
		pb := gcommon.Hash(prf(seed, "pbr", 0))
		h.BlobGasUsed, h.ExcessBlobGas, h.ParentBeaconRoot = &a, &b, &pb
	}
	return h
}

type c03World struct {
	p          c03Plan
	header     *types.Header
	epochs     []vm.H32
	slotAcc    []vm.H32 // historical roots, or block-summary roots (full list, as the oracle knows it)
	stateSumm  uint64   // seed offset for state summary roots
	ncache     int
	proof      []byte
	sibOff     []int
	rootOff    int
	slotOff    int
	accIdx     int // index into epochs / slotAcc the honest proof belongs to
	tree       *vm.SparseTree
	treePos    uint64
	extraFront []vm.H32 // pre-merge: siblings below the tree branch (total difficulty)
	extraBack  []vm.H32 // siblings above the tree branch (length chunk / state_roots root)
}

func (w *c03World) summaryBuild() bool {
	return vm.Era(w.p.BuildEra) == vm.EraCapella || vm.Era(w.p.BuildEra) == vm.EraDeneb
}

func buildC03(p c03Plan) *c03World {
	w := &c03World{p: p, rootOff: -1, slotOff: -1}
	number := eraNumber(p.NumEra, p.NumSel, p.NumRand)
	// pre-merge: the chain fixes which numbers exist
	chain := p.ChainLen
	var epochIdx, rec uint64
	if vm.Era(p.BuildEra) == vm.EraPreMerge {
		if vm.Era(p.NumEra) == vm.EraPreMerge {
			switch p.NumSel {
			case 0:
				epochIdx = 0
			case 1:
				epochIdx = vm.PreMergeEpochs - 1
			case 2:
				epochIdx = 1
			case 3:
				epochIdx = vm.PreMergeEpochs - 2
			default:
				epochIdx = p.NumRand % vm.PreMergeEpochs
			}
			if epochIdx == vm.PreMergeEpochs-1 && chain > int(vm.MergeBlock%vm.EpochSize) {
				chain = int(vm.MergeBlock % vm.EpochSize) // the last pre-merge epoch holds 5362 records
			}
			switch p.RecSel {
			case 0:
				rec = 0
			case 1:
				rec = uint64(chain - 1)
			default:
				rec = uint64(p.RecRand % chain)
			}
			number = epochIdx*vm.EpochSize + rec
		} else {
			// a prover using the pre-merge structure for a post-merge number
			epochIdx = (number / vm.EpochSize) % vm.PreMergeEpochs
			rec = number % vm.EpochSize % uint64(chain)
		}
	}
	w.header = mkHeader(p.Seed, number)
	hash := vm.H32(w.header.Hash())

	w.epochs = make([]vm.H32, vm.PreMergeEpochs)
	for i := range w.epochs {
		w.epochs[i] = prf(p.Seed, "epoch", uint64(i))
	}

	if vm.Era(p.BuildEra) == vm.EraPreMerge {
		leaves := make(map[uint64]vm.H32, chain)
		var tdT vm.H32
		for i := 0; i < chain; i++ {
			bh, td := prf(p.Seed, "rec", uint64(i)), prf(p.Seed, "td", uint64(i))
			if uint64(i) == rec {
				bh, tdT = hash, td
			}
			leaves[uint64(i)] = vm.HashPair(bh, td)
		}
		w.tree, w.treePos = vm.NewSparseTree(13, leaves), rec
		lenChunk := vm.Uint64Chunk(uint64(chain))
		w.epochs[epochIdx] = vm.HashPair(w.tree.Root(), lenChunk)
		w.accIdx = int(epochIdx)
		w.extraFront, w.extraBack = []vm.H32{tdT}, []vm.H32{lenChunk}
		w.assemble(nil, nil, 0)
		// the slot-indexed accumulators exist too (unused by an honest pre-merge proof)
		w.slotAcc = make([]vm.H32, p.NAcc)
		for i := range w.slotAcc {
			w.slotAcc[i] = prf(p.Seed, "acc", uint64(i))
		}
		w.ncache = min(p.NCache, p.NAcc)
		return w
	}

	nb, nx := vm.PostMergeProofLayout(vm.Era(p.BuildEra))
	_ = nb
	g := vm.GindexBlockHashBellatrix
	if vm.Era(p.BuildEra) == vm.EraDeneb {
		g = vm.GindexBlockHashDeneb
	}
	el := make([]vm.H32, nx)
	for i := range el {
		el[i] = prf(p.Seed, "el", uint64(i))
	}
	blockRoot, _ := vm.FoldBranch(hash, el, g)

	total := p.NAcc
	if w.summaryBuild() && p.NOracle > 0 {
		total += p.NOracle
	}
	var idx int
	switch p.PosSel {
	case 0:
		idx = 0
	case 1:
		idx = p.NAcc - 1
	default:
		idx = p.PosRand % total
	}
	var off uint64
	switch p.OffSel {
	case 0:
		off = 0
	case 1:
		off = vm.EpochSize - 1
	default:
		off = uint64(p.OffRand)
	}
	leaves := map[uint64]vm.H32{off: blockRoot}
	if p.Dup {
		leaves[off^1] = blockRoot
	}
	if p.Fill >= 8191 {
		for i := uint64(0); i < vm.EpochSize; i++ {
			if _, ok := leaves[i]; !ok {
				leaves[i] = prf(p.Seed, "fill", i)
			}
		}
	} else {
		for j := 0; j < p.Fill; j++ {
			pos := prfU64(p.Seed, "fillpos", uint64(j)) % vm.EpochSize
			if _, ok := leaves[pos]; !ok {
				leaves[pos] = prf(p.Seed, "fill", pos)
			}
		}
	}
	w.tree, w.treePos = vm.NewSparseTree(13, leaves), off
	w.slotAcc = make([]vm.H32, total)
	for i := range w.slotAcc {
		w.slotAcc[i] = prf(p.Seed, "acc", uint64(i))
	}
	w.accIdx = idx
	var slot uint64
	if vm.Era(p.BuildEra) == vm.EraBellatrix {
		stateRoots := prf(p.Seed, "state_roots", 0)
		w.slotAcc[idx] = vm.HashPair(w.tree.Root(), stateRoots)
		w.extraBack = []vm.H32{stateRoots}
		slot = uint64(idx)*vm.EpochSize + off
	} else {
		w.slotAcc[idx] = w.tree.Root()
		slot = vm.CapellaStartSlot + uint64(idx)*vm.EpochSize + off
	}
	w.ncache = min(p.NCache, p.NAcc)
	w.assemble(&blockRoot, el, slot)
	return w
}

// assemble serialises the proof container from the tree branch at treePos.
func (w *c03World) assemble(blockRoot *vm.H32, el []vm.H32, slot uint64) {
	w.proof, w.sibOff = nil, nil
	add := func(h vm.H32) {
		w.sibOff = append(w.sibOff, len(w.proof))
		w.proof = append(w.proof, h[:]...)
	}
	for _, h := range w.extraFront {
		add(h)
	}
	for _, h := range w.tree.Branch(w.treePos) {
		add(h)
	}
	for _, h := range w.extraBack {
		add(h)
	}
	if blockRoot == nil {
		return
	}
	w.rootOff = len(w.proof)
	w.proof = append(w.proof, blockRoot[:]...)
	for _, h := range el {
		add(h)
	}
	w.slotOff = len(w.proof)
	w.proof = binary.LittleEndian.AppendUint64(w.proof, slot)
}

func (w *c03World) slot() uint64 { return binary.LittleEndian.Uint64(w.proof[w.slotOff:]) }

// trusted returns the accumulators the validator can legitimately reach.
func (w *c03World) trusted() (roots, summaries []vm.H32) {
	roots = w.slotAcc
	if w.p.NOracle >= 0 {
		return roots, w.slotAcc
	}
	return roots, w.slotAcc[:min(w.ncache, len(w.slotAcc))]
}

func (w *c03World) mutate(m c03Mut, c *stats.Case) {
	flip := func(off int) { w.proof[off] ^= byte(m.V) | 1 }
	post := w.slotOff >= 0 && w.slotOff+8 <= len(w.proof)
	kind := m.Kind
	if !post && (kind == "root" || kind == "slot" || kind == "acc-trunc") {
		kind = map[string]string{"root": "sib", "slot": "num", "acc-trunc": "acc-flip"}[kind]
	}
	c.Class("mut:" + kind)
	switch kind {
	case "sib":
		if len(w.sibOff) > 0 {
			o := w.sibOff[m.A%len(w.sibOff)] + m.B%32
			if o < len(w.proof) {
				flip(o)
			}
		}
	case "root":
		flip(w.rootOff + m.A%32)
	case "slot":
		s := w.slot()
		n := uint64(len(w.slotAcc))
		switch m.A % 12 {
		case 0:
			s++
		case 1:
			s--
		case 2:
			s ^= 1
		case 3:
			s += vm.EpochSize
		case 4:
			s -= vm.EpochSize
		case 5:
			s += vm.EpochSize * (n - uint64(w.accIdx)) // first position beyond the list
		case 6:
			s = 1<<64 - 1
		case 7:
			s = 0
		case 8:
			s = vm.CapellaStartSlot - 1 - m.V%vm.EpochSize
		case 9:
			s = m.V
		case 10:
			s += vm.EpochSize * (n + m.V%1000)
		case 11:
			s |= 1 << 63
		}
		binary.LittleEndian.PutUint64(w.proof[w.slotOff:], s)
	case "hdr":
		switch m.A % 4 {
		case 0:
			w.header.Extra = append(append([]byte{}, w.header.Extra...), byte(m.V))
		case 1:
			w.header.GasLimit++
		case 2:
			w.header.Time++
		case 3:
			w.header.ParentHash[m.B%32] ^= byte(m.V) | 1
		}
	case "num":
		n := w.header.Number.Uint64()
		switch m.A % 8 {
		case 0:
			n++
		case 1:
			n--
		case 2:
			n += vm.EpochSize
		case 3:
			n -= vm.EpochSize
		case 4:
			n = vm.MergeBlock - uint64(m.B%2)
		case 5:
			n = vm.ShanghaiBlock - uint64(m.B%2)
		case 6:
			n = vm.CancunBlock - uint64(m.B%2)
		case 7:
			n = m.V
		}
		w.header.Number = new(big.Int).SetUint64(n)
	case "trunc":
		cut := 1 + m.A%64
		if m.B%3 == 0 {
			cut = 32
		}
		if cut > len(w.proof) {
			cut = len(w.proof)
		}
		w.proof = w.proof[:len(w.proof)-cut]
	case "extend":
		add := 1 + m.A%64
		if m.B%3 == 0 {
			add = 32
		}
		w.proof = append(w.proof, prfBytes(m.V, "ext", add)...)
	case "swap":
		if len(w.sibOff) > 1 {
			a, b := w.sibOff[m.A%len(w.sibOff)], w.sibOff[m.B%len(w.sibOff)]
			if a+32 <= len(w.proof) && b+32 <= len(w.proof) {
				var t [32]byte
				copy(t[:], w.proof[a:a+32])
				copy(w.proof[a:a+32], w.proof[b:b+32])
				copy(w.proof[b:b+32], t[:])
			}
		}
	case "acc-trunc":
		// the position named by the (otherwise honest) proof is the first one beyond the list
		keep := w.accIdx + m.A%2*(m.B%3) // == accIdx mostly; sometimes a little longer (still in range)
		if keep > len(w.slotAcc) {
			keep = len(w.slotAcc)
		}
		w.slotAcc = w.slotAcc[:keep]
		if w.ncache > keep {
			w.ncache = keep
		}
	case "acc-flip":
		if vm.Era(w.p.BuildEra) == vm.EraPreMerge {
			w.epochs[w.accIdx][m.A%32] ^= byte(m.V) | 1
		} else if w.accIdx < len(w.slotAcc) {
			w.slotAcc[w.accIdx][m.A%32] ^= byte(m.V) | 1
		}
	case "acc-shift":
		if vm.Era(w.p.BuildEra) == vm.EraPreMerge {
			j := w.accIdx ^ 1
			if j >= len(w.epochs) {
				j = w.accIdx - 1
			}
			w.epochs[w.accIdx], w.epochs[j] = w.epochs[j], w.epochs[w.accIdx]
		} else if len(w.slotAcc) > 0 {
			w.slotAcc = w.slotAcc[1:]
			if w.ncache > len(w.slotAcc) {
				w.ncache = len(w.slotAcc)
			}
		}
	case "neighbour":
		// branch of a neighbouring record / slot, everything else unchanged
		np := w.treePos ^ 1
		if m.A%2 == 1 {
			np = (w.treePos + 1) % vm.EpochSize
		}
		br := w.tree.Branch(np)
		for i, h := range br {
			o := w.sibOff[len(w.extraFront)+i]
			if o+32 <= len(w.proof) {
				copy(w.proof[o:o+32], h[:])
			}
		}
	}
}

type summaryOracle struct {
	poolOracle
	list  []capella.HistoricalSummary
	fail  bool
	calls int
}

func (o *summaryOracle) GetHistoricalSummaries(epoch uint64) (capella.HistoricalSummaries, error) {
	o.calls++
	if o.fail {
		return nil, fmt.Errorf("harness oracle: summaries unavailable")
	}
	return capella.HistoricalSummaries(append([]capella.HistoricalSummary{}, o.list...)), nil
}

func runC03(p c03Plan, c *stats.Case) error {
	if p.ChainLen < 1 || p.ChainLen > 8192 || p.NAcc < 1 || p.NAcc > 4096 || p.NumEra < 0 || p.NumEra > 3 || p.BuildEra < 0 || p.BuildEra > 3 || p.Fill < 0 {
		return nil // not a plan the generator produces (hand-edited replay)
	}
	w := buildC03(p)
	for _, m := range p.Muts {
		w.mutate(m, c)
	}
	number := w.header.Number.Uint64()
	era := vm.EraOf(number)
	hash := vm.H32(w.header.Hash())

	roots, summ := w.trusted()
	acc := &vm.Accumulators{PreMergeEpochs: w.epochs, HistoricalRoots: roots, Summaries: summ}
	if vm.Era(p.BuildEra) != vm.EraBellatrix {
		// the historical-roots list of a summaries/pre-merge world is unrelated random data
		acc.HistoricalRoots = roots
	}
	want, why := vm.HeaderProofVerdict(acc, number, hash, w.proof)

	// the validator's own inputs
	epochs := make([][]byte, len(w.epochs))
	for i := range w.epochs {
		epochs[i] = append([]byte{}, w.epochs[i][:]...)
	}
	hr := make([]common.Root, len(roots))
	for i := range roots {
		hr[i] = common.Root(roots[i])
	}
	mkSumm := func(list []vm.H32) []capella.HistoricalSummary {
		out := make([]capella.HistoricalSummary, len(list))
		for i := range list {
			out[i] = capella.HistoricalSummary{BlockSummaryRoot: common.Root(list[i]), StateSummaryRoot: common.Root(prf(p.Seed, "state_summary", uint64(i)))}
		}
		return out
	}
	cache := mkSumm(w.slotAcc[:min(w.ncache, len(w.slotAcc))])
	var oracle validation.Oracle
	var so *summaryOracle
	switch {
	case p.NOracle == -2:
		so = &summaryOracle{fail: true}
		oracle = so
	case p.NOracle >= 0:
		so = &summaryOracle{list: mkSumm(w.slotAcc)}
		oracle = so
	}
	v := validation.VerifNewHeaderValidator(epochs, hr, cache, oracle)

	// classes
	honest := len(p.Muts) == 0 && p.BuildEra == p.NumEra
	switch {
	case honest:
		c.NT("honest:" + era.String())
		if !want {
			return fmt.Errorf("harness bug: honest construction rejected by the reference (%s)", why)
		}
	default:
		// a mutated case is non-trivial when the reference verdict was reached by a hash / position comparison;
		// a proof of the wrong size is rejected by its shape alone and only counted
		if why == "proof-size" {
			c.Class("verdict:" + why + ":" + era.String())
		} else {
			c.NT("verdict:" + why + ":" + era.String())
		}
	}
	if p.BuildEra != p.NumEra {
		c.Class("cross-era")
	}
	if vm.Era(p.BuildEra) == vm.EraPreMerge && p.ChainLen == 8192 {
		c.Class("full-epoch-chain")
	}
	if vm.Era(p.BuildEra) != vm.EraPreMerge && p.Fill >= 8191 {
		c.Class("full-block-roots")
	}
	if want && !honest {
		c.Class("mutated-but-valid")
	}
	for _, b := range []uint64{vm.MergeBlock - 1, vm.MergeBlock, vm.ShanghaiBlock - 1, vm.ShanghaiBlock, vm.CancunBlock - 1, vm.CancunBlock} {
		if number == b {
			c.Class("fork-boundary-number")
		}
	}
	if so != nil && !so.fail && w.ncache < len(w.slotAcc) && era >= vm.EraCapella {
		c.Class("summary-via-oracle-possible")
	}

	for round := 0; round < 2; round++ {
		hdr := types.CopyHeader(w.header)
		pr := append([]byte{}, w.proof...)
		err, pan := call(func() error { return v.ValidateHeaderAndProof(hdr, pr) })
		if pan != "" {
			return fmt.Errorf("ValidateHeaderAndProof panicked instead of returning an error (%s): block %d era %s, reference verdict %q, proof %d bytes, %d historical roots, %d summaries",
				pan, number, era, why, len(w.proof), len(roots), len(summ))
		}
		if (err == nil) != want {
			if want {
				return fmt.Errorf("proof that the reference verifies was rejected (round %d): %v; block %d era %s", round, err, number, era)
			}
			return fmt.Errorf("proof accepted although the header hash is not the committed leaf (round %d): reference says %q; block %d era %s slot-acc %d", round, why, number, era, len(w.slotAcc))
		}
	}
	if so != nil && so.calls > 0 {
		c.Class("oracle-consulted")
	}
	return nil
}

func TestC03_HeaderProofs(t *testing.T) { pbt.Run(t, "C03", "proofs", genC03, runC03) }
