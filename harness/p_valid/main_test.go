// Package p_valid holds the checks of the content validators:
//
//	C02  history content accepted only when bound to its key and the trusted roots
//	C03  header proofs against the accumulators, four eras
//	C13  state trie-node / bytecode proofs
//
// Reference models live in verifharness/model/vmodel.
package p_valid

import (
	"crypto/sha256"
	"encoding/binary"
	"errors"
	"fmt"
	"sync"
	"testing"

	"github.com/ethereum/go-ethereum/core/types"
	"github.com/protolambda/zrnt/eth2/beacon/capella"
	"github.com/zen-eth/shisui/validation"
	vm "verifharness/model/vmodel"
	"verifharness/pbt"
)

func TestMain(m *testing.M) { pbt.Main(m) }

// ---------------------------------------------------------------------------
// deterministic expansion of plan seeds (plans stay small: a seed, not the bytes)

func prf(seed uint64, label string, i uint64) vm.H32 {
	var b [16]byte
	binary.LittleEndian.PutUint64(b[:8], seed)
	binary.LittleEndian.PutUint64(b[8:], i)
	h := sha256.New()
	h.Write(b[:])
	h.Write([]byte(label))
	var out vm.H32
	h.Sum(out[:0])
	return out
}

func prfBytes(seed uint64, label string, n int) []byte {
	out := make([]byte, 0, n+32)
	for i := uint64(0); len(out) < n; i++ {
		h := prf(seed, label, i)
		out = append(out, h[:]...)
	}
	return out[:n]
}

func prfU64(seed uint64, label string, i uint64) uint64 {
	h := prf(seed, label, i)
	return binary.LittleEndian.Uint64(h[:8])
}

// call runs f and reports a panic of the code under test as a string.
func call(f func() error) (err error, panicked string) {
	defer func() {
		if r := recover(); r != nil {
			panicked = fmt.Sprint(r)
		}
	}()
	return f(), ""
}

// ---------------------------------------------------------------------------
// header sources

var errNoSuchHeader = errors.New("harness oracle: no header with that hash")

// poolOracle implements validation.Oracle over a pool of known headers.
type poolOracle struct {
	mu        sync.Mutex
	byHash    map[vm.H32]*types.Header
	override  func(hash []byte) (*types.Header, error) // when set, answers instead of the pool ("lying" source)
	summaries func(epoch uint64) (capella.HistoricalSummaries, error)
	asked     [][]byte
}

var _ validation.Oracle = (*poolOracle)(nil)

func newPoolOracle() *poolOracle { return &poolOracle{byHash: map[vm.H32]*types.Header{}} }

func (o *poolOracle) add(h *types.Header) { o.byHash[vm.H32(h.Hash())] = h }

func (o *poolOracle) GetBlockHeaderByHash(hash []byte) (*types.Header, error) {
	o.mu.Lock()
	o.asked = append(o.asked, append([]byte{}, hash...))
	o.mu.Unlock()
	if o.override != nil {
		return o.override(hash)
	}
	return o.lookup(hash)
}

func (o *poolOracle) lookup(hash []byte) (*types.Header, error) {
	if len(hash) != 32 {
		return nil, errNoSuchHeader
	}
	if h, ok := o.byHash[vm.H32(hash)]; ok {
		return types.CopyHeader(h), nil
	}
	return nil, errNoSuchHeader
}

func (o *poolOracle) GetHistoricalSummaries(epoch uint64) (capella.HistoricalSummaries, error) {
	if o.summaries != nil {
		return o.summaries(epoch)
	}
	return nil, errors.New("harness oracle: no summaries")
}

func (o *poolOracle) GetFinalizedStateRoot() ([]byte, error) {
	return nil, errors.New("harness oracle: no finalized state root")
}

// flakyOracle wraps a header source and can fail the next header lookup once (a time-out of the RPC).
// Validators are long-lived in production (one per network), so their verdict on an item must not
// depend on what they were asked before, nor on an earlier lookup having failed.
type flakyOracle struct {
	inner    validation.Oracle
	failNext bool
}

func (f *flakyOracle) GetHistoricalSummaries(epoch uint64) (capella.HistoricalSummaries, error) {
	return f.inner.GetHistoricalSummaries(epoch)
}

func (f *flakyOracle) GetBlockHeaderByHash(hash []byte) (*types.Header, error) {
	if f.failNext {
		f.failNext = false
		return nil, errors.New("harness oracle: injected lookup failure")
	}
	return f.inner.GetBlockHeaderByHash(hash)
}

func (f *flakyOracle) GetFinalizedStateRoot() ([]byte, error) { return f.inner.GetFinalizedStateRoot() }
