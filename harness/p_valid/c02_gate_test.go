package p_valid

// C02, end to end through history.Network: what reaches ContentStorage.Put.
// A batch of (key, content) items — as one element of the content queue — goes
// through Network.validateContents (hook VerifValidateContents) of a real
// history.Network over a constructed (never started) PortalProtocol whose
// storage records every Put. Everything that was stored must be an item of the
// batch that the reference calls bound, stored byte for byte under the content
// id of its key.

import (
	"bytes"
	"crypto/sha256"
	"fmt"
	"sync"
	"testing"

	"github.com/ethereum/go-ethereum/core/types"
	"github.com/holiman/uint256"
	"github.com/protolambda/zrnt/eth2/beacon/capella"
	"github.com/zen-eth/shisui/history"
	"github.com/zen-eth/shisui/portalwire"
	"github.com/zen-eth/shisui/storage"
	"github.com/zen-eth/shisui/validation"
	"pgregory.net/rapid"
	vm "verifharness/model/vmodel"
	"verifharness/pbt"
	"verifharness/pp"
	"verifharness/stats"
)

type c02GatePlan struct {
	Items     []c02Plan // Source fields are ignored: one header source per batch
	RPC       bool      // header source: real ValidationOracle over the honest scripted RPC instead of the harness oracle
	PreStored []bool    // item i's key already holds (other) content before the batch arrives
}

func genC02Gate(t *rapid.T) c02GatePlan {
	n := rapid.IntRange(1, 4).Draw(t, "n")
	p := c02GatePlan{RPC: rapid.Bool().Draw(t, "rpc")}
	for i := 0; i < n; i++ {
		it := genC02(t)
		it.Source, it.Garble = 0, 0
		if rapid.IntRange(0, 2).Draw(t, "plain") == 0 {
			it.Muts, it.Cross = nil, false
			it.ContKind = map[int]int{0: 0, 1: 1, 2: 2, 3: 0}[it.KeyKind]
		}
		p.Items = append(p.Items, it)
		p.PreStored = append(p.PreStored, rapid.IntRange(0, 7).Draw(t, "pre") == 0)
	}
	return p
}

// c02Materialize builds key and content of one plan (sources 0..4 only).
func c02Materialize(p c02Plan, g *genuinePool, c *stats.Case) (cs *c02Case, a, b *histBlock) {
	a = resolveBlock(g, p.KeyBlock, p.ContKind)
	b = resolveBlock(g, p.Other, p.ContKind)
	src, other := a, b
	if p.Cross {
		src, other = b, a
	}
	cs = &c02Case{}
	if p.KeyKind == 3 {
		cs.key = a.numberKey()
	} else {
		cs.key = a.hashKey(byte(p.KeyKind))
	}
	switch p.ContKind {
	case 0:
		cs.content = src.HeaderContent
	case 1:
		cs.content = src.Body
	default:
		cs.content = src.Receipts
	}
	for _, m := range p.Muts {
		c02Mutate(cs, m, p.ContKind, other, c)
	}
	return cs, a, b
}

// recStore is the ContentStorage of the protocol instance.
type recStore struct {
	mu   sync.Mutex
	db   map[string][]byte
	puts [][3][]byte
}

func (s *recStore) reset() {
	s.mu.Lock()
	s.db, s.puts = map[string][]byte{}, nil
	s.mu.Unlock()
}

func (s *recStore) Get(contentKey []byte, contentId []byte) ([]byte, error) {
	s.mu.Lock()
	defer s.mu.Unlock()
	if v, ok := s.db[string(contentId)]; ok {
		return v, nil
	}
	return nil, storage.ErrContentNotFound
}

func (s *recStore) Put(contentKey []byte, contentId []byte, content []byte) error {
	s.mu.Lock()
	defer s.mu.Unlock()
	s.db[string(contentId)] = append([]byte{}, content...)
	s.puts = append(s.puts, [3][]byte{append([]byte{}, contentKey...), append([]byte{}, contentId...), append([]byte{}, content...)})
	return nil
}

func (s *recStore) Radius() *uint256.Int { return uint256.NewInt(0).Not(uint256.NewInt(0)) }
func (s *recStore) Close() error         { return nil }

var (
	gateOnce  sync.Once
	gateStore *recStore
	gateProto *portalwire.PortalProtocol
	gateMu    sync.Mutex
)

func gateProtocol() (*portalwire.PortalProtocol, *recStore) {
	gateOnce.Do(func() {
		// (the history storage adapter only routes ephemeral-header keys to a pebble-backed store;
		// those keys never pass the validator, so the recording store sits directly below the protocol)
		gateStore = &recStore{db: map[string][]byte{}}
		gateProto = pp.Bare(7, nil, gateStore, portalwire.History)
	})
	return gateProto, gateStore
}

func runC02Gate(p c02GatePlan, c *stats.Case) error {
	if len(p.Items) == 0 || len(p.Items) > 8 {
		return nil
	}
	g, err := loadGenuine()
	if err != nil {
		stats.For("C02").Unhealthy("genuine vectors: " + err.Error())
		return nil
	}
	gateMu.Lock()
	defer gateMu.Unlock()
	proto, st := gateProtocol()
	st.reset()

	known := map[vm.H32]*types.Header{}
	for _, gb := range g.blocks {
		known[gb.Hash] = gb.Header
	}
	var keys, contents [][]byte
	headerContent := map[vm.H32][]byte{}
	for _, it := range p.Items {
		if it.KeyKind < 0 || it.KeyKind > 3 || it.ContKind < 0 || it.ContKind > 2 {
			return nil
		}
		for _, s := range []synthSpec{it.KeyBlock.Synth, it.Other.Synth} {
			if s.NTx < 0 || s.NTx > 200 || s.NRc < 0 || s.NRc > 200 || s.NWd < 0 || s.NWd > 64 || s.NUncles < 0 || s.NUncles > 8 || s.Era < 0 || s.Era > 3 {
				return nil
			}
		}
		cs, a, b := c02Materialize(it, g, c)
		if len(cs.key) < 2 {
			return nil // empty / selector-only keys: C01 (the history storage adapter indexes key[0])
		}
		known[a.Hash], known[b.Hash] = a.Header, b.Header
		headerContent[a.Hash], headerContent[b.Hash] = a.HeaderContent, b.HeaderContent
		keys = append(keys, cs.key)
		contents = append(contents, cs.content)
	}
	trueHeader := func(hash []byte) *types.Header {
		if len(hash) != 32 {
			return nil
		}
		return known[vm.H32(hash)]
	}
	pool := newPoolOracle()
	for _, h := range known {
		pool.add(h)
	}
	pool.summaries = func(uint64) (capella.HistoricalSummaries, error) {
		return capella.HistoricalSummaries(append([]capella.HistoricalSummary{}, g.summaries...)), nil
	}
	var oracle validation.Oracle = pool
	if p.RPC {
		srv := newScriptedPortal()
		defer srv.close()
		for _, gb := range g.blocks {
			srv.addHeaderContent(gb.Hash, gb.HeaderContent)
		}
		for h, hc := range headerContent {
			srv.addHeaderContent(h, hc)
		}
		srv.summaries = g.summaries
		oracle = validation.NewOracle(srv.client())
		c.Class("gate:rpc-source")
	}

	// reference verdict per item, and content already present
	bound := make([]bool, len(keys))
	pre := map[string][]byte{}
	for i := range keys {
		bound[i], _ = c02Reference(keys[i], contents[i], trueHeader, g.acc)
		if i < len(p.PreStored) && p.PreStored[i] {
			id := sha256.Sum256(keys[i])
			old := append([]byte("previously stored "), keys[i]...)
			st.db[string(id[:])] = old
			pre[string(id[:])] = old
		}
	}

	network := history.NewHistoryNetwork(proto, history.NewHistoryValidator(oracle))
	gerr, pan := call(func() error { return network.VerifValidateContents(keys, contents) })
	if pan != "" {
		return fmt.Errorf("Network.validateContents panicked: %s", pan)
	}

	// every Put must be a bound item of the batch, byte for byte, under its content id
	nBound, nStored := 0, 0
	for _, b := range bound {
		if b {
			nBound++
		}
	}
	for _, put := range st.puts {
		nStored++
		found := false
		for i := range keys {
			if bytes.Equal(put[0], keys[i]) && bytes.Equal(put[2], contents[i]) {
				id := sha256.Sum256(keys[i])
				if !bytes.Equal(put[1], id[:]) {
					return fmt.Errorf("item stored under id %x instead of sha256(key)", put[1][:6])
				}
				if !bound[i] {
					_, why := c02Reference(keys[i], contents[i], trueHeader, g.acc)
					return fmt.Errorf("content reached ContentStorage.Put under key %x... although it is not bound to it: %s", keys[i][:min(5, len(keys[i]))], why)
				}
				if _, was := pre[string(id[:])]; was {
					return fmt.Errorf("content already present under key %x... was overwritten", keys[i][:5])
				}
				found = true
				break
			}
		}
		if !found {
			return fmt.Errorf("ContentStorage.Put received (key %x..., %d bytes) which is no item of the batch", put[0][:min(5, len(put[0]))], len(put[2]))
		}
	}
	// a batch that passed must have been bound throughout (or already present)
	if gerr == nil {
		for i := range keys {
			id := sha256.Sum256(keys[i])
			_, was := pre[string(id[:])]
			for j := 0; j < i && !was; j++ {
				// the same key earlier in the batch: by the time item i is looked at, the key is present
				// and the gate skips it (it is neither validated nor stored)
				was = bytes.Equal(keys[j], keys[i]) && bound[j]
			}
			if !bound[i] && !was {
				return fmt.Errorf("batch passed validateContents although item %d is not bound to its key", i)
			}
			if !bound[i] && was {
				c.Class("gate:unbound-item-skipped-because-key-present")
			}
		}
		c.Class("gate:batch-passed")
	} else {
		c.Class("gate:batch-refused")
	}
	switch {
	case nStored > 0 && gerr != nil:
		c.NT("gate:partly-stored")
	case nStored > 0:
		c.NT("gate:stored")
	case nBound < len(keys):
		c.NT("gate:unbound-refused")
	}
	if len(pre) > 0 {
		c.Class("gate:key-already-present")
	}
	if len(keys) > 1 {
		c.Class("gate:multi-item-batch")
	}
	return nil
}

func TestC02_NetworkGate(t *testing.T) { pbt.Run(t, "C02", "gate", genC02Gate, runC02Gate) }
