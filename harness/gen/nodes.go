// Package gen holds generators and deterministic fixtures shared by the checks.
package gen

import (
	"crypto/ecdsa"
	"crypto/sha256"
	"encoding/binary"
	"math/big"
	"net"
	"sync"

	"github.com/ethereum/go-ethereum/crypto"
	"github.com/ethereum/go-ethereum/p2p/enode"
	"github.com/ethereum/go-ethereum/p2p/enr"
	"github.com/ethereum/go-ethereum/rlp"
)

var (
	keyMu   sync.Mutex
	keyPool = map[int]*ecdsa.PrivateKey{}
)

// Key returns the i-th key of a deterministic pool (same key for the same i in
// every process and run).
func Key(i int) *ecdsa.PrivateKey {
	keyMu.Lock()
	defer keyMu.Unlock()
	if k, ok := keyPool[i]; ok {
		return k
	}
	var buf [8]byte
	binary.BigEndian.PutUint64(buf[:], uint64(i))
	for ctr := 0; ; ctr++ {
		h := sha256.Sum256(append([]byte("verif-key-pool"), append(buf[:], byte(ctr))...))
		d := new(big.Int).SetBytes(h[:])
		if d.Sign() == 0 || d.Cmp(crypto.S256().Params().N) >= 0 {
			continue
		}
		k, err := crypto.ToECDSA(h[:])
		if err != nil {
			continue
		}
		keyPool[i] = k
		return k
	}
}

// NodeOpts describes a signed ENR.
type NodeOpts struct {
	KeyIdx   int
	Seq      uint64
	IP       net.IP // nil: no ip entry
	UDP      int    // 0: no udp entry
	Versions []byte // nil: no "pv" entry
	RawPV    bool   // store Versions under "pv" even when empty
	Pad      int    // extra bytes in a "zz" entry to grow the record
}

// SignedNode builds a v4-signed record.
func SignedNode(o NodeOpts) *enode.Node {
	var r enr.Record
	if o.IP != nil {
		r.Set(enr.IP(o.IP))
	}
	if o.UDP != 0 {
		r.Set(enr.UDP(o.UDP))
	}
	if o.Versions != nil || o.RawPV {
		r.Set(enr.WithEntry("pv", o.Versions))
	}
	if o.Pad > 0 {
		r.Set(enr.WithEntry("zz", make([]byte, o.Pad)))
	}
	r.SetSeq(o.Seq)
	if err := enode.SignV4(&r, Key(o.KeyIdx)); err != nil {
		panic(err)
	}
	n, err := enode.New(enode.ValidSchemes, &r)
	if err != nil {
		panic(err)
	}
	return n
}

// NullNode builds an unsigned ("null" scheme) record with an arbitrary id; only
// for consumers that never verify signatures (the routing table, lookups).
func NullNode(id enode.ID, ip net.IP, udp int, seq uint64) *enode.Node {
	var r enr.Record
	if ip != nil {
		r.Set(enr.IP(ip))
	}
	if udp != 0 {
		r.Set(enr.UDP(udp))
	}
	r.SetSeq(seq)
	return enode.SignNull(&r, id)
}

// IDAtLogDist returns base with bit flipped so that LogDist(base, result)==d
// (d in 1..256), lower bits taken from fill.
func IDAtLogDist(base enode.ID, d int, fill enode.ID) enode.ID {
	if d <= 0 {
		return base
	}
	out := base
	// bit index from the most significant: position p = 256-d
	p := 256 - d
	byteIdx, bit := p/8, uint(7-p%8)
	out[byteIdx] ^= 1 << bit
	// randomise everything below that bit
	for i := p + 1; i < 256; i++ {
		bi, b := i/8, uint(7-i%8)
		if fill[bi]&(1<<b) != 0 {
			out[bi] ^= 1 << b
		}
	}
	return out
}

// NullNodePadded is NullNode with the record grown to exactly size bytes of RLP
// (size <= 300, the ENR limit) when possible; size 0 means no padding.
func NullNodePadded(id enode.ID, ip net.IP, udp int, seq uint64, size int) *enode.Node {
	build := func(pad int) (n *enode.Node) {
		defer func() {
			if recover() != nil { // record larger than the 300-byte limit
				n = nil
			}
		}()
		var r enr.Record
		if ip != nil {
			r.Set(enr.IP(ip))
		}
		if udp != 0 {
			r.Set(enr.UDP(udp))
		}
		if pad >= 0 {
			r.Set(enr.WithEntry("zz", make([]byte, pad)))
		}
		r.SetSeq(seq)
		return enode.SignNull(&r, id)
	}
	if size <= 0 {
		return build(-1)
	}
	best := build(-1)
	lo, hi := 0, 280 // binary search for the largest pad whose record is <= size
	for lo <= hi {
		mid := (lo + hi) / 2
		n := build(mid)
		if n != nil && RecordSize(n) <= size && RecordSize(n) <= 300 {
			best = n
			lo = mid + 1
		} else {
			hi = mid - 1
		}
	}
	return best
}

// RecordSize is the RLP size of a node's record.
func RecordSize(n *enode.Node) int {
	b, err := rlp.EncodeToBytes(n.Record())
	if err != nil {
		return -1
	}
	return len(b)
}
