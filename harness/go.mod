module verifharness

go 1.24.2

replace github.com/zen-eth/shisui => /repo

replace github.com/protolambda/zrnt v0.34.1 => github.com/optimism-java/zrnt v0.32.4-0.20250528142456-bc543d07ddb2

require (
	github.com/OffchainLabs/go-bitfield v0.0.0-20250408211841-ad7364de91a5
	github.com/VictoriaMetrics/fastcache v1.12.4
	github.com/aws/smithy-go v1.22.3
	github.com/cockroachdb/pebble v1.1.5
	github.com/ethereum/go-ethereum v1.15.8
	github.com/felixge/fgprof v0.9.5
	github.com/ferranbt/fastssz v0.1.4
	github.com/go-pkgz/expirable-cache/v3 v3.0.0
	github.com/golang/snappy v1.0.0
	github.com/hashicorp/go-bexpr v0.1.14
	github.com/holiman/uint256 v1.3.2
	github.com/mattn/go-colorable v0.1.14
	github.com/mattn/go-isatty v0.0.20
	github.com/mattn/go-sqlite3 v1.14.28
	github.com/panjf2000/ants/v2 v2.11.3
	github.com/panjf2000/gnet/v2 v2.8.0
	github.com/protolambda/bls12-381-util v0.1.0
	github.com/protolambda/zrnt v0.34.1
	github.com/protolambda/ztyp v0.2.2
	github.com/stretchr/testify v1.10.0
	github.com/tetratelabs/wabin v0.0.0-20230304001439-f6f874872834
	github.com/urfave/cli/v2 v2.27.6
	github.com/zen-eth/utp-go v0.0.0-20250517113239-5d962dd66394
	go.uber.org/automaxprocs v1.6.0
	golang.org/x/exp v0.0.0-20250408133849-7e4ce0ab07d0
	golang.org/x/sync v0.14.0
	golang.org/x/text v0.25.0
	gopkg.in/natefinch/lumberjack.v2 v2.2.1
	gopkg.in/yaml.v2 v2.4.0
	gopkg.in/yaml.v3 v3.0.1
)

require (
	github.com/DataDog/zstd v1.5.6 // indirect
	github.com/Microsoft/go-winio v0.6.2 // indirect
	github.com/StackExchange/wmi v1.2.1 // indirect
	github.com/beorn7/perks v1.0.1 // indirect
	github.com/bits-and-blooms/bitset v1.20.0 // indirect
	github.com/cespare/xxhash/v2 v2.3.0 // indirect
	github.com/cockroachdb/errors v1.11.3 // indirect
	github.com/cockroachdb/fifo v0.0.0-20240816210425-c5d0cb0b6fc0 // indirect
	github.com/cockroachdb/logtags v0.0.0-20230118201751-21c54148d20b // indirect
	github.com/cockroachdb/redact v1.1.5 // indirect
	github.com/cockroachdb/tokenbucket v0.0.0-20230807174530-cc333fc44b06 // indirect
	github.com/consensys/bavard v0.1.27 // indirect
	github.com/consensys/gnark-crypto v0.16.0 // indirect
	github.com/cpuguy83/go-md2man/v2 v2.0.5 // indirect
	github.com/crate-crypto/go-eth-kzg v1.3.0 // indirect
	github.com/crate-crypto/go-ipa v0.0.0-20240724233137-53bbb0ceb27a // indirect
	github.com/davecgh/go-spew v1.1.2-0.20180830191138-d8f796af33cc // indirect
	github.com/deckarep/golang-set/v2 v2.6.0 // indirect
	github.com/decred/dcrd/dcrec/secp256k1/v4 v4.0.1 // indirect
	github.com/deepmap/oapi-codegen v1.6.0 // indirect
	github.com/emicklei/dot v1.6.3 // indirect
	github.com/ethereum/c-kzg-4844/v2 v2.1.0 // indirect
	github.com/ethereum/go-verkle v0.2.2 // indirect
	github.com/getsentry/sentry-go v0.29.1 // indirect
	github.com/go-ole/go-ole v1.3.0 // indirect
	github.com/gofrs/flock v0.8.1 // indirect
	github.com/gogo/protobuf v1.3.2 // indirect
	github.com/google/btree v1.1.3 // indirect
	github.com/google/pprof v0.0.0-20240227163752-401108e1b7e7 // indirect
	github.com/gorilla/websocket v1.5.0 // indirect
	github.com/holiman/bloomfilter/v2 v2.0.3 // indirect
	github.com/huin/goupnp v1.3.0 // indirect
	github.com/influxdata/influxdb-client-go/v2 v2.4.0 // indirect
	github.com/influxdata/influxdb1-client v0.0.0-20220302092344-a9ab5670611c // indirect
	github.com/influxdata/line-protocol v0.0.0-20200327222509-2487e7298839 // indirect
	github.com/jackpal/go-nat-pmp v1.0.2 // indirect
	github.com/klauspost/compress v1.17.11 // indirect
	github.com/klauspost/cpuid/v2 v2.2.9 // indirect
	github.com/kr/pretty v0.3.1 // indirect
	github.com/kr/text v0.2.0 // indirect
	github.com/mattn/go-runewidth v0.0.15 // indirect
	github.com/minio/sha256-simd v1.0.1 // indirect
	github.com/mitchellh/mapstructure v1.5.0 // indirect
	github.com/mitchellh/pointerstructure v1.2.1 // indirect
	github.com/mmcloughlin/addchain v0.4.0 // indirect
	github.com/munnerz/goautoneg v0.0.0-20191010083416-a7dc8b61c822 // indirect
	github.com/olekukonko/tablewriter v0.0.5 // indirect
	github.com/pion/dtls/v2 v2.2.12 // indirect
	github.com/pion/logging v0.2.2 // indirect
	github.com/pion/stun/v2 v2.0.0 // indirect
	github.com/pion/transport/v2 v2.2.4 // indirect
	github.com/pion/transport/v3 v3.0.1 // indirect
	github.com/pkg/errors v0.9.1 // indirect
	github.com/pmezard/go-difflib v1.0.1-0.20181226105442-5d4384ee4fb2 // indirect
	github.com/prometheus/client_golang v1.20.5 // indirect
	github.com/prometheus/client_model v0.6.1 // indirect
	github.com/prometheus/common v0.60.1 // indirect
	github.com/prometheus/procfs v0.15.1 // indirect
	github.com/rivo/uniseg v0.2.0 // indirect
	github.com/rogpeppe/go-internal v1.13.1 // indirect
	github.com/russross/blackfriday/v2 v2.1.0 // indirect
	github.com/shirou/gopsutil v3.21.4-0.20210419000835-c7a38de76ee5+incompatible // indirect
	github.com/supranational/blst v0.3.14 // indirect
	github.com/syndtr/goleveldb v1.0.1-0.20210819022825-2ae1ddf74ef7 // indirect
	github.com/tklauser/go-sysconf v0.3.14 // indirect
	github.com/tklauser/numcpus v0.9.0 // indirect
	github.com/valyala/bytebufferpool v1.0.0 // indirect
	github.com/valyala/fastrand v1.1.0 // indirect
	github.com/xrash/smetrics v0.0.0-20240521201337-686a1a2994c1 // indirect
	go.uber.org/multierr v1.11.0 // indirect
	go.uber.org/zap v1.27.0 // indirect
	golang.org/x/net v0.38.0 // indirect
	golang.org/x/sys v0.33.0 // indirect
	google.golang.org/protobuf v1.35.2 // indirect
	rsc.io/tmplfunc v0.0.3 // indirect
)

replace github.com/ethereum/go-ethereum => github.com/optimism-java/shisui v1.14.6-0.20250516133529-e5d979e5825f

require (
	github.com/kilic/bls12-381 v0.1.0
	github.com/zen-eth/shisui v0.0.0
	golang.org/x/crypto v0.36.0
	pgregory.net/rapid v1.3.0
)
