// Package pbt is the common shape of every check in this harness:
//
//	draw a plan (entirely from rapid generators) -> execute the plan -> judge
//
// The plan is plain data. On failure rapid shrinks it as one value, the minimal
// plan is written to /verif/replays/<ID>-<check>-<digest>.json, and
// `verif replay` re-executes that file through the same run function without
// rapid (VERIF_REPLAY=<file>).
package pbt

import (
	"bytes"
	"encoding/json"
	"fmt"
	"io"
	"log/slog"
	"os"
	"path/filepath"
	"runtime/debug"
	"strconv"
	"strings"
	"sync"
	"testing"

	"github.com/ethereum/go-ethereum/log"
	"pgregory.net/rapid"
	"verifharness/stats"
)

func init() {
	// The code under test logs at Info per request; discard everything.
	log.SetDefault(log.NewLogger(slog.NewTextHandler(io.Discard, &slog.HandlerOptions{Level: slog.Level(100)})))
}

// Main is used as TestMain body by every package.
func Main(m *testing.M) {
	code := m.Run()
	stats.Flush()
	os.Exit(code)
}

type replayFile struct {
	Property string          `json:"property"`
	Check    string          `json:"check"`
	Error    string          `json:"error"`
	Plan     json.RawMessage `json:"plan"`
}

func verifDir() string {
	if d := os.Getenv("VERIF_DIR"); d != "" {
		return d
	}
	return "/verif"
}

func replayDir() string {
	if d := os.Getenv("VERIF_REPLAY_DIR"); d != "" {
		return d
	}
	return filepath.Join(verifDir(), "replays")
}

// Tier reports "quick" or "thorough".
func Tier() string {
	if os.Getenv("VERIF_TIER") == "thorough" {
		return "thorough"
	}
	return "quick"
}

// Thorough picks a size by tier.
func Thorough[T any](quick, thorough T) T {
	if Tier() == "thorough" {
		return thorough
	}
	return quick
}

// SafeCall runs f and converts a panic of the calling goroutine to an error.
func SafeCall(f func() error) (err error) {
	defer func() {
		if r := recover(); r != nil {
			err = fmt.Errorf("panic: %v\n%s", r, trimStack(debug.Stack()))
		}
	}()
	return f()
}

func trimStack(b []byte) string {
	lines := strings.Split(string(b), "\n")
	if len(lines) > 40 {
		lines = lines[:40]
	}
	return strings.Join(lines, "\n")
}

var (
	afterMu   sync.Mutex
	afterCase []func()
)

// AfterCase registers a function that runs after every executed case (resource cleanup of helper packages).
func AfterCase(f func()) {
	afterMu.Lock()
	afterCase = append(afterCase, f)
	afterMu.Unlock()
}

func runAfterCase() {
	afterMu.Lock()
	fs := append([]func(){}, afterCase...)
	afterMu.Unlock()
	for _, f := range fs {
		f()
	}
}

type lastFail struct {
	mu   sync.Mutex
	plan []byte // the last failing plan (as marshalled after the run)
	pre  []byte // the same plan as marshalled before the run (what a later attempt is compared with)
	err  string
	n    int // executions since the first failure (shrinking)
}

// shrinkBudget bounds the number of executions rapid may spend on shrinking one failure. Checks that open
// sockets cannot give their memory back (the uTP library keeps ~16 MB per socket), and a failing case that
// fails fast would otherwise be re-executed thousands of times within rapid's shrink time.
func shrinkBudget() int {
	if v, err := strconv.Atoi(os.Getenv("VERIF_SHRINK_EXEC")); err == nil && v > 0 {
		return v
	}
	return 2000
}

// SaveReplay writes a replay file and returns its path.
func SaveReplay(id, check string, plan any, errMsg string) string {
	pb, err := json.Marshal(plan)
	if err != nil {
		pb = []byte(fmt.Sprintf("%q", fmt.Sprintf("%#v", plan)))
	}
	return saveReplayRaw(id, check, pb, errMsg)
}

func saveReplayRaw(id, check string, pb []byte, errMsg string) string {
	rf := replayFile{Property: id, Check: check, Error: errMsg, Plan: pb}
	out, _ := json.MarshalIndent(rf, "", " ")
	dir := replayDir()
	_ = os.MkdirAll(dir, 0o755)
	path := filepath.Join(dir, fmt.Sprintf("%s-%s-%016x.json", id, check, stats.DigestBytes(pb)))
	if err := os.WriteFile(path, out, 0o644); err != nil {
		fmt.Fprintf(os.Stderr, "cannot write replay %s: %v\n", path, err)
	}
	return path
}

// ReportViolation prints the interface line and records it.
func ReportViolation(id, msg, replay string) {
	first := msg
	if i := strings.IndexByte(first, '\n'); i >= 0 {
		first = first[:i]
	}
	fmt.Printf("VIOLATION property=%s replay=%s\n", id, replay)
	fmt.Printf("  detail: %s\n", first)
	stats.For(id).Violation(msg, replay)
}

// Run drives one plan-first property check named `check` of property `id`.
//
//	gen  draws the whole plan; it must not touch the code under test.
//	run  executes and judges; a non-nil error (or a panic) is a violation.
//	     It fills in the Case (non-trivial? classes).
func Run[P any](t *testing.T, id, check string, gen func(*rapid.T) P, run func(P, *stats.Case) error) {
	rec := stats.For(id)
	if rp := os.Getenv("VERIF_REPLAY"); rp != "" {
		b, err := os.ReadFile(rp)
		if err != nil {
			t.Fatalf("replay: %v", err)
		}
		var rf replayFile
		if err := json.Unmarshal(b, &rf); err != nil {
			t.Fatalf("replay: %v", err)
		}
		if rf.Property != id || rf.Check != check {
			t.Skip("replay file is for another check")
		}
		var p P
		if err := json.Unmarshal(rf.Plan, &p); err != nil {
			t.Fatalf("replay: plan does not decode: %v", err)
		}
		c := &stats.Case{}
		err = SafeCall(func() error { return run(p, c) })
		runAfterCase()
		rec.Commit(c, stats.DigestBytes(rf.Plan), func() any { return json.RawMessage(rf.Plan) })
		if err != nil {
			ReportViolation(id, err.Error(), rp)
			t.Errorf("replay %s: %v", rp, err)
		} else {
			fmt.Printf("REPLAY-OK property=%s check=%s file=%s\n", id, check, rp)
		}
		return
	}

	lf := &lastFail{}
	// rapid.Check ends a failed test with FailNow (Goexit), so the report is deferred.
	defer func() {
		if !t.Failed() {
			return
		}
		lf.mu.Lock()
		defer lf.mu.Unlock()
		if lf.plan != nil {
			path := saveReplayRaw(id, check, lf.plan, lf.err)
			ReportViolation(id, lf.err, path)
		} else {
			// rapid itself failed (e.g. generator could not produce values).
			rec.Unhealthy(check + ": rapid failed without a property failure")
		}
	}()
	budget := shrinkBudget()
	rapid.Check(t, func(rt *rapid.T) {
		p := gen(rt)
		pre, _ := json.Marshal(p)
		lf.mu.Lock()
		if lf.plan != nil {
			lf.n++
			if lf.n > budget {
				// shrink budget used up: the plan rapid settled on fails as recorded, every other attempt
				// counts as "does not fail", so the shrinker stops making progress and ends
				same, msg := bytes.Equal(pre, lf.pre), lf.err
				lf.mu.Unlock()
				if same {
					rt.Fatalf("%s/%s: %v", id, check, msg)
				}
				return
			}
		}
		lf.mu.Unlock()
		c := &stats.Case{}
		err := SafeCall(func() error { return run(p, c) })
		runAfterCase()
		pb, _ := json.Marshal(p)
		rec.Commit(c, stats.DigestBytes(pb), func() any { return clip(pb) })
		if err != nil {
			lf.mu.Lock()
			lf.plan, lf.pre, lf.err = pb, pre, err.Error()
			lf.mu.Unlock()
			rt.Fatalf("%s/%s: %v", id, check, err)
		}
	})
}

// clip keeps samples readable: a plan larger than 2 KiB is cut.
func clip(pb []byte) any {
	if len(pb) <= 2048 {
		return json.RawMessage(pb)
	}
	return string(pb[:2048]) + fmt.Sprintf("...(%d bytes)", len(pb))
}

// ---------------------------------------------------------------------------
// known findings

type Finding struct {
	Property  string `json:"property"`
	ID        string `json:"id"`
	Status    string `json:"status"` // "open" | "fixed"
	Commit    string `json:"commit,omitempty"`
	CallSite  string `json:"call_site"`
	WhatFails string `json:"what_fails"`
}

var (
	kfOnce sync.Once
	kf     map[string]Finding
)

func loadFindings() {
	kf = map[string]Finding{}
	path := os.Getenv("VERIF_KNOWN")
	if path == "" {
		path = filepath.Join(verifDir(), "known_findings.json")
	}
	defer loadFragments()
	b, err := os.ReadFile(path)
	if err != nil {
		return
	}
	var file struct {
		Findings []Finding `json:"findings"`
	}
	if err := json.Unmarshal(b, &file); err != nil {
		fmt.Fprintf(os.Stderr, "known_findings.json: %v\n", err)
		return
	}
	for _, f := range file.Findings {
		kf[f.ID] = f
	}
}

// fragments: /verif/known/<finding>.json, one Finding object each (merged into
// known_findings.json by the integrator; read here so work in progress counts).
func loadFragments() {
	files, _ := filepath.Glob(filepath.Join(verifDir(), "known", "*.json"))
	for _, fn := range files {
		b, err := os.ReadFile(fn)
		if err != nil {
			continue
		}
		var f Finding
		if json.Unmarshal(b, &f) == nil && f.ID != "" {
			kf[f.ID] = f
		}
	}
}

// KnownOpen reports whether finding `fid` is listed as open. Only then may a
// classifier exclude the matching observation.
func KnownOpen(fid string) bool {
	kfOnce.Do(loadFindings)
	f, ok := kf[fid]
	return ok && f.Status == "open"
}

// HitKnown records a reproduction of an open known finding for property id.
func HitKnown(id, fid string) {
	kfOnce.Do(loadFindings)
	f := kf[fid]
	stats.For(id).Known(fid, f.WhatFails)
}
