package p_beacon

// C12 (c): the store reached through the client's own entry points. A harness
// ConsensusAPI serves a synthetic bootstrap (right / wrong checkpoint root, right
// / wrong current-committee branch, every container) and then updates; Sync()
// and Advance() of the real client consume them.
//
// The entry points fetch several objects before applying them and expose no
// intermediate state, so the per-update oracle runs on a SHADOW client (same
// code, store set to what the bootstrap must have produced, objects verified and
// applied one by one through the public Verify*/Apply* calls with the full
// oracle of step()); the real client must end in the same store and report an
// error exactly when the shadow met a rejected object.

import (
	"errors"
	"fmt"
	"testing"

	"github.com/protolambda/zrnt/eth2/beacon/altair"
	"github.com/protolambda/zrnt/eth2/beacon/capella"
	"github.com/protolambda/zrnt/eth2/beacon/common"
	"github.com/protolambda/zrnt/eth2/beacon/deneb"
	"github.com/protolambda/zrnt/eth2/beacon/electra"
	"github.com/protolambda/ztyp/tree"
	"github.com/zen-eth/shisui/beacon"
	"pgregory.net/rapid"
	"verifharness/model"
	"verifharness/pbt"
	"verifharness/stats"
)

type bootSpec struct {
	Container  int  // 0 electra, 1 deneb, 2 capella, 3 altair
	Checkpoint int  // 0 root of the beacon header (right), 1 root of the light-client header container, 2 arbitrary, 3 root of the header one slot later, 4 zero
	Layout     int  // six-element branch: 0 five siblings + zero, 1 five siblings + arbitrary, 2 zero + five siblings (normalized), 3 depth-6 tree (gindex 86)
	BranchMut  int  // -1 none, else index of the flipped branch node
	ComMut     int  // 0 none, 1 one key replaced, 2 aggregate key replaced, 3 another committee than the state commits to, 4 another committee, state commits to it, 5 the state's next committee with the next-committee branch
	Pos, Alt   int  // details of ComMut
	Strict     bool // StrictCheckpointAge
	ShortAge   bool // MaxCheckpointAge of 14 days (all synthetic checkpoints are years old)
	Seed       uint32
}

type advSpec struct {
	Fin, Opt, Upd updSpec
}

type syncPlan struct {
	Store   storeSpec // Period / FinOff of the bootstrap header
	Boot    bootSpec
	Portal  bool // API.Name() == "portal": updates fetched period by period
	Updates []updSpec
	Fin     updSpec
	Opt     updSpec
	Rounds  []advSpec // Advance() calls after a successful Sync()
}

// ---------------------------------------------------------------------------

type fakeAPI struct {
	name      string
	bootstrap common.SpecObj
	updates   []common.SpecObj
	fin, opt  common.SpecObj
	prepare   func() error // runs once, at the first request after the bootstrap
	prepared  bool
	prepErr   error
	nBoot     int
	nUpdates  int
	nFin      int
	nOpt      int
}

var _ beacon.ConsensusAPI = (*fakeAPI)(nil)

func (a *fakeAPI) prep() error {
	if !a.prepared && a.prepare != nil {
		a.prepared = true
		a.prepErr = a.prepare()
	}
	return a.prepErr
}

func (a *fakeAPI) GetBootstrap(common.Root) (common.SpecObj, error) {
	a.nBoot++
	if a.bootstrap == nil {
		return nil, errors.New("no bootstrap")
	}
	return a.bootstrap, nil
}

func (a *fakeAPI) GetUpdates(_, _ uint64) ([]common.SpecObj, error) {
	a.nUpdates++
	if err := a.prep(); err != nil {
		return nil, err
	}
	u := a.updates
	a.updates = nil
	if u == nil {
		u = []common.SpecObj{}
	}
	return u, nil
}

func (a *fakeAPI) GetFinalityUpdate() (common.SpecObj, error) {
	a.nFin++
	if err := a.prep(); err != nil {
		return nil, err
	}
	if a.fin == nil {
		return nil, errors.New("harness: no finality update planned")
	}
	return a.fin, nil
}

func (a *fakeAPI) GetOptimisticUpdate() (common.SpecObj, error) {
	a.nOpt++
	if err := a.prep(); err != nil {
		return nil, err
	}
	if a.opt == nil {
		return nil, errors.New("harness: no optimistic update planned")
	}
	return a.opt, nil
}

func (a *fakeAPI) ChainID() uint64 { return 1 }
func (a *fakeAPI) Name() string    { return a.name }

// ---------------------------------------------------------------------------

func fold(leaf model.Root, branch []model.Root, depth int, index uint64) model.Root {
	v := leaf
	for i := 0; i < depth; i++ {
		if (index>>uint(i))&1 == 1 {
			v = model.HashPair(branch[i], v)
		} else {
			v = model.HashPair(v, branch[i])
		}
	}
	return v
}

type builtBootstrap struct {
	obj        common.SpecObj
	header     model.LCHeader
	served     *committee // committee object inside the bootstrap
	branch     []model.Root
	checkpoint model.Root
}

func buildBootstrap(p syncPlan) builtBootstrap {
	b := p.Boot
	period := worldPeriod(p.Store)
	slot := period*model.LCSlotsPerPeriod + uint64(p.Store.FinOff)
	inState := committeeOfPeriod(period) // what the state commits to
	served := inState
	repl := garbageKey
	if b.Alt%3 != 0 {
		repl = (b.Alt*131 + b.Pos) % poolSize
	}
	switch b.ComMut {
	case 1:
		served = variantCommittee(inState, b.Pos%512, repl, -1)
	case 2:
		served = variantCommittee(inState, -1, 0, b.Alt*131+b.Pos)
	case 3:
		served = committeeOfPeriod(period + 1)
	case 4:
		inState = committeeOfPeriod(period + bootShift(b)) // a different chain: every committee shifted
		served = inState
	case 5:
		served = committeeOfPeriod(period + 1) // the state's NEXT committee, served with its own valid branch
	}
	six := b.Container == 0
	var stateRoot model.Root
	var branch []model.Root
	if six && b.Layout == 3 {
		branch = make([]model.Root, 6)
		for i := range branch {
			branch[i] = rnd(b.Seed, 20+i)
		}
		stateRoot = fold(inState.root, branch, model.LCCurSyncDepthElc, model.LCCurSyncIndex)
	} else {
		st := model.LCState{FinalizedRoot: rnd(b.Seed, 11), CurrentCommittee: inState.root, NextCommittee: committeeOfPeriod(period + 1 + bootShift(b)).root,
			G104: rnd(b.Seed, 12), G53: rnd(b.Seed, 13), G12: rnd(b.Seed, 14), G7: rnd(b.Seed, 15), G2: rnd(b.Seed, 16)}
		stateRoot = st.Root()
		five := st.CurrentCommitteeBranch()
		if b.ComMut == 5 {
			five = st.NextCommitteeBranch()
		}
		switch {
		case !six:
			branch = five
		case b.Layout == 2:
			branch = append([]model.Root{{}}, five...)
		case b.Layout == 1:
			branch = append(append([]model.Root{}, five...), rnd(b.Seed, 17))
		default:
			branch = append(append([]model.Root{}, five...), model.Root{})
		}
	}
	if b.BranchMut >= 0 {
		k := b.BranchMut % len(branch)
		branch[k] = flipRoot(branch[k], b.Alt)
	}
	hdr := model.LCHeader{Slot: slot, Proposer: uint64(b.Seed % 991), Parent: rnd(b.Seed, 18), State: stateRoot, Body: rnd(b.Seed, 19)}
	out := builtBootstrap{header: hdr, served: served, branch: branch}
	zh := zHeader(hdr)
	var five altair.SyncCommitteeProofBranch
	var sixB electra.CurrentSyncCommitteeBranch
	for i := range branch {
		if six {
			sixB[i] = common.Root(branch[i])
		} else {
			five[i] = common.Root(branch[i])
		}
	}
	var lcHeaderRoot model.Root
	switch b.Container {
	case 0:
		o := &electra.LightClientBootstrap{Header: deneb.LightClientHeader{Beacon: zh}, CurrentSyncCommittee: *served.zrnt(), CurrentSyncCommitteeBranch: sixB}
		lcHeaderRoot = model.Root(o.Header.HashTreeRoot(tree.GetHashFn()))
		out.obj = o
	case 1:
		o := &deneb.LightClientBootstrap{Header: deneb.LightClientHeader{Beacon: zh}, CurrentSyncCommittee: *served.zrnt(), CurrentSyncCommitteeBranch: five}
		lcHeaderRoot = model.Root(o.Header.HashTreeRoot(tree.GetHashFn()))
		out.obj = o
	case 2:
		o := &capella.LightClientBootstrap{Header: capella.LightClientHeader{Beacon: zh}, CurrentSyncCommittee: *served.zrnt(), CurrentSyncCommitteeBranch: five}
		lcHeaderRoot = model.Root(o.Header.HashTreeRoot(tree.GetHashFn()))
		out.obj = o
	default:
		o := &altair.LightClientBootstrap{Header: altair.LightClientHeader{Beacon: zh}, CurrentSyncCommittee: *served.zrnt(), CurrentSyncCommitteeBranch: five}
		lcHeaderRoot = model.Root(o.Header.HashTreeRoot(tree.GetHashFn()))
		out.obj = o
	}
	switch b.Checkpoint {
	case 0:
		out.checkpoint = hdr.Root()
	case 1:
		out.checkpoint = lcHeaderRoot // differs from the block root for capella+ headers
	case 2:
		out.checkpoint = rnd(b.Seed, 30)
	case 3:
		h2 := hdr
		h2.Slot++
		out.checkpoint = h2.Root()
	}
	return out
}

func bootShift(b bootSpec) uint64 {
	if b.ComMut == 4 {
		return 1 + uint64(b.Alt%3)
	}
	return 0
}

// shadowRun verifies+applies the planned steps one by one on the shadow client
// (stopping at the first rejected one, like every caller does) and returns the
// objects to serve to the real client.
func shadowRun(shadow *beacon.ConsensusLightClient, steps []updSpec, cs *stats.Case, prov *provenance, tag string) (objs []common.SpecObj, allAccepted bool, err error) {
	allAccepted = true
	for i, u := range steps {
		r, err := step(shadow, u, cs, prov, fmt.Sprintf("%s[%d] (shadow)", tag, i))
		if err != nil {
			return nil, false, err
		}
		objs = append(objs, r.cu.specObj()) // a fresh object: the store keeps pointers into it
		if !r.accepted {
			return objs, false, nil
		}
	}
	return objs, true, nil
}

func runSyncPlan(p syncPlan, cs *stats.Case) error {
	bb := buildBootstrap(p)
	api := &fakeAPI{name: "mock", bootstrap: bb.obj}
	if p.Portal {
		api.name = "portal"
		cs.Class("sync:api=portal")
	}
	maxAge := uint64(1) << 62
	if p.Boot.ShortAge {
		maxAge = 1_209_600
	}
	c := newClient(api, bb.checkpoint, p.Boot.Strict, maxAge)

	rootOK := bb.checkpoint == bb.header.Root()
	branchOK := model.LCBootstrapBranchValid(bb.served.root, bb.branch, bb.header.State)
	cs.Class(fmt.Sprintf("boot:container=%d", p.Boot.Container))
	cs.Class(fmt.Sprintf("boot:checkpoint=%d", p.Boot.Checkpoint))
	if !rootOK {
		cs.Class("boot:wrong-checkpoint-root")
	}
	if !branchOK {
		cs.Class("boot:wrong-committee-branch")
	}

	var shadow *beacon.ConsensusLightClient
	var prov *provenance
	var shadowOK bool
	var nServedUpdates int
	var finServed, optServed bool
	api.prepare = func() error {
		// first request after a bootstrap the client accepted
		snap, err := snapshot(c)
		if err != nil {
			return fmt.Errorf("after bootstrap: %v", err)
		}
		if !snap.Set {
			return fmt.Errorf("the client asked for updates with an unset store")
		}
		if !rootOK || !branchOK {
			return fmt.Errorf("bootstrap accepted although rootMatchesCheckpoint=%v committeeBranchValid=%v (container=%d checkpointMode=%d layout=%d branchMut=%d comMut=%d)",
				rootOK, branchOK, p.Boot.Container, p.Boot.Checkpoint, p.Boot.Layout, p.Boot.BranchMut, p.Boot.ComMut)
		}
		if snap.FinRoot != bb.checkpoint || snap.OptSlot < snap.FinSlot {
			return fmt.Errorf("after bootstrap the finalized header is not the trusted checkpoint block (fin slot %d, opt slot %d)", snap.FinSlot, snap.OptSlot)
		}
		if snap.Cur != bb.served.root || snap.NextKnown {
			return fmt.Errorf("after bootstrap the store holds committees other than the proven current committee")
		}
		// shadow client with the same store, built from harness objects
		shadow = newClient(nil, bb.checkpoint, false, 1<<62)
		setStore(shadow, storeSpec{Period: p.Store.Period, FinOff: p.Store.FinOff, Future: p.Store.Future}, bb.served, nil)
		zh := zHeader(bb.header)
		shadow.Store.FinalizedHeader, shadow.Store.OptimisticHeader = &zh, &zh
		s0, _ := snapshot(shadow)
		if s0 != snap {
			return fmt.Errorf("after bootstrap the store differs from {finalized=optimistic=bootstrap header, current=bootstrap committee}: %+v vs %+v", snap, s0)
		}
		prov = newProvenance(s0)
		prov.shift = bootShift(p.Boot)
		steps := append(append([]updSpec{}, p.Updates...), p.Fin, p.Opt)
		objs, ok, err := shadowRun(shadow, steps, cs, prov, "sync")
		if err != nil {
			return err
		}
		shadowOK = ok
		nu := len(p.Updates)
		if len(objs) <= nu {
			api.updates = objs
		} else {
			api.updates = objs[:nu]
			api.fin = objs[nu]
			finServed = true
			if len(objs) > nu+1 {
				api.opt = objs[nu+1]
				optServed = true
			}
		}
		nServedUpdates = len(api.updates)
		return nil
	}

	serr := c.Sync()
	if api.prepErr != nil {
		return api.prepErr
	}
	end, err := snapshot(c)
	if err != nil {
		return err
	}
	if !api.prepared {
		// bootstrap refused
		cs.Class("sync:bootstrap-rejected")
		if rootOK && branchOK {
			cs.Class(fmt.Sprintf("sync:valid-bootstrap-rejected:container=%d,layout=%d,strict=%v,shortAge=%v", p.Boot.Container, p.Boot.Layout, p.Boot.Strict, p.Boot.ShortAge))
		} else {
			cs.NT("sync:invalid-bootstrap-rejected")
		}
		if serr == nil {
			return fmt.Errorf("Sync() reported success although the bootstrap was not accepted")
		}
		if end.Set || c.Store.FinalizedHeader != nil || c.Store.OptimisticHeader != nil || c.Store.CurrentSyncCommittee != nil || c.Store.NextSyncCommittee != nil {
			return fmt.Errorf("a failed bootstrap left the store set (%v)", serr)
		}
		if api.nUpdates+api.nFin+api.nOpt != 0 {
			return fmt.Errorf("after a failed bootstrap the client went on to fetch updates")
		}
		return nil
	}
	cs.NT("sync:bootstrap-accepted")
	want, _ := snapshot(shadow)
	if shadowOK != (serr == nil) {
		return fmt.Errorf("Sync() returned %v, but verifying and applying the same %d objects one by one gives allAccepted=%v", serr, nServedUpdates+2, shadowOK)
	}
	if end != want {
		return fmt.Errorf("Sync() left the store at fin=%d opt=%d nextKnown=%v, verifying and applying the same objects one by one gives fin=%d opt=%d nextKnown=%v (committees equal: %v)",
			end.FinSlot, end.OptSlot, end.NextKnown, want.FinSlot, want.OptSlot, want.NextKnown, end.Cur == want.Cur && end.Next == want.Next)
	}
	if (api.nFin > 0) != finServed && shadowOK {
		return fmt.Errorf("Sync() fetched finality update: %v, expected %v", api.nFin > 0, finServed)
	}
	_ = optServed
	if serr != nil {
		cs.Class("sync:aborted-at-rejected-update")
		return nil
	}
	cs.NT("sync:completed")

	// Advance() rounds
	for i, r := range p.Rounds {
		tag := fmt.Sprintf("advance %d", i)
		steps := []updSpec{r.Fin, r.Opt}
		objs, ok, err := shadowRun(shadow, steps, cs, prov, tag)
		if err != nil {
			return err
		}
		api.fin, api.opt, api.updates = nil, nil, nil
		api.fin = objs[0]
		if len(objs) > 1 {
			api.opt = objs[1]
		}
		if ok && shadow.Store.NextSyncCommittee == nil {
			// the client will look for the period's update
			u := r.Upd
			u.Kind = kindFull
			o2, ok2, err := shadowRun(shadow, []updSpec{u}, cs, prov, tag+" committee-update")
			if err != nil {
				return err
			}
			api.updates, ok = o2, ok2
			cs.Class("advance:committee-update")
		}
		aerr := c.Advance()
		end, err := snapshot(c)
		if err != nil {
			return err
		}
		want, _ := snapshot(shadow)
		if ok != (aerr == nil) {
			return fmt.Errorf("%s: Advance() returned %v, one-by-one verification gives allAccepted=%v", tag, aerr, ok)
		}
		if end != want {
			return fmt.Errorf("%s: Advance() left the store at fin=%d opt=%d nextKnown=%v, one-by-one gives fin=%d opt=%d nextKnown=%v",
				tag, end.FinSlot, end.OptSlot, end.NextKnown, want.FinSlot, want.OptSlot, want.NextKnown)
		}
		cs.Class("advance:round")
		if !ok {
			break
		}
	}
	return nil
}

// ---------------------------------------------------------------------------

func genFollowUp(t *rapid.T, kind int, i int) updSpec {
	u := genHistStep(t, i)
	if i > 0 && rapid.IntRange(0, 9).Draw(t, "honest") < 6 {
		// late in the store period: acceptable whatever the earlier objects did
		u = genBaseUpd(t, true)
		u.SigRel, u.SigOff, u.FinMode, u.AttBack = 0, rapid.IntRange(4200, 8191).Draw(t, "late"), 0, 0
	}
	u.Kind = kind
	if u.Mut != "" && (kind == kindOptimistic || kind == kindFinality) {
		// keep mutations that exist in this container
		switch {
		case kind == kindOptimistic && (len(u.Mut) > 4 && (u.Mut[:4] == "fin-" || u.Mut[:5] == "next-")):
			u.Mut = "sig-flip"
		case kind == kindFinality && len(u.Mut) > 5 && u.Mut[:5] == "next-":
			u.Mut = "fin-branch"
		}
	}
	return u
}

func genSyncPlan(t *rapid.T) syncPlan {
	p := syncPlan{Store: genStore(t, true), Portal: rapid.IntRange(0, 3).Draw(t, "portal") == 3}
	b := bootSpec{BranchMut: -1, Seed: rapid.Uint32().Draw(t, "bseed")}
	b.Container = rapid.SampledFrom([]int{0, 0, 0, 0, 0, 0, 0, 1, 2, 3}).Draw(t, "container")
	b.Layout = rapid.SampledFrom([]int{0, 0, 0, 1, 1, 2, 3}).Draw(t, "layout")
	bootOK := true
	switch c := rapid.IntRange(0, 9).Draw(t, "boot-shape"); {
	case c < 4: // right checkpoint, right branch
	case c < 6:
		b.Checkpoint = rapid.IntRange(1, 4).Draw(t, "checkpoint")
		bootOK = false
	case c < 8:
		b.BranchMut = rapid.IntRange(0, 5).Draw(t, "branchmut")
		b.Alt = rapid.IntRange(0, 255).Draw(t, "balt")
		bootOK = false
	default:
		b.ComMut = rapid.IntRange(1, 5).Draw(t, "commut")
		b.Pos, b.Alt = rapid.IntRange(0, 511).Draw(t, "bpos"), rapid.IntRange(0, 255).Draw(t, "balt")
		bootOK = b.ComMut == 4
	}
	if rapid.IntRange(0, 7).Draw(t, "age") == 7 {
		b.Strict, b.ShortAge = rapid.Bool().Draw(t, "strict"), rapid.Bool().Draw(t, "shortage")
	}
	p.Boot = b
	nu := 0
	if bootOK || rapid.IntRange(0, 3).Draw(t, "updates-anyway") == 3 {
		nu = rapid.IntRange(0, 3).Draw(t, "nupdates")
	}
	for i := 0; i < nu; i++ {
		p.Updates = append(p.Updates, genFollowUp(t, kindFull, i))
	}
	p.Fin = genFollowUp(t, kindFinality, nu+1)
	p.Opt = genFollowUp(t, kindOptimistic, nu+2)
	if bootOK {
		nr := rapid.IntRange(0, 2).Draw(t, "rounds")
		for i := 0; i < nr; i++ {
			p.Rounds = append(p.Rounds, advSpec{Fin: genFollowUp(t, kindFinality, 5), Opt: genFollowUp(t, kindOptimistic, 5), Upd: genFollowUp(t, kindFull, 0)})
		}
	}
	return p
}

func TestC12_Sync(t *testing.T) { pbt.Run(t, "C12", "sync", genSyncPlan, runSyncPlan) }
