package p_beacon

// Synthetic sync committees. One deterministic pool of BLS secrets per process;
// a committee is a list of 512 pool indices, so the harness can produce the
// aggregate signature of ANY participant subset with one signing operation
// (sum of the participating secrets), and can decide "is this signature valid
// for exactly these keys" without running a pairing: BLS signatures are unique,
// the valid signature of key-sum S on message m is S*H(m).

import (
	"crypto/sha256"
	"encoding/binary"
	"fmt"
	"sync"

	kbls "github.com/kilic/bls12-381"
	blsu "github.com/protolambda/bls12-381-util"
	"github.com/protolambda/zrnt/eth2/beacon/common"
	"verifharness/model"
)

const (
	nBaseCommittees = 5 // committee of period p is base committee p % 5
	poolSize        = nBaseCommittees * 512
	garbageKey      = -1 // a committee slot whose 48 bytes are not a valid public key
)

type keyPool struct {
	sk []kbls.Fr
	pk [][48]byte
}

var (
	poolOnce sync.Once
	thePool  *keyPool
)

func pool() *keyPool {
	poolOnce.Do(func() {
		p := &keyPool{sk: make([]kbls.Fr, poolSize), pk: make([][48]byte, poolSize)}
		var wg sync.WaitGroup
		const workers = 8
		for w := 0; w < workers; w++ {
			wg.Add(1)
			go func(w int) {
				defer wg.Done()
				for i := w; i < poolSize; i += workers {
					var seed [16]byte
					copy(seed[:], "verif-c12")
					binary.LittleEndian.PutUint32(seed[12:], uint32(i))
					h := sha256.Sum256(seed[:])
					h[0] &= 0x3f // below the group order, never zero in practice
					var sk blsu.SecretKey
					if err := sk.Deserialize(&h); err != nil {
						panic(err)
					}
					p.sk[i] = *(*kbls.Fr)(&sk)
					pub, err := blsu.SkToPk(&sk)
					if err != nil {
						panic(err)
					}
					p.pk[i] = pub.Serialize()
				}
			}(w)
		}
		wg.Wait()
		thePool = p
	})
	return thePool
}

// committee: 512 pool indices (or garbageKey) plus everything derived.
type committee struct {
	name string
	idx  [512]int
	pub  [][48]byte
	agg  [48]byte
	root model.Root
}

var (
	comMu     sync.Mutex
	comByName = map[string]*committee{}
	comByRoot = map[model.Root]*committee{}
)

func sumSecrets(idx []int) (*blsu.SecretKey, bool) {
	p := pool()
	var acc kbls.Fr
	acc.Zero()
	for _, i := range idx {
		if i < 0 {
			return nil, false
		}
		acc.Add(&acc, &p.sk[i])
	}
	if acc.IsZero() {
		return nil, false
	}
	return (*blsu.SecretKey)(&acc), true
}

func garbagePub(pos int) (g [48]byte) {
	// compression flag set, x coordinate far above the field modulus: never decodes
	for i := range g {
		g[i] = 0xff
	}
	g[47] = byte(pos)
	return
}

func finishCommittee(c *committee) *committee {
	p := pool()
	c.pub = make([][48]byte, 512)
	for i, j := range c.idx {
		if j == garbageKey {
			c.pub[i] = garbagePub(i)
		} else {
			c.pub[i] = p.pk[j]
		}
	}
	if c.agg == [48]byte{} {
		var good []int
		for _, j := range c.idx {
			if j >= 0 {
				good = append(good, j)
			}
		}
		sk, ok := sumSecrets(good)
		if !ok {
			panic("zero aggregate")
		}
		pub, _ := blsu.SkToPk(sk)
		c.agg = pub.Serialize()
	}
	c.root = model.SyncCommitteeRoot(c.pub, c.agg)
	return c
}

// baseCommittee b (0..4). Committee 3 contains repeated members, as real sync
// committees do (a validator can be sampled more than once).
func baseCommittee(b int) *committee {
	b = ((b % nBaseCommittees) + nBaseCommittees) % nBaseCommittees
	name := fmt.Sprintf("base%d", b)
	comMu.Lock()
	defer comMu.Unlock()
	if c, ok := comByName[name]; ok {
		return c
	}
	c := &committee{name: name}
	for i := range c.idx {
		j := i
		if b == 3 && i%7 == 3 {
			j = i - 1 // duplicate of the neighbour
		}
		c.idx[i] = b*512 + j
	}
	finishCommittee(c)
	comByName[name] = c
	comByRoot[c.root] = c
	return c
}

// committeeOfPeriod is the synthetic chain's truth.
func committeeOfPeriod(p uint64) *committee { return baseCommittee(int(p % nBaseCommittees)) }

// variant replaces the key at pos by pool key repl (or garbageKey); optionally
// replaces the aggregate key. Registered so that the oracle recognises it when
// it shows up in the store.
func variantCommittee(base *committee, pos int, repl int, aggFrom int) *committee {
	name := fmt.Sprintf("%s/p%d=%d/a%d", base.name, pos, repl, aggFrom)
	comMu.Lock()
	defer comMu.Unlock()
	if c, ok := comByName[name]; ok {
		return c
	}
	c := &committee{name: name, idx: base.idx, agg: base.agg}
	if pos >= 0 {
		c.idx[pos%512] = repl
	}
	if aggFrom >= 0 {
		c.agg = pool().pk[aggFrom%poolSize]
	}
	finishCommittee(c)
	if len(comByName) < 4096 { // bound the cache; unknown variants are re-derived on demand
		comByName[name] = c
	}
	comByRoot[c.root] = c
	return c
}

func lookupCommittee(root model.Root) *committee {
	comMu.Lock()
	defer comMu.Unlock()
	return comByRoot[root]
}

// zrnt builds a fresh object for the code under test (it keeps pointers).
func (c *committee) zrnt() *common.SyncCommittee {
	sc := &common.SyncCommittee{Pubkeys: make(common.SyncCommitteePubkeys, 512)}
	for i := range c.pub {
		sc.Pubkeys[i] = common.BLSPubkey(c.pub[i])
	}
	sc.AggregatePubkey = common.BLSPubkey(c.agg)
	return sc
}

func bitSet(bits []byte, i int) bool { return bits[i/8]&(1<<(uint(i)%8)) != 0 }

func countBits(bits []byte) int {
	n := 0
	for i := 0; i < 512; i++ {
		if bitSet(bits, i) {
			n++
		}
	}
	return n
}

// sign returns the aggregate signature of the members selected by bits over msg.
// ok=false when no valid signature exists (no participant or a garbage key).
func (c *committee) sign(bits []byte, msg model.Root) (sig [96]byte, ok bool) {
	var idx []int
	for i := 0; i < 512; i++ {
		if bitSet(bits, i) {
			idx = append(idx, c.idx[i])
		}
	}
	if len(idx) == 0 {
		return sig, false
	}
	sk, ok := sumSecrets(idx)
	if !ok {
		return sig, false
	}
	s := blsu.Sign(sk, msg[:])
	return s.Serialize(), true
}

// sigValidFor is the reference predicate "sig is the valid aggregate signature
// over msg of exactly the members of c selected by bits".
func (c *committee) sigValidFor(bits []byte, msg model.Root, sig [96]byte) bool {
	want, ok := c.sign(bits, msg)
	return ok && want == sig
}
