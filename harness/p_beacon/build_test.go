package p_beacon

// Plans (plain data) and their resolution into concrete light-client objects.
// A plan describes an update RELATIVE to the store it will meet (period offset,
// slot offsets, which single field is corrupted); the concrete slots, headers,
// synthetic state tree, participation bitmap and aggregate signature are
// derived at run time from the store the code under test actually holds.

import (
	"crypto/sha256"
	"encoding/binary"
	"encoding/hex"
	"fmt"

	"github.com/ethereum/go-ethereum/log"
	"github.com/protolambda/zrnt/eth2/beacon/altair"
	"github.com/protolambda/zrnt/eth2/beacon/capella"
	"github.com/protolambda/zrnt/eth2/beacon/common"
	"github.com/protolambda/zrnt/eth2/beacon/deneb"
	"github.com/protolambda/zrnt/eth2/configs"
	"github.com/protolambda/ztyp/view"
	"github.com/zen-eth/shisui/beacon"
	"verifharness/model"
)

const (
	kindFull       = 0
	kindFinality   = 1
	kindOptimistic = 2

	forkAltair  = 0
	forkCapella = 1
	forkDeneb   = 2

	mainnetGenesisTime = 1606824023
	futureBasePeriod   = 122071 // 122071*8192 = 1_000_005_632 > LCFutureFloor
)

var genesisValidatorsRoot = mustRoot("4b363db94e286120d76eb905340fdd4e54bfe9f06bf33ff6cf5ad27f511bfe95")

func mustRoot(s string) (r model.Root) {
	b, err := hex.DecodeString(s)
	if err != nil || len(b) != 32 {
		panic("bad root")
	}
	copy(r[:], b)
	return
}

// rnd derives an arbitrary but reproducible 32-byte value.
func rnd(seed uint32, k int) model.Root {
	var b [12]byte
	binary.LittleEndian.PutUint32(b[:], seed)
	binary.LittleEndian.PutUint64(b[4:], uint64(k))
	return sha256.Sum256(b[:])
}

// ---------------------------------------------------------------------------
// plan types

type storeSpec struct {
	Period    int  // sync-committee period of the finalized header (world-relative)
	FinOff    int  // finalized slot offset inside the period
	OptAhead  int  // optimistic slot = finalized slot + OptAhead
	NextKnown bool // next committee stored
	CurMax    int
	PrevMax   int
	Future    bool // the whole scenario lives above slot 10^9
}

type updSpec struct {
	Kind int // full / finality / optimistic
	Fork int // container: altair / capella / deneb

	SigRel  int // signature period minus store period
	SigOff  int // signature slot offset inside its period
	AttMode int // 0: sig-1-AttBack, 1: == sig, 2: sig+1+AttBack, 3: storeFin-AttBack, 4: == storeFin
	AttBack int
	FinMode int // 0: two epochs behind attested (epoch aligned), 1: == attested, 2: == storeFin, 3: storeFin+1+FinBack, 4: attested+1+FinBack, 5: none (zero header, zero branch), 6: attested-FinBack
	FinBack int
	// 0: the chain's committee of attested period+1, 1: none (zero committee, zero branch)
	NextMode int

	N         int    // participants
	BitSeed   uint32 // which members
	Seed      uint32 // arbitrary roots
	SignerAlt int    // who signs when the store holds no committee for the signature period

	Mut string // single corrupted field, "" = none
	Pos int
	Alt int

	// Clock != 0 moves the client's clock next to the signature slot (by moving its genesis time: the current slot
	// is the middle of slot sig-1 (1: the signature slot lies one slot in the future), sig (2) or sig+1 (3))
	Clock int
}

// ---------------------------------------------------------------------------
// concrete objects

type concUpdate struct {
	Kind, Fork int
	Att, Fin   model.LCHeader
	FinBranch  []model.Root // 6
	NextPub    [][48]byte   // 512
	NextAgg    [48]byte
	NextBranch []model.Root // 5
	Bits       []byte       // 64
	Sig        [96]byte
	SigSlot    uint64
}

func zHeader(h model.LCHeader) common.BeaconBlockHeader {
	return common.BeaconBlockHeader{Slot: common.Slot(h.Slot), ProposerIndex: common.ValidatorIndex(h.Proposer),
		ParentRoot: common.Root(h.Parent), StateRoot: common.Root(h.State), BodyRoot: common.Root(h.Body)}
}

func mHeader(h *common.BeaconBlockHeader) model.LCHeader {
	return model.LCHeader{Slot: uint64(h.Slot), Proposer: uint64(h.ProposerIndex), Parent: model.Root(h.ParentRoot),
		State: model.Root(h.StateRoot), Body: model.Root(h.BodyRoot)}
}

func (u *concUpdate) zAggregate() altair.SyncAggregate {
	bits := make(altair.SyncCommitteeBits, 64) // SSZ decoding in front of the client fixes the length
	copy(bits, u.Bits)
	return altair.SyncAggregate{SyncCommitteeBits: bits, SyncCommitteeSignature: common.BLSSignature(u.Sig)}
}

func (u *concUpdate) zNext() common.SyncCommittee {
	sc := common.SyncCommittee{Pubkeys: make(common.SyncCommitteePubkeys, 512)}
	for i := range u.NextPub {
		sc.Pubkeys[i] = common.BLSPubkey(u.NextPub[i])
	}
	sc.AggregatePubkey = common.BLSPubkey(u.NextAgg)
	return sc
}

func (u *concUpdate) zFinBranch() (b altair.FinalizedRootProofBranch) {
	for i := range b {
		b[i] = common.Root(u.FinBranch[i])
	}
	return
}

func (u *concUpdate) zNextBranch() (b altair.SyncCommitteeProofBranch) {
	for i := range b {
		b[i] = common.Root(u.NextBranch[i])
	}
	return
}

// specObj builds a fresh container of the chosen fork, exactly the Go types the
// SSZ decoders in types/beacon hand to the light client.
func (u *concUpdate) specObj() common.SpecObj {
	att, fin := zHeader(u.Att), zHeader(u.Fin)
	agg := u.zAggregate()
	slot := common.Slot(u.SigSlot)
	switch u.Kind {
	case kindFull:
		switch u.Fork {
		case forkAltair:
			return &altair.LightClientUpdate{AttestedHeader: altair.LightClientHeader{Beacon: att}, NextSyncCommittee: u.zNext(),
				NextSyncCommitteeBranch: u.zNextBranch(), FinalizedHeader: altair.LightClientHeader{Beacon: fin},
				FinalityBranch: u.zFinBranch(), SyncAggregate: agg, SignatureSlot: slot}
		case forkCapella:
			return &capella.LightClientUpdate{AttestedHeader: capella.LightClientHeader{Beacon: att}, NextSyncCommittee: u.zNext(),
				NextSyncCommitteeBranch: u.zNextBranch(), FinalizedHeader: capella.LightClientHeader{Beacon: fin},
				FinalityBranch: u.zFinBranch(), SyncAggregate: agg, SignatureSlot: slot}
		default:
			return &deneb.LightClientUpdate{AttestedHeader: deneb.LightClientHeader{Beacon: att}, NextSyncCommittee: u.zNext(),
				NextSyncCommitteeBranch: u.zNextBranch(), FinalizedHeader: deneb.LightClientHeader{Beacon: fin},
				FinalityBranch: u.zFinBranch(), SyncAggregate: agg, SignatureSlot: slot}
		}
	case kindFinality:
		switch u.Fork {
		case forkAltair:
			return &altair.LightClientFinalityUpdate{AttestedHeader: altair.LightClientHeader{Beacon: att}, FinalizedHeader: fin,
				FinalityBranch: u.zFinBranch(), SyncAggregate: agg, SignatureSlot: slot}
		case forkCapella:
			return &capella.LightClientFinalityUpdate{AttestedHeader: capella.LightClientHeader{Beacon: att},
				FinalizedHeader: capella.LightClientHeader{Beacon: fin}, FinalityBranch: u.zFinBranch(), SyncAggregate: agg, SignatureSlot: slot}
		default:
			return &deneb.LightClientFinalityUpdate{AttestedHeader: deneb.LightClientHeader{Beacon: att},
				FinalizedHeader: deneb.LightClientHeader{Beacon: fin}, FinalityBranch: u.zFinBranch(), SyncAggregate: agg, SignatureSlot: slot}
		}
	default:
		switch u.Fork {
		case forkAltair:
			return &altair.LightClientOptimisticUpdate{AttestedHeader: altair.LightClientHeader{Beacon: att}, SyncAggregate: agg, SignatureSlot: slot}
		case forkCapella:
			return &capella.LightClientOptimisticUpdate{AttestedHeader: capella.LightClientHeader{Beacon: att}, SyncAggregate: agg, SignatureSlot: slot}
		default:
			return &deneb.LightClientOptimisticUpdate{AttestedHeader: deneb.LightClientHeader{Beacon: att}, SyncAggregate: agg, SignatureSlot: slot}
		}
	}
}

// ---------------------------------------------------------------------------
// the client under test

func newClient(api beacon.ConsensusAPI, checkpoint model.Root, strict bool, maxAge uint64) *beacon.ConsensusLightClient {
	cfg := &beacon.Config{
		Chain:               beacon.ChainConfig{ChainID: 1, GenesisTime: mainnetGenesisTime, GenesisRoot: common.Root(genesisValidatorsRoot)},
		Spec:                configs.Mainnet,
		MaxCheckpointAge:    maxAge,
		StrictCheckpointAge: strict,
	}
	c, err := beacon.NewConsensusLightClient(api, cfg, common.Root(checkpoint), log.New("verif", "c12"))
	if err != nil {
		panic(err)
	}
	return c
}

func worldPeriod(s storeSpec) uint64 {
	if s.Future {
		return uint64(futureBasePeriod + s.Period)
	}
	return uint64(s.Period)
}

// setStore writes the exported Store field: finalized/optimistic headers at the
// planned slots, the chain's committees for the store period.
func setStore(c *beacon.ConsensusLightClient, s storeSpec, cur, next *committee) {
	p := worldPeriod(s)
	finSlot := p*model.LCSlotsPerPeriod + uint64(s.FinOff)
	fin := model.LCHeader{Slot: finSlot, Proposer: 7, Parent: rnd(uint32(finSlot), 100), State: rnd(uint32(finSlot), 101), Body: rnd(uint32(finSlot), 102)}
	opt := fin
	if s.OptAhead > 0 {
		os := finSlot + uint64(s.OptAhead)
		opt = model.LCHeader{Slot: os, Proposer: 8, Parent: rnd(uint32(os), 103), State: rnd(uint32(os), 104), Body: rnd(uint32(os), 105)}
	}
	zf, zo := zHeader(fin), zHeader(opt)
	st := beacon.LightClientStore{
		FinalizedHeader:               &zf,
		OptimisticHeader:              &zo,
		CurrentSyncCommittee:          cur.zrnt(),
		PreviousMaxActiveParticipants: view.Uint64View(s.PrevMax),
		CurrentMaxActiveParticipants:  view.Uint64View(s.CurMax),
	}
	if s.OptAhead == 0 {
		st.OptimisticHeader = st.FinalizedHeader // what bootstrap does
	}
	if s.NextKnown && next != nil {
		st.NextSyncCommittee = next.zrnt()
	}
	c.Store = st
}

func committeeRootOf(sc *common.SyncCommittee) (model.Root, error) {
	if len(sc.Pubkeys) != 512 {
		return model.Root{}, fmt.Errorf("store committee has %d keys", len(sc.Pubkeys))
	}
	pub := make([][48]byte, 512)
	for i := range pub {
		pub[i] = [48]byte(sc.Pubkeys[i])
	}
	return model.SyncCommitteeRoot(pub, [48]byte(sc.AggregatePubkey)), nil
}

// snapshot reads the store through the reference hashing.
func snapshot(c *beacon.ConsensusLightClient) (model.LCStoreSnap, error) {
	var s model.LCStoreSnap
	st := &c.Store
	if st.FinalizedHeader == nil && st.OptimisticHeader == nil && st.CurrentSyncCommittee == nil && st.NextSyncCommittee == nil {
		return s, nil
	}
	if st.FinalizedHeader == nil || st.OptimisticHeader == nil || st.CurrentSyncCommittee == nil {
		return s, fmt.Errorf("store half set: finalized=%v optimistic=%v current=%v", st.FinalizedHeader != nil, st.OptimisticHeader != nil, st.CurrentSyncCommittee != nil)
	}
	s.Set = true
	f, o := mHeader(st.FinalizedHeader), mHeader(st.OptimisticHeader)
	s.FinSlot, s.OptSlot, s.FinRoot, s.OptRoot = f.Slot, o.Slot, f.Root(), o.Root()
	var err error
	if s.Cur, err = committeeRootOf(st.CurrentSyncCommittee); err != nil {
		return s, err
	}
	if st.NextSyncCommittee != nil {
		s.NextKnown = true
		if s.Next, err = committeeRootOf(st.NextSyncCommittee); err != nil {
			return s, err
		}
	}
	return s, nil
}

// ---------------------------------------------------------------------------
// participation bitmaps

func bitsFor(n int, seed uint32) []byte {
	if n < 0 {
		n = 0
	}
	if n > 512 {
		n = 512
	}
	perm := make([]int, 512)
	for i := range perm {
		perm[i] = i
	}
	x := uint64(seed)*0x9E3779B97F4A7C15 + 0x1234567
	for i := 511; i > 0; i-- {
		x ^= x << 13
		x ^= x >> 7
		x ^= x << 17
		j := int(x % uint64(i+1))
		perm[i], perm[j] = perm[j], perm[i]
	}
	bits := make([]byte, 64)
	for _, i := range perm[:n] {
		bits[i/8] |= 1 << (uint(i) % 8)
	}
	return bits
}

// ---------------------------------------------------------------------------
// resolution of an update plan against the store the client holds

type storeCtx struct {
	snap  model.LCStoreSnap
	cur   *committee // nil when the store holds a committee the harness never produced
	next  *committee
	shift uint64 // the scenario's chain: committee of period p is base committee (p+shift) % 5
}

// chain is the synthetic chain's truth: who really signs in period p and which
// committees the state of period p commits to.
func (ctx storeCtx) chain(p uint64) *committee { return committeeOfPeriod(p + ctx.shift) }

// followsChain reports whether the committees in a snapshot are the chain's.
func (ctx storeCtx) followsChain(s model.LCStoreSnap) bool {
	p := model.LCPeriod(s.FinSlot)
	return s.Cur == ctx.chain(p).root && (!s.NextKnown || s.Next == ctx.chain(p+1).root)
}

func contextOf(c *beacon.ConsensusLightClient, shift uint64) (storeCtx, error) {
	snap, err := snapshot(c)
	if err != nil {
		return storeCtx{}, err
	}
	ctx := storeCtx{snap: snap, shift: shift}
	if snap.Set {
		ctx.cur = lookupCommittee(snap.Cur)
		if snap.NextKnown {
			ctx.next = lookupCommittee(snap.Next)
		}
	}
	return ctx, nil
}

// heldFor returns the committee the store holds for a signature period.
func (ctx storeCtx) heldFor(sigPeriod uint64) *committee {
	sp := model.LCPeriod(ctx.snap.FinSlot)
	switch {
	case sigPeriod == sp:
		return ctx.cur
	case sigPeriod == sp+1 && ctx.snap.NextKnown:
		return ctx.next
	}
	return nil
}

func sub(a uint64, b int) uint64 {
	if b < 0 {
		return a + uint64(-b)
	}
	if uint64(b) > a {
		return 0
	}
	return a - uint64(b)
}

func flipRoot(r model.Root, pos int) model.Root {
	r[(pos/8)%32] ^= 1 << (uint(pos) % 8)
	return r
}

var altVersions = [][4]byte{{0, 0, 0, 0}, {1, 0, 0, 0}, {2, 0, 0, 0}, {3, 0, 0, 0}, {4, 0, 0, 0}, {5, 0, 0, 0}, {6, 0, 0, 0}, {0xff, 0xff, 0xff, 0xff}}

// resolve builds the concrete update. It returns notes about what was built
// (used for classes only, never for the verdict).
func resolve(u updSpec, ctx storeCtx) (*concUpdate, []string) {
	var notes []string
	storeFin := ctx.snap.FinSlot
	storePeriod := model.LCPeriod(storeFin)
	sigPeriod := uint64(int64(storePeriod) + int64(u.SigRel))
	if int64(storePeriod)+int64(u.SigRel) < 0 {
		sigPeriod = 0
	}
	sigSlot := sigPeriod*model.LCSlotsPerPeriod + uint64(u.SigOff%model.LCSlotsPerPeriod)
	if u.Mut == "sig-slot-future" {
		sigSlot = uint64(futureBasePeriod+u.Pos%1000)*model.LCSlotsPerPeriod + uint64(u.SigOff%model.LCSlotsPerPeriod)
	}
	var attSlot uint64
	switch u.AttMode {
	case 1:
		attSlot = sigSlot
	case 2:
		attSlot = sigSlot + 1 + uint64(u.AttBack)
	case 3:
		attSlot = sub(storeFin, u.AttBack)
	case 4:
		attSlot = storeFin
	default:
		attSlot = sub(sigSlot, 1+u.AttBack)
	}
	cu := &concUpdate{Kind: u.Kind, Fork: u.Fork, SigSlot: sigSlot}
	// finalized header
	hasFin := u.Kind != kindOptimistic
	var fin model.LCHeader
	finNone := false
	if hasFin {
		var fs uint64
		switch u.FinMode {
		case 1:
			fs = attSlot
		case 2:
			fs = storeFin
		case 3:
			fs = storeFin + 1 + uint64(u.FinBack)
		case 4:
			fs = attSlot + 1 + uint64(u.FinBack)
		case 5:
			finNone = true
		case 6:
			fs = sub(attSlot, u.FinBack)
		default:
			e := attSlot / model.LCSlotsPerEpoch
			if e >= 2 {
				fs = (e - 2) * model.LCSlotsPerEpoch
			}
		}
		if !finNone {
			fin = model.LCHeader{Slot: fs, Proposer: uint64(u.Seed % 1000), Parent: rnd(u.Seed, 1), State: rnd(u.Seed, 2), Body: rnd(u.Seed, 3)}
		}
	}
	// attested state
	attPeriod := model.LCPeriod(attSlot)
	next := ctx.chain(attPeriod + 1)
	st := model.LCState{
		CurrentCommittee: ctx.chain(attPeriod).root,
		NextCommittee:    next.root,
		G104:             model.Uint64Leaf(fin.Slot / model.LCSlotsPerEpoch),
		G53:              rnd(u.Seed, 4), G12: rnd(u.Seed, 5), G7: rnd(u.Seed, 6), G2: rnd(u.Seed, 7),
	}
	if hasFin && !finNone {
		st.FinalizedRoot = fin.Root()
	} else {
		st.FinalizedRoot = rnd(u.Seed, 8)
	}
	cu.Att = model.LCHeader{Slot: attSlot, Proposer: uint64(u.Seed%977) + 1, Parent: rnd(u.Seed, 9), State: st.Root(), Body: rnd(u.Seed, 10)}
	cu.Fin = fin
	cu.FinBranch = make([]model.Root, 6)
	if hasFin && !finNone {
		copy(cu.FinBranch, st.FinalityBranch())
	}
	cu.NextPub = make([][48]byte, 512)
	cu.NextBranch = make([]model.Root, 5)
	if u.Kind == kindFull && u.NextMode == 0 {
		copy(cu.NextPub, next.pub)
		cu.NextAgg = next.agg
		copy(cu.NextBranch, st.NextCommitteeBranch())
	}
	// participation and signature
	cu.Bits = bitsFor(u.N, u.BitSeed)
	// honest signers are the chain's committee of the signature period, whatever
	// the store believes
	signer := ctx.chain(sigPeriod)
	if ctx.heldFor(sigPeriod) == nil {
		// the store holds no committee for this period: sign with the chain's
		// committee of that period, or with one of the committees the store does hold
		switch u.SignerAlt % 3 {
		case 1:
			if ctx.next != nil {
				signer = ctx.next
			}
		case 2:
			if ctx.cur != nil {
				signer = ctx.cur
			}
		}
		notes = append(notes, "signer:no-committee-held-for-period")
	}
	signBits := cu.Bits
	gvr := genesisValidatorsRoot
	domType := model.DomainSyncCommittee
	fv := model.MainnetForkVersion(model.LCForkVersionSlot(sigSlot) / model.LCSlotsPerEpoch)
	if sigSlot >= model.LCFutureFloor {
		// beyond the schedule anybody knows; this build maps every post-Deneb epoch to
		// the Electra version. Irrelevant for the verdict: a future slot must be rejected.
		fv = [4]byte{5, 0, 0, 0}
	}
	switch u.Mut {
	case "wrong-committee":
		sp := model.LCPeriod(storeFin)
		var other *committee
		switch u.Alt % 4 {
		case 0: // the committee the store holds for the OTHER period
			if sigPeriod == sp {
				other = ctx.next
			} else {
				other = ctx.cur
			}
		case 1:
			other = ctx.chain(sigPeriod + 1)
		case 2:
			other = ctx.chain(sigPeriod + nBaseCommittees - 1)
		default:
			other = ctx.chain(sigPeriod + 2)
		}
		if other == nil {
			other = ctx.chain(sigPeriod + 1)
		}
		signer = other
	case "fork-version":
		switch u.Alt % 3 {
		case 0: // version of the signature slot itself instead of the slot before it
			fv = model.MainnetForkVersion(sigSlot / model.LCSlotsPerEpoch)
		case 1:
			fv = altVersions[u.Pos%len(altVersions)]
		default: // neighbouring fork
			fv[0]++
		}
	case "genesis-root":
		if u.Alt%2 == 0 {
			gvr = model.Root{}
		} else {
			gvr = flipRoot(gvr, u.Pos)
		}
	case "domain-type":
		domType = [4]byte{byte(u.Alt % 7), 0, 0, 0} // 0..6: other signature domains
	case "signers-differ":
		// signed by a different member set than the bitmap claims
		signBits = bitsFor(u.N, u.BitSeed+1+uint32(u.Alt))
	}
	msg := model.SigningRoot(cu.Att.Root(), model.ComputeDomain(domType, fv, gvr))
	if sig, ok := signer.sign(signBits, msg); ok {
		cu.Sig = sig
	} else {
		cu.Sig = infinitySig()
		notes = append(notes, "sig:none-possible")
	}
	// single corrupted field, applied after everything was built and signed
	switch u.Mut {
	case "sig-flip":
		cu.Sig[(u.Pos/8)%96] ^= 1 << (uint(u.Pos) % 8)
	case "sig-othermsg":
		if sig, ok := signer.sign(cu.Bits, cu.Att.Root()); ok { // header root signed without domain
			cu.Sig = sig
		}
	case "sig-infinity":
		cu.Sig = infinitySig()
	case "bit-add", "bit-drop":
		want := u.Mut == "bit-drop"
		for k := 0; k < 512; k++ {
			i := (u.Pos + k) % 512
			if bitSet(cu.Bits, i) == want {
				cu.Bits[i/8] ^= 1 << (uint(i) % 8)
				break
			}
		}
	case "fin-branch":
		cu.FinBranch[u.Pos%6] = flipRoot(cu.FinBranch[u.Pos%6], u.Alt)
	case "next-branch":
		cu.NextBranch[u.Pos%5] = flipRoot(cu.NextBranch[u.Pos%5], u.Alt)
	case "att-slot":
		cu.Att.Slot = mutSlot(cu.Att.Slot, u.Alt)
	case "att-proposer":
		cu.Att.Proposer ^= 1 << (uint(u.Alt) % 20)
	case "att-parent":
		cu.Att.Parent = flipRoot(cu.Att.Parent, u.Alt)
	case "att-state":
		cu.Att.State = flipRoot(cu.Att.State, u.Alt)
	case "att-body":
		cu.Att.Body = flipRoot(cu.Att.Body, u.Alt)
	case "fin-slot":
		cu.Fin.Slot = mutSlot(cu.Fin.Slot, u.Alt)
	case "fin-proposer":
		cu.Fin.Proposer ^= 1 << (uint(u.Alt) % 20)
	case "fin-parent":
		cu.Fin.Parent = flipRoot(cu.Fin.Parent, u.Alt)
	case "fin-state":
		cu.Fin.State = flipRoot(cu.Fin.State, u.Alt)
	case "fin-body":
		cu.Fin.Body = flipRoot(cu.Fin.Body, u.Alt)
	case "next-key":
		if u.Alt%3 == 0 {
			cu.NextPub[u.Pos%512] = garbagePub(u.Pos % 512)
		} else {
			cu.NextPub[u.Pos%512] = pool().pk[(u.Alt*131+u.Pos)%poolSize]
		}
	case "next-agg":
		cu.NextAgg = pool().pk[(u.Alt*131+u.Pos)%poolSize]
	case "next-is-current":
		// the attested state's CURRENT committee served as next committee, with its
		// (valid) branch for the neighbouring generalized index
		if u.Kind == kindFull {
			cur := ctx.chain(attPeriod)
			copy(cu.NextPub, cur.pub)
			cu.NextAgg = cur.agg
			copy(cu.NextBranch, st.CurrentCommitteeBranch())
		}
	}
	return cu, notes
}

// mutSlot changes a header slot by a small amount (stays inside the slot range
// of the scenario).
func mutSlot(s uint64, alt int) uint64 {
	d := uint64(alt%5) + 1
	if alt%2 == 0 || s < d {
		return s + d
	}
	return s - d
}

func infinitySig() (s [96]byte) {
	s[0] = 0xc0
	return
}

// ---------------------------------------------------------------------------
// the reference view of a concrete update

func viewOf(cu *concUpdate, ctx storeCtx) (model.LCUpdateView, error) {
	v := model.LCUpdateView{
		Participants: countBits(cu.Bits),
		SigSlot:      cu.SigSlot,
		AttSlot:      cu.Att.Slot,
	}
	switch {
	case cu.SigSlot < model.LCPastLimit:
	case cu.SigSlot > model.LCFutureFloor:
		v.SigInFuture = true
	default:
		return v, fmt.Errorf("harness: signature slot %d is neither safely past nor safely future", cu.SigSlot)
	}
	if cu.Kind != kindOptimistic {
		v.HasFinality = true
		v.FinSlot = cu.Fin.Slot
		v.FinHeaderZero = cu.Fin.IsZero()
		v.FinBranchZero = model.LCBranchAllZero(cu.FinBranch)
		v.FinBranchValid = model.ValidMerkleBranch(cu.Fin.Root(), cu.FinBranch, model.LCFinalizedDepth, model.LCFinalizedIndex, cu.Att.State)
		if cu.Fin.Slot == 0 && !v.FinBranchValid {
			// genesis: the spec proves the zero root instead of the header root
			v.FinBranchValid = model.ValidMerkleBranch(model.Root{}, cu.FinBranch, model.LCFinalizedDepth, model.LCFinalizedIndex, cu.Att.State)
		}
	}
	if cu.Kind == kindFull {
		v.HasNextCommittee = true
		v.NextBranchZero = model.LCBranchAllZero(cu.NextBranch)
		v.NextZero = cu.NextAgg == [48]byte{}
		for i := range cu.NextPub {
			if cu.NextPub[i] != [48]byte{} {
				v.NextZero = false
			}
		}
		v.NextBranchValid = model.ValidMerkleBranch(model.SyncCommitteeRoot(cu.NextPub, cu.NextAgg), cu.NextBranch, model.LCNextSyncDepth, model.LCNextSyncIndex, cu.Att.State)
	}
	sigPeriod := model.LCPeriod(cu.SigSlot)
	sp := model.LCPeriod(ctx.snap.FinSlot)
	var held *committee
	unknown := false
	switch {
	case sigPeriod == sp:
		held, unknown = ctx.cur, ctx.cur == nil
	case sigPeriod == sp+1 && ctx.snap.NextKnown:
		held, unknown = ctx.next, ctx.next == nil
	}
	if unknown {
		return v, fmt.Errorf("the store holds a committee that no bootstrap or update of this scenario supplied")
	}
	if held != nil {
		msg := model.LCSigningRoot(cu.Att, cu.SigSlot, genesisValidatorsRoot)
		if v.SigInFuture {
			// no schedule for the far future; accept the version the scenario signs with
			msg = model.SigningRoot(cu.Att.Root(), model.ComputeDomain(model.DomainSyncCommittee, [4]byte{5, 0, 0, 0}, genesisValidatorsRoot))
		}
		v.SigValid = held.sigValidFor(cu.Bits, msg, cu.Sig)
	}
	return v, nil
}
