package p_beacon

import (
	"time"
	"fmt"
	"strings"
	"sync"
	"testing"

	"github.com/protolambda/zrnt/eth2/beacon/common"
	"github.com/zen-eth/shisui/beacon"
	"pgregory.net/rapid"
	"verifharness/model"
	"verifharness/pbt"
	"verifharness/stats"
)

func TestMain(m *testing.M) { pbt.Main(m) }

// ---------------------------------------------------------------------------
// one update against the store the client holds: resolve, judge verification,
// apply if accepted (as every caller does), judge the store change

var (
	healthMu   sync.Mutex
	healthSeen = map[string]bool{}
)

func unhealthy(msg string) {
	healthMu.Lock()
	defer healthMu.Unlock()
	if healthSeen[msg] || len(healthSeen) > 20 {
		return
	}
	healthSeen[msg] = true
	stats.For("C12").Unhealthy(msg)
}

// provenance: every header / committee a store may legitimately contain, i.e.
// what it started with plus what accepted updates carried.
type provenance struct {
	headers    map[model.Root]bool
	committees map[model.Root]bool
	shift      uint64 // see storeCtx.shift
}

func newProvenance(s model.LCStoreSnap) *provenance {
	p := &provenance{headers: map[model.Root]bool{}, committees: map[model.Root]bool{}}
	p.headers[s.FinRoot], p.headers[s.OptRoot], p.committees[s.Cur] = true, true, true
	if s.NextKnown {
		p.committees[s.Next] = true
	}
	return p
}

func verifyCall(c *beacon.ConsensusLightClient, kind int, obj common.SpecObj) error {
	switch kind {
	case kindFull:
		return c.VerifyUpdate(obj)
	case kindFinality:
		return c.VerifyFinalityUpdate(obj)
	}
	return c.VerifyOptimisticUpdate(obj)
}

func applyCall(c *beacon.ConsensusLightClient, kind int, obj common.SpecObj) error {
	switch kind {
	case kindFull:
		return c.ApplyUpdate(obj)
	case kindFinality:
		return c.ApplyFinalityUpdate(obj)
	}
	return c.ApplyOptimisticUpdate(obj)
}

var kindNames = []string{"full", "finality", "optimistic"}
var forkNames = []string{"altair", "capella", "deneb"}

type stepResult struct {
	accepted bool
	rotated  bool
	discard  bool
	cu       *concUpdate
	verr     error
}

// step runs one planned update through the client's public entry points.
func step(c *beacon.ConsensusLightClient, u updSpec, cs *stats.Case, prov *provenance, tag string) (stepResult, error) {
	var res stepResult
	ctx, err := contextOf(c, prov.shift)
	if err != nil {
		return res, fmt.Errorf("%s: %v", tag, err)
	}
	if !ctx.snap.Set {
		return res, fmt.Errorf("%s: harness: store not set", tag)
	}
	cu, notes := resolve(u, ctx)
	res.cu = cu
	view, err := viewOf(cu, ctx)
	if err == nil && u.Clock >= 1 && u.Clock <= 3 && cu.SigSlot >= 2 && cu.SigSlot < model.LCPastLimit {
		// "not in the future" at its boundary: the client's current slot is put right next to the signature slot
		nowSlot := cu.SigSlot - 1 + uint64(u.Clock-1)
		c.Config.Chain.GenesisTime = uint64(time.Now().Unix()) - nowSlot*12 - 6
		defer func() { c.Config.Chain.GenesisTime = mainnetGenesisTime }()
		view.SigInFuture = cu.SigSlot > nowSlot
		cs.NT(fmt.Sprintf("clock:current-slot=sig%+d", int(u.Clock)-2))
	}
	if err != nil {
		if strings.HasPrefix(err.Error(), "harness:") {
			cs.Class("discard:slot-range")
			res.discard = true
			return res, nil
		}
		return res, fmt.Errorf("%s: %v", tag, err)
	}
	failures := model.LCVerifyFailures(model.LCStoreView{FinSlot: ctx.snap.FinSlot, NextKnown: ctx.snap.NextKnown}, view)
	before := ctx.snap

	obj := cu.specObj()
	verr := verifyCall(c, cu.Kind, obj)
	res.verr = verr
	mid, err := snapshot(c)
	if err != nil {
		return res, fmt.Errorf("%s: after verification: %v", tag, err)
	}
	if mid != before {
		return res, fmt.Errorf("%s: verification alone changed the store: %+v -> %+v", tag, before, mid)
	}

	// classes
	cs.Class("kind:" + kindNames[cu.Kind])
	cs.Class("fork:" + forkNames[cu.Fork])
	if u.Mut != "" {
		cs.Class("mut:" + u.Mut)
	}
	for _, n := range notes {
		cs.Class(n)
	}
	n := view.Participants
	switch n {
	case 0, 1, 341, 342, 511, 512:
		cs.Class(fmt.Sprintf("n=%d", n))
	}
	for _, b := range model.LCForkBoundarySlots {
		if cu.SigSlot == b {
			cs.Class("sig-slot:first-of-fork")
		}
	}
	if view.SigInFuture {
		cs.Class("sig-slot:future")
	}
	switch len(failures) {
	case 0:
		cs.Class("all-conditions-hold")
	case 1:
		cs.NT("only:" + failures[0])
	default:
		cs.Class("fails-several")
	}

	if verr != nil {
		cs.Class("rejected")
		if len(failures) == 0 {
			// The statement is one-directional; a rejected honest update is a health
			// problem of the check (the soundness half would be vacuous), except where
			// the client is knowingly stricter than the statement.
			if u.FinMode == 5 && cu.Kind != kindOptimistic {
				cs.Class("stricter:update-without-finality-rejected")
			} else if u.NextMode == 1 && cu.Kind == kindFull {
				cs.Class("stricter:update-without-next-committee-rejected")
			} else if cu.Kind != kindOptimistic && cu.Fin.Slot == 0 {
				cs.Class("stricter:genesis-finality")
			} else {
				cs.Class("HEALTH:valid-update-rejected")
				unhealthy(fmt.Sprintf("an update satisfying every condition of the statement was rejected (%v): kind=%s sigSlot=%d attSlot=%d finSlot=%d n=%d store=%+v",
					verr, kindNames[cu.Kind], cu.SigSlot, cu.Att.Slot, cu.Fin.Slot, n, before))
			}
		}
		return res, nil
	}

	// accepted
	res.accepted = true
	cs.Class("accepted")
	if len(failures) > 0 {
		return res, fmt.Errorf("%s: %s update passed verification although these conditions do not hold: %s (sigSlot=%d attSlot=%d finSlot=%d participants=%d mut=%q storeFin=%d nextKnown=%v)",
			tag, kindNames[cu.Kind], strings.Join(failures, ", "), cu.SigSlot, cu.Att.Slot, cu.Fin.Slot, n, u.Mut, before.FinSlot, before.NextKnown)
	}
	if n == 341 || n == 342 {
		cs.NT(fmt.Sprintf("accepted:n=%d", n))
	}
	if err := applyCall(c, cu.Kind, obj); err != nil {
		return res, fmt.Errorf("%s: apply of a verified update failed: %v", tag, err)
	}
	after, err := snapshot(c)
	if err != nil {
		return res, fmt.Errorf("%s: after apply: %v", tag, err)
	}
	if !after.Set {
		return res, fmt.Errorf("%s: apply unset the store", tag)
	}
	if bad := model.LCApplyViolations(before, after, n); len(bad) > 0 {
		return res, fmt.Errorf("%s: applying a %s update with %d participants: %s (before fin=%d opt=%d, after fin=%d opt=%d, update att=%d fin=%d)",
			tag, kindNames[cu.Kind], n, strings.Join(bad, "; "), before.FinSlot, before.OptSlot, after.FinSlot, after.OptSlot, cu.Att.Slot, cu.Fin.Slot)
	}
	// the store only ever holds what it started with or what verified updates carried
	prov.headers[cu.Att.Root()] = true
	if cu.Kind != kindOptimistic {
		prov.headers[cu.Fin.Root()] = true
	}
	if cu.Kind == kindFull {
		prov.committees[model.SyncCommitteeRoot(cu.NextPub, cu.NextAgg)] = true
	}
	if !prov.headers[after.FinRoot] || !prov.headers[after.OptRoot] {
		return res, fmt.Errorf("%s: after apply the store holds a header that no verified update carried", tag)
	}
	if !prov.committees[after.Cur] || (after.NextKnown && !prov.committees[after.Next]) {
		return res, fmt.Errorf("%s: after apply the store holds a committee that no verified update carried", tag)
	}
	if ctx.followsChain(before) && !ctx.followsChain(after) {
		// Not forbidden by the statement (it says to WHAT the committee rotates, not
		// when), but from here on the client refuses the chain's honest updates: the
		// search would silently stop exercising accepted updates.
		cs.Class("HEALTH:store-committees-left-the-chain")
		unhealthy(fmt.Sprintf("after applying a verified %s update (att=%d fin=%d, %d participants) the store's committees are no longer the chain's committees of its period (store fin %d -> %d): honest updates will be refused",
			kindNames[cu.Kind], cu.Att.Slot, cu.Fin.Slot, n, before.FinSlot, after.FinSlot))
	}
	if after.FinRoot != before.FinRoot {
		cs.Class("applied:finalized-advanced")
	}
	if after.OptRoot != before.OptRoot {
		cs.Class("applied:optimistic-advanced")
	}
	if after.Cur != before.Cur {
		cs.NT("applied:rotated")
		res.rotated = true
	}
	if !before.NextKnown && after.NextKnown {
		cs.Class("applied:next-committee-filled")
	}
	if after == before {
		cs.Class("applied:no-change")
		if n*3 < 1024 {
			cs.Class("applied:no-change-below-two-thirds")
		}
	}
	return res, nil
}

// ---------------------------------------------------------------------------
// generators

var interestingOffsets = []int{0, 0, 1, 2, 31, 32, 33, 63, 64, 65, 95, 96, 97, 128, 4096, 8159, 8160, 8190, 8191}
var interestingN = []int{1, 2, 170, 171, 256, 341, 341, 342, 342, 343, 400, 511, 512, 512}

func genOffset(t *rapid.T, label string) int {
	if rapid.Bool().Draw(t, label+"-pick") {
		return rapid.SampledFrom(interestingOffsets).Draw(t, label)
	}
	return rapid.IntRange(0, 8191).Draw(t, label)
}

func genN(t *rapid.T, progress bool) int {
	switch c := rapid.IntRange(0, 9).Draw(t, "n-class"); {
	case c < 4:
		return rapid.SampledFrom(interestingN).Draw(t, "n")
	case c < 8 && progress:
		return rapid.IntRange(342, 512).Draw(t, "n-major")
	default:
		return rapid.IntRange(1, 512).Draw(t, "n-any")
	}
}

var fieldMutations = []string{
	"sig-flip", "sig-othermsg", "sig-infinity", "bit-add", "bit-drop", "signers-differ",
	"fin-branch", "next-branch",
	"att-slot", "att-proposer", "att-parent", "att-state", "att-body",
	"fin-slot", "fin-proposer", "fin-parent", "fin-state", "fin-body",
	"next-key", "next-agg", "next-is-current",
	"wrong-committee", "fork-version", "genesis-root", "domain-type",
	"sig-slot-future",
}

var relationDeviations = []string{
	"n0", "att==sig", "att>sig", "fin>att", "period+2", "period+2", "period-1", "att-old", "att==storefin",
	"fin-not-newer", "fin-just-newer", "no-finality", "no-next", "fin==att", "att-far-back",
}

// genBaseUpd draws an update that is meant to be acceptable when the store
// allows its period (SigRel 1 needs a known next committee).
func genBaseUpd(t *rapid.T, progress bool) updSpec {
	u := updSpec{
		Kind:      rapid.SampledFrom([]int{kindFull, kindFull, kindFull, kindFinality, kindFinality, kindOptimistic}).Draw(t, "kind"),
		Fork:      rapid.IntRange(0, 2).Draw(t, "fork"),
		SigRel:    rapid.SampledFrom([]int{0, 0, 0, 1, 1}).Draw(t, "sigrel"),
		SigOff:    genOffset(t, "sigoff"),
		AttBack:   rapid.SampledFrom([]int{0, 0, 0, 0, 1, 2, 3, 7, 31, 32, 64}).Draw(t, "attback"),
		N:         genN(t, progress),
		BitSeed:   rapid.Uint32().Draw(t, "bitseed"),
		Seed:      rapid.Uint32().Draw(t, "seed"),
		SignerAlt: rapid.IntRange(0, 2).Draw(t, "signer-alt"),
	}
	if rapid.IntRange(0, 5).Draw(t, "finmode-pick") == 0 {
		u.FinMode = 6
		u.FinBack = rapid.SampledFrom([]int{0, 1, 31, 32, 64, 100, 300, 9000}).Draw(t, "finback")
	}
	return u
}

func applyDeviation(t *rapid.T, u *updSpec, allowStoreKey bool) {
	muts := fieldMutations
	if allowStoreKey {
		muts = append(append([]string{}, fieldMutations...), "store-key", "store-key")
	}
	if rapid.IntRange(0, 2).Draw(t, "dev-family") == 0 {
		switch d := rapid.SampledFrom(relationDeviations).Draw(t, "relation"); d {
		case "n0":
			u.N = 0
		case "att==sig":
			u.AttMode = 1
		case "att>sig":
			u.AttMode, u.AttBack = 2, rapid.IntRange(0, 3).Draw(t, "ahead")
		case "fin>att":
			u.FinMode, u.FinBack = 4, rapid.SampledFrom([]int{0, 0, 1, 31, 100}).Draw(t, "finahead")
		case "period+2":
			u.SigRel = 2
			u.SignerAlt = rapid.SampledFrom([]int{1, 1, 2, 0}).Draw(t, "signer-of-held")
		case "period-1":
			u.SigRel = -1
			u.SignerAlt = rapid.SampledFrom([]int{2, 2, 1, 0}).Draw(t, "signer-of-held")
		case "att-old":
			u.AttMode, u.AttBack = 3, rapid.SampledFrom([]int{0, 1, 1, 2, 32, 64, 200}).Draw(t, "old")
			u.SigRel = 0
		case "att==storefin":
			u.AttMode, u.SigRel = 4, 0
		case "fin-not-newer":
			u.FinMode = 2
		case "fin-just-newer":
			u.FinMode, u.FinBack = 3, rapid.SampledFrom([]int{0, 0, 1, 31, 32}).Draw(t, "finfwd")
		case "no-finality":
			u.FinMode = 5
		case "no-next":
			u.NextMode = 1
		case "fin==att":
			u.FinMode = 1
		case "att-far-back":
			u.AttBack = rapid.SampledFrom([]int{100, 1000, 8191, 8192, 9000, 17000}).Draw(t, "farback")
		}
		return
	}
	u.Mut = rapid.SampledFrom(muts).Draw(t, "mut")
	u.Pos = rapid.IntRange(0, 4095).Draw(t, "pos")
	u.Alt = rapid.IntRange(0, 255).Draw(t, "alt")
	// aim a mutation at a container that has the field
	switch {
	case strings.HasPrefix(u.Mut, "next-") && rapid.IntRange(0, 4).Draw(t, "aim") > 0:
		u.Kind = kindFull
	case strings.HasPrefix(u.Mut, "fin-") && u.Kind == kindOptimistic && rapid.IntRange(0, 4).Draw(t, "aim") > 0:
		u.Kind = kindFinality
	}
}

var interestingPeriods = []int{288, 289, 289, 290, 564, 565, 565, 566}

func genStore(t *rapid.T, bootstrapped bool) storeSpec {
	s := storeSpec{}
	if rapid.IntRange(0, 9).Draw(t, "period-pick") < 3 {
		s.Period = rapid.SampledFrom(interestingPeriods).Draw(t, "period") // around the altair / bellatrix fork epochs
	} else {
		s.Period = rapid.IntRange(2, 590).Draw(t, "period")
	}
	if bootstrapped {
		s.FinOff = rapid.SampledFrom([]int{0, 32, 64, 320, 1024, 2048, 4000}).Draw(t, "finoff")
		return s
	}
	s.FinOff = genOffset(t, "finoff")
	s.OptAhead = rapid.SampledFrom([]int{0, 0, 1, 2, 32, 64, 100, 200}).Draw(t, "optahead")
	s.NextKnown = rapid.IntRange(0, 9).Draw(t, "nextknown") < 6
	s.CurMax = rapid.SampledFrom([]int{0, 0, 1, 300, 400, 512}).Draw(t, "curmax")
	s.PrevMax = rapid.SampledFrom([]int{0, 0, 1, 300, 400, 512}).Draw(t, "prevmax")
	s.Future = rapid.IntRange(0, 15).Draw(t, "future") == 15
	return s
}

// ---------------------------------------------------------------------------
// C12 (a): one update of any shape against any store

type verifyPlan struct {
	Store storeSpec
	Upd   updSpec
}

func genVerifyPlan(t *rapid.T) verifyPlan {
	p := verifyPlan{Store: genStore(t, false), Upd: genBaseUpd(t, false)}
	switch c := rapid.IntRange(0, 19).Draw(t, "shape"); {
	case c < 6: // meant to be valid
	case c == 6: // signature slot on the first slot of a fork
		p.Store.Period = rapid.SampledFrom([]int{289, 565}).Draw(t, "fork-period")
		p.Store.NextKnown, p.Store.Future = true, false
		p.Store.FinOff = rapid.SampledFrom([]int{0, 4096, 8000, 8100}).Draw(t, "fork-finoff")
		p.Upd.SigRel, p.Upd.SigOff, p.Upd.AttBack, p.Upd.FinMode = 1, 0, rapid.IntRange(0, 2).Draw(t, "fork-attback"), 0
		if rapid.Bool().Draw(t, "fork-mut") {
			p.Upd.Mut, p.Upd.Alt = "fork-version", rapid.SampledFrom([]int{0, 0, 2}).Draw(t, "fork-alt")
		}
	default:
		applyDeviation(t, &p.Upd, true)
	}
	if !p.Store.Future && rapid.IntRange(0, 3).Draw(t, "clockGate") == 0 {
		p.Upd.Clock = rapid.SampledFrom([]int{1, 1, 2, 3}).Draw(t, "clock")
	}
	return p
}

func runVerifyPlan(p verifyPlan, cs *stats.Case) error {
	c := newClient(nil, model.Root{}, false, 1<<62)
	wp := worldPeriod(p.Store)
	cur, next := committeeOfPeriod(wp), committeeOfPeriod(wp+1)
	if p.Upd.Mut == "store-key" {
		repl := garbageKey
		if p.Upd.Alt%3 != 0 {
			repl = (p.Upd.Alt*131 + p.Upd.Pos) % poolSize
		}
		// corrupt the committee the signature will be checked against
		if p.Upd.SigRel == 1 && p.Store.NextKnown {
			next = variantCommittee(next, p.Upd.Pos%512, repl, -1)
		} else {
			cur = variantCommittee(cur, p.Upd.Pos%512, repl, -1)
		}
	}
	setStore(c, p.Store, cur, next)
	if p.Store.Future {
		cs.Class("world:future")
	}
	if p.Store.NextKnown {
		cs.Class("store:next-known")
	} else {
		cs.Class("store:next-unknown")
	}
	s0, err := snapshot(c)
	if err != nil {
		return err
	}
	_, err = step(c, p.Upd, cs, newProvenance(s0), "update")
	return err
}

func TestC12_Verify(t *testing.T) { pbt.Run(t, "C12", "verify", genVerifyPlan, runVerifyPlan) }

// ---------------------------------------------------------------------------
// C12 (b): histories over a bootstrapped store, across period boundaries

type histPlan struct {
	Store storeSpec
	Steps []updSpec
}

func genHistStep(t *rapid.T, i int) updSpec {
	u := genBaseUpd(t, true)
	switch c := rapid.IntRange(0, 19).Draw(t, "template"); {
	case i == 0 || c < 2: // late in the store period: fills the next committee
		u.SigRel = 0
		u.SigOff = rapid.IntRange(4100, 8191).Draw(t, "late")
		if i == 0 {
			u.Kind, u.FinMode = kindFull, 0
			if u.N < 342 {
				u.N = 342 + u.N%171
			}
		}
	case c < 13: // into the next period, finalized header there too: rotation
		u.SigRel = 1
		u.SigOff = rapid.SampledFrom([]int{96, 97, 128, 200, 1000, 4000, 8191}).Draw(t, "cross")
		u.FinMode = 0
		if u.Kind != kindFull && rapid.IntRange(0, 3).Draw(t, "cross-full") > 0 {
			u.Kind = kindFull // a full update keeps the next committee known after the rotation
		}
	case c < 15: // just over the boundary: the finalized header stays behind
		u.SigRel = 1
		u.SigOff = rapid.IntRange(0, 95).Draw(t, "early")
	case c < 17: // anywhere in the store period
		u.SigRel = 0
	default:
		applyDeviation(t, &u, false)
	}
	return u
}

func genHistPlan(t *rapid.T) histPlan {
	p := histPlan{Store: genStore(t, true)}
	n := rapid.IntRange(3, pbt.Thorough(8, 10)).Draw(t, "steps")
	for i := 0; i < n; i++ {
		p.Steps = append(p.Steps, genHistStep(t, i))
	}
	return p
}

func runHistPlan(p histPlan, cs *stats.Case) error {
	c := newClient(nil, model.Root{}, false, 1<<62)
	wp := worldPeriod(p.Store)
	setStore(c, p.Store, committeeOfPeriod(wp), nil)
	s0, err := snapshot(c)
	if err != nil {
		return err
	}
	prov := newProvenance(s0)
	rotations, accepted := 0, 0
	for i, u := range p.Steps {
		r, err := step(c, u, cs, prov, fmt.Sprintf("step %d", i))
		if err != nil {
			return err
		}
		if r.accepted {
			accepted++
		}
		if r.rotated {
			rotations++
		}
	}
	end, _ := snapshot(c)
	if rotations >= 2 {
		cs.NT("history:rotations>=2")
	}
	if rotations >= 3 {
		cs.Class("history:rotations>=3")
	}
	if model.LCPeriod(end.FinSlot) >= model.LCPeriod(s0.FinSlot)+2 {
		cs.Class("history:finalized-crossed-2-periods")
	}
	if accepted == 0 {
		cs.Class("history:nothing-accepted")
	}
	return nil
}

func TestC12_History(t *testing.T) { pbt.Run(t, "C12", "history", genHistPlan, runHistPlan) }
