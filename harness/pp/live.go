package pp

import (
	"context"
	"net"
	"strings"
	"sync"
	"time"

	"github.com/ethereum/go-ethereum/p2p/discover"
	"github.com/ethereum/go-ethereum/p2p/enode"
	cache "github.com/go-pkgz/expirable-cache/v3"
	"github.com/holiman/uint256"
	"github.com/zen-eth/shisui/portalwire"
	"github.com/zen-eth/shisui/storage"
	"verifharness/gen"
	"verifharness/simnet"
)

// LiveOpts configures a real PortalProtocol running on the simulated network.
type LiveOpts struct {
	KeyIdx      int
	IP          net.IP
	Port        int
	Versions    []byte // nil => no "pv" entry
	Storage     storage.ContentStorage
	MaxUtp      int // transfer slot limit (inbound and outbound each); 0 => default 50, <0 => limit 0
	QueueCap    int // content (validation) queue capacity; 0 => 50
	Proto       portalwire.ProtocolId
	NoWorkers   bool          // start without offer workers (queued offers stay observable)
	RespTimeout time.Duration // discv5 request timeout; 0 => 700ms default
	UtpFast     bool          // shorten the uTP library's retry timers
	VersionsTTL time.Duration
}

type Live struct {
	P     *portalwire.PortalProtocol
	Disc  *discover.UDPv5
	Utp   *portalwire.UtpTransportService
	LN    *enode.LocalNode
	Conn  *simnet.Conn
	Queue chan *portalwire.ContentElement
	Store storage.ContentStorage
	VC    cache.Cache[*enode.Node, uint8]
	Opts  LiveOpts
	stop  sync.Once
}

func NewLive(hub *simnet.Hub, o LiveOpts) (*Live, error) {
	if o.Proto == nil {
		o.Proto = portalwire.History
	}
	if o.IP == nil {
		o.IP = net.IP{127, 0, 0, 1}
	}
	conf := portalwire.DefaultPortalProtocolConfig()
	smallCaches(conf)
	if o.MaxUtp > 0 {
		conf.MaxUtpConnSize = o.MaxUtp
	} else if o.MaxUtp < 0 {
		conf.MaxUtpConnSize = 0
	}
	conf.NAT = nil
	conn := hub.Listen(o.IP, o.Port)
	ln := LocalNode(o.KeyIdx, o.IP, o.Port, o.Versions)
	if o.RespTimeout == 0 {
		// the library default of 700 ms produces spurious time-outs on a loaded machine; where a time-out is
		// the intended outcome the caller sets a short value explicitly
		o.RespTimeout = 3 * time.Second
	}
	dcfg := discover.Config{PrivateKey: gen.Key(o.KeyIdx), V5RespTimeout: o.RespTimeout}
	disc, err := discover.ListenV5(conn, ln, dcfg)
	if err != nil {
		return nil, err
	}
	utp := portalwire.NewZenEthUtp(context.Background(), conf, disc, conn)
	if o.UtpFast {
		sc := utp.VerifSocketConfig()
		sc.InitialTimeout = 60 * time.Millisecond
		sc.MinTimeout = 40 * time.Millisecond
		sc.MaxTimeout = 400 * time.Millisecond
		sc.MaxConnAttempts = 4
		sc.MaxIdleTimeout = 2 * time.Second
	}
	st := o.Storage
	if st == nil {
		st = NewMemStore()
	}
	qc := o.QueueCap
	if qc == 0 {
		qc = 50
	}
	queue := make(chan *portalwire.ContentElement, qc)
	vc := cache.NewCache[*enode.Node, uint8]()
	if o.VersionsTTL > 0 {
		vc = vc.WithTTL(o.VersionsTTL)
	}
	p, err := portalwire.NewPortalProtocol(conf, o.Proto, gen.Key(o.KeyIdx), conn, ln, disc, utp, st, queue, vc,
		portalwire.WithDisableTableInitCheckOption(true))
	if err != nil {
		disc.Close()
		return nil, err
	}
	trackInstance(p)
	if o.NoWorkers {
		err = p.VerifStartNoWorkers()
	} else {
		err = p.Start()
	}
	if err != nil {
		disc.Close()
		return nil, err
	}
	// wait until the table loop is up (initDone closes on its first iteration)
	for i := 0; i < 5000 && !p.VerifTable().VerifIsInitDone(); i++ {
		time.Sleep(200 * time.Microsecond)
	}
	return &Live{P: p, Disc: disc, Utp: utp, LN: ln, Conn: conn, Queue: queue, Store: st, VC: vc, Opts: o}, nil
}

func (l *Live) Node() *enode.Node { return l.LN.Node() }

func (l *Live) Stop() {
	l.stop.Do(func() {
		l.P.Stop()
		l.Disc.Close()
		l.Utp.Stop()
		_ = l.Conn.Close()
	})
}

// ---------------------------------------------------------------------------

// Scripted is a bare discv5 endpoint whose talk handlers answer from the plan.
type Scripted struct {
	Disc *discover.UDPv5
	LN   *enode.LocalNode
	Conn *simnet.Conn
}

type TalkFn func(id enode.ID, addr *net.UDPAddr, msg []byte) []byte

func NewScripted(hub *simnet.Hub, keyIdx int, ip net.IP, port int, versions []byte, respTimeout time.Duration) (*Scripted, error) {
	conn := hub.Listen(ip, port)
	ln := LocalNode(keyIdx, ip, port, versions)
	disc, err := discover.ListenV5(conn, ln, discover.Config{PrivateKey: gen.Key(keyIdx), V5RespTimeout: respTimeout})
	if err != nil {
		return nil, err
	}
	return &Scripted{Disc: disc, LN: ln, Conn: conn}, nil
}

func (s *Scripted) Handle(proto portalwire.ProtocolId, fn TalkFn) {
	s.Disc.RegisterTalkHandler(string(proto), func(n *enode.Node, addr *net.UDPAddr, msg []byte) []byte {
		return fn(n.ID(), addr, msg)
	})
}

func (s *Scripted) Node() *enode.Node { return s.LN.Node() }

func (s *Scripted) Stop() {
	s.Disc.Close()
	_ = s.Conn.Close()
}

// ---------------------------------------------------------------------------

// MemStore is a harness ContentStorage keyed by content id with a settable
// radius and call log; used where the property is about the protocol, not the store.
type MemStore struct {
	mu     sync.Mutex
	Db     map[string][]byte
	radius *uint256.Int
	Puts   int
}

func NewMemStore() *MemStore {
	return &MemStore{Db: map[string][]byte{}, radius: storage.MaxDistance.Clone()}
}

func (m *MemStore) Get(contentKey []byte, contentId []byte) ([]byte, error) {
	m.mu.Lock()
	defer m.mu.Unlock()
	if c, ok := m.Db[string(contentId)]; ok {
		return append([]byte{}, c...), nil
	}
	return nil, storage.ErrContentNotFound
}

func (m *MemStore) Put(contentKey []byte, contentId []byte, content []byte) error {
	m.mu.Lock()
	defer m.mu.Unlock()
	m.Db[string(contentId)] = append([]byte{}, content...)
	m.Puts++
	return nil
}

func (m *MemStore) Has(contentId []byte) bool {
	m.mu.Lock()
	defer m.mu.Unlock()
	_, ok := m.Db[string(contentId)]
	return ok
}

func (m *MemStore) Radius() *uint256.Int {
	m.mu.Lock()
	defer m.mu.Unlock()
	return m.radius.Clone()
}

func (m *MemStore) SetRadius(r *uint256.Int) {
	m.mu.Lock()
	m.radius = r.Clone()
	m.mu.Unlock()
}

func (m *MemStore) Close() error { return nil }

// IsTimeout reports whether an error is a time-out of discv5 / uTP / a context: an outcome of a loaded
// machine or a faulty link, never by itself a verdict.
func IsTimeout(err error) bool {
	if err == nil {
		return false
	}
	m := strings.ToLower(err.Error())
	return strings.Contains(m, "timeout") || strings.Contains(m, "timed out") || strings.Contains(m, "deadline exceeded")
}
