// Package pp builds real portalwire.PortalProtocol instances for the checks:
// "bare" ones (constructed, never started: enough for pure helpers) and live
// ones running real discv5 + uTP over the in-memory simnet.
package pp

import (
	"net"
	"sync"

	"github.com/ethereum/go-ethereum/p2p/enode"
	"github.com/ethereum/go-ethereum/p2p/enr"
	cache "github.com/go-pkgz/expirable-cache/v3"
	"github.com/zen-eth/shisui/portalwire"
	"github.com/zen-eth/shisui/storage"
	"verifharness/gen"
	"verifharness/pbt"
)

// smallCaches keeps fastcache allocations tiny (the default config allocates
// 4 x 32 MiB per instance).
func smallCaches(conf *portalwire.PortalProtocolConfig) {
	conf.RadiusCacheSize = 1 << 20
	conf.CapabilitiesCacheSize = 1 << 20
	conf.EphemeralHeaderCountCacheSize = 1 << 20
	conf.ContentKeyCacheSize = 1 << 20
}

var (
	dbMu     sync.Mutex
	caseDB   []*enode.DB
	caseInst []*portalwire.PortalProtocol
)

func trackInstance(p *portalwire.PortalProtocol) {
	dbMu.Lock()
	caseInst = append(caseInst, p)
	dbMu.Unlock()
}

func init() {
	// every in-memory node DB opened during a case is closed when the case is over (each holds a goroutine and
	// leveldb buffers; tens of thousands of cases per process otherwise exhaust the memory)
	pbt.AfterCase(func() {
		dbMu.Lock()
		dbs, insts := caseDB, caseInst
		caseDB, caseInst = nil, nil
		dbMu.Unlock()
		for _, p := range insts {
			p.VerifResetCaches() // fastcache chunks are off-heap and only come back through Reset
		}
		for _, db := range dbs {
			db.Close()
		}
	})
}

// LocalNode creates a LocalNode with an in-memory DB, address and version set.
func LocalNode(keyIdx int, ip net.IP, port int, versions []byte) *enode.LocalNode {
	db, err := enode.OpenDB("")
	if err != nil {
		panic(err)
	}
	dbMu.Lock()
	caseDB = append(caseDB, db)
	dbMu.Unlock()
	ln := enode.NewLocalNode(db, gen.Key(keyIdx))
	ln.SetFallbackIP(ip)
	ln.SetStaticIP(ip)
	ln.SetFallbackUDP(port)
	ln.Set(portalwire.Tag)
	if versions != nil {
		ln.Set(enr.WithEntry("pv", versions))
	}
	return ln
}

// Bare returns a constructed but never started protocol instance.
func Bare(keyIdx int, versions []byte, st storage.ContentStorage, protocolID portalwire.ProtocolId) *portalwire.PortalProtocol {
	conf := portalwire.DefaultPortalProtocolConfig()
	smallCaches(conf)
	ln := LocalNode(keyIdx, net.IP{127, 0, 0, 1}, 9009, versions)
	if st == nil {
		st = storage.NewMockStorage()
	}
	vc := cache.NewCache[*enode.Node, uint8]()
	p, err := portalwire.NewPortalProtocol(conf, protocolID, gen.Key(keyIdx), nil, ln, nil, nil, st, make(chan *portalwire.ContentElement, 50), vc)
	if err != nil {
		panic(err)
	}
	trackInstance(p)
	return p
}
