// Package pp builds real portalwire.PortalProtocol instances for the checks:
// "bare" ones (constructed, never started: enough for pure helpers) and live
// ones running real discv5 + uTP over the in-memory simnet.
package pp

import (
	"net"

	"github.com/ethereum/go-ethereum/p2p/enode"
	"github.com/ethereum/go-ethereum/p2p/enr"
	cache "github.com/go-pkgz/expirable-cache/v3"
	"github.com/zen-eth/shisui/portalwire"
	"github.com/zen-eth/shisui/storage"
	"verifharness/gen"
)

// smallCaches keeps fastcache allocations tiny (the default config allocates
// 4 x 32 MiB per instance).
func smallCaches(conf *portalwire.PortalProtocolConfig) {
	conf.RadiusCacheSize = 1 << 20
	conf.CapabilitiesCacheSize = 1 << 20
	conf.EphemeralHeaderCountCacheSize = 1 << 20
	conf.ContentKeyCacheSize = 1 << 20
}

// LocalNode creates a LocalNode with an in-memory DB, address and version set.
func LocalNode(keyIdx int, ip net.IP, port int, versions []byte) *enode.LocalNode {
	db, err := enode.OpenDB("")
	if err != nil {
		panic(err)
	}
	ln := enode.NewLocalNode(db, gen.Key(keyIdx))
	ln.SetFallbackIP(ip)
	ln.SetStaticIP(ip)
	ln.SetFallbackUDP(port)
	ln.Set(portalwire.Tag)
	if versions != nil {
		ln.Set(enr.WithEntry("pv", versions))
	}
	return ln
}

// Bare returns a constructed but never started protocol instance.
func Bare(keyIdx int, versions []byte, st storage.ContentStorage, protocolID portalwire.ProtocolId) *portalwire.PortalProtocol {
	conf := portalwire.DefaultPortalProtocolConfig()
	smallCaches(conf)
	ln := LocalNode(keyIdx, net.IP{127, 0, 0, 1}, 9009, versions)
	if st == nil {
		st = storage.NewMockStorage()
	}
	vc := cache.NewCache[*enode.Node, uint8]()
	p, err := portalwire.NewPortalProtocol(conf, protocolID, gen.Key(keyIdx), nil, ln, nil, nil, st, make(chan *portalwire.ContentElement, 50), vc)
	if err != nil {
		panic(err)
	}
	return p
}
