package p_table

// C07: structural invariants of the routing table after every operation.

import (
	"fmt"
	"sort"
	"strings"
	"testing"

	"github.com/ethereum/go-ethereum/p2p/enode"
	"github.com/zen-eth/shisui/portalwire"
	model "verifharness/model/kad"
	"verifharness/pbt"
	"verifharness/stats"
)

// checkInvariants judges one snapshot against the statement of C07.
// lists: also require the revalidation bookkeeping to match the entries (only
// meaningful when no table operation is in progress).
func checkInvariants(s portalwire.VerifTableSnap, lists bool) error {
	if len(s.Buckets) != model.KadBuckets {
		return fmt.Errorf("table has %d buckets, want %d", len(s.Buckets), model.KadBuckets)
	}
	seen := map[enode.ID]string{}
	tableNets := map[string]int{}
	entryList := map[enode.ID]string{}
	for bi, b := range s.Buckets {
		if len(b.Entries) > model.KadBucketSize {
			return fmt.Errorf("bucket %d holds %d entries (> %d)", bi, len(b.Entries), model.KadBucketSize)
		}
		if len(b.Replacements) > model.KadMaxReplacements {
			return fmt.Errorf("bucket %d holds %d replacements (> %d)", bi, len(b.Replacements), model.KadMaxReplacements)
		}
		bucketNets := map[string]int{}
		for li, l := range [][]portalwire.VerifNodeSnap{b.Entries, b.Replacements} {
			where := fmt.Sprintf("bucket %d entries", bi)
			if li == 1 {
				where = fmt.Sprintf("bucket %d replacements", bi)
			}
			for _, n := range l {
				if n.ID == localID {
					return fmt.Errorf("the local node is in the table (%s)", where)
				}
				if prev, dup := seen[n.ID]; dup {
					return fmt.Errorf("node %x appears twice: %s and %s", n.ID[:4], prev, where)
				}
				seen[n.ID] = where
				d := model.KadLogDist(kadID(localID), kadID(n.ID))
				if want := model.KadBucketOf(d); want != bi {
					return fmt.Errorf("node %x at log-distance %d sits in bucket %d, belongs to bucket %d", n.ID[:4], d, bi, want)
				}
				if key := model.KadSubnetKey(n.IP); key != "" {
					bucketNets[key]++
					tableNets[key]++
				}
				if li == 0 {
					entryList[n.ID] = n.RevalList
				}
			}
		}
		for key, cnt := range bucketNets {
			if cnt > model.KadBucketIPLimit {
				return fmt.Errorf("bucket %d holds %d non-LAN nodes from %s (> %d)", bi, cnt, key, model.KadBucketIPLimit)
			}
		}
	}
	for key, cnt := range tableNets {
		if cnt > model.KadTableIPLimit {
			return fmt.Errorf("the table holds %d non-LAN nodes from %s (> %d)", cnt, key, model.KadTableIPLimit)
		}
	}
	if lists {
		if err := checkRevalLists(s, entryList); err != nil {
			return err
		}
	}
	return nil
}

// checkRevalLists: every entry is in exactly one revalidation list (the one it
// names) and every list member is an entry. A mismatch is what later turns into
// the panics of the revalidation bookkeeping.
func checkRevalLists(s portalwire.VerifTableSnap, entryList map[enode.ID]string) error {
	inList := map[enode.ID]string{}
	for name, l := range map[string][]enode.ID{"fast": s.Fast, "slow": s.Slow} {
		for _, id := range l {
			if prev, dup := inList[id]; dup {
				return fmt.Errorf("node %x is in revalidation lists %s and %s", id[:4], prev, name)
			}
			inList[id] = name
			if _, ok := entryList[id]; !ok {
				return fmt.Errorf("revalidation list %s contains %x which is not a table entry", name, id[:4])
			}
		}
	}
	for id, name := range entryList {
		if got := inList[id]; got == "" || got != name {
			return fmt.Errorf("entry %x names revalidation list %q but is in %q", id[:4], name, got)
		}
	}
	return nil
}

// bucketIndexOf is the oracle's bucket of an id.
func bucketIndexOf(id enode.ID) int {
	return model.KadBucketOf(model.KadLogDist(kadID(localID), kadID(id)))
}

func findSnap(l []portalwire.VerifNodeSnap, id enode.ID) *portalwire.VerifNodeSnap {
	for i := range l {
		if l[i].ID == id {
			return &l[i]
		}
	}
	return nil
}

func netCounts(s portalwire.VerifTableSnap, bi int, key string) (inBucket, inTable int) {
	for i, b := range s.Buckets {
		for _, l := range [][]portalwire.VerifNodeSnap{b.Entries, b.Replacements} {
			for _, n := range l {
				if model.KadSubnetKey(n.IP) == key {
					inTable++
					if i == bi {
						inBucket++
					}
				}
			}
		}
	}
	return
}

// classify marks what made the step interesting (the non-triviality rule of C07).
func classifyC07(c *stats.Case, st *step, before, after portalwire.VerifTableSnap) {
	c.Class("op:" + st.Kind)
	var id enode.ID
	switch st.Kind {
	case opFound, opInbound, opDelete, opTrack:
		id = st.Node.ID()
	case opAnswer:
		id = st.PingID
	default:
		if len(st.Started) > 0 {
			c.Class("ping-started")
		}
		return
	}
	if id == localID {
		c.Class("local-id-offered")
		return
	}
	bi := bucketIndexOf(id)
	bb, ab := before.Buckets[bi], after.Buckets[bi]
	if len(bb.Entries) == model.KadBucketSize {
		c.NT("step-on-full-bucket")
		if len(bb.Replacements) == model.KadMaxReplacements {
			c.Class("step-on-full-replacement-list")
		}
	}
	if bi == 0 {
		c.Class("bucket0")
	}
	if st.Kind == opFound || st.Kind == opInbound {
		wasIn := findSnap(bb.Entries, id) != nil || findSnap(bb.Replacements, id) != nil
		isIn := findSnap(ab.Entries, id) != nil || findSnap(ab.Replacements, id) != nil
		if !wasIn && !isIn {
			if key := model.KadSubnetKey(st.Node.IPAddr()); key != "" {
				nb, nt := netCounts(before, bi, key)
				if nb >= model.KadBucketIPLimit {
					c.NT("ip-limit-rejection:bucket")
				} else if nt >= model.KadTableIPLimit {
					c.NT("ip-limit-rejection:table")
				}
			} else if ip := st.Node.IPAddr(); !ip.IsValid() || ip.IsUnspecified() {
				c.Class("no-address-rejection")
			}
		}
	}
	for _, e := range bb.Entries {
		if a := findSnap(ab.Entries, e.ID); a != nil && (a.IP != e.IP || a.UDP != e.UDP) {
			c.NT("endpoint-change")
		}
	}
	if findSnap(bb.Entries, id) != nil && findSnap(ab.Entries, id) == nil && len(bb.Replacements) > 0 {
		switch st.Kind {
		case opDelete:
			c.NT("delete-with-replacements")
		case opAnswer:
			c.NT("liveness-removal-with-replacements")
		case opTrack:
			c.NT("fruitless-removal-with-replacements")
		}
	}
}

// ipCounterString renders the /24 counts of the nodes present the way the table
// prints its own counters ("{a.b.c.0/24×n ...}", sorted by prefix).
func ipCounterString(lists ...[]portalwire.VerifNodeSnap) string {
	counts := map[string]int{}
	for _, l := range lists {
		for _, n := range l {
			if key := model.KadSubnetKey(n.IP); key != "" {
				counts[key]++
			}
		}
	}
	keys := make([]string, 0, len(counts))
	for k := range counts {
		keys = append(keys, k)
	}
	sort.Strings(keys)
	parts := make([]string, len(keys))
	for i, k := range keys {
		parts[i] = fmt.Sprintf("%s×%d", k, counts[k])
	}
	return "{" + strings.Join(parts, " ") + "}"
}

// countersDiffer: informational only. The statement bounds the nodes present; a
// table whose own counters over-count is merely stricter. The class makes such a
// drift visible in the evidence without judging it.
func countersDiffer(s portalwire.VerifTableSnap) bool {
	var all [][]portalwire.VerifNodeSnap
	for _, b := range s.Buckets {
		if b.IPs != ipCounterString(b.Entries, b.Replacements) {
			return true
		}
		all = append(all, b.Entries, b.Replacements)
	}
	return s.IPs != ipCounterString(all...)
}

type invObserver struct{ c *stats.Case }

func (o invObserver) observe(st *step, before, after portalwire.VerifTableSnap) error {
	classifyC07(o.c, st, before, after)
	if countersDiffer(after) {
		o.c.Class("info:ip-counters-differ-from-nodes-present")
	}
	return checkInvariants(after, true)
}

func runC07Serial(p tplan, c *stats.Case) error {
	return runSerial(p, c, invObserver{c})
}

func TestC07_Serial(t *testing.T) { pbt.Run(t, "C07", "serial", genTPlan, runC07Serial) }
