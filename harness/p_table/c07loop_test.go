package p_table

// C07, concurrent mode: the real Table.loop() runs inside a synctest bubble with a
// clock the bubble controls; every round issues 1..8 operations from as many
// goroutines at once (discoveries, inbound contacts, deletions, lookup feedback,
// refreshes, answers to parked liveness pings), and the invariants are judged at
// the synctest.Wait() point after each round (nothing is in progress there).
//
// rapid is never touched inside the bubble: the plan is drawn first, errors are
// collected and reported after synctest.Run returns.

import (
	"encoding/json"
	"errors"
	"fmt"
	"net"
	"os"
	"path/filepath"
	"sort"
	"sync"
	"sync/atomic"
	"testing"
	"testing/synctest"
	"time"

	"github.com/ethereum/go-ethereum/common/mclock"
	"github.com/ethereum/go-ethereum/p2p/enode"
	"github.com/zen-eth/shisui/portalwire"
	"pgregory.net/rapid"
	"verifharness/gen"
	model "verifharness/model/kad"
	"verifharness/pbt"
	"verifharness/stats"
)

// ---------------------------------------------------------------------------
// a clock on top of package time (which is virtual inside a bubble);
// mclock.System reads runtime.nanotime directly and would see real time.

type bubbleClock struct{ base int64 }

func newBubbleClock() *bubbleClock { return &bubbleClock{base: time.Now().UnixNano()} }

func (c *bubbleClock) Now() mclock.AbsTime   { return mclock.AbsTime(time.Now().UnixNano() - c.base) }
func (c *bubbleClock) Sleep(d time.Duration) { time.Sleep(d) }
func (c *bubbleClock) After(d time.Duration) <-chan mclock.AbsTime {
	ch := make(chan mclock.AbsTime, 1)
	time.AfterFunc(d, func() { ch <- c.Now() })
	return ch
}
func (c *bubbleClock) AfterFunc(d time.Duration, f func()) mclock.Timer { return time.AfterFunc(d, f) }
func (c *bubbleClock) NewTimer(d time.Duration) mclock.ChanTimer {
	ch := make(chan mclock.AbsTime, 1)
	t := time.AfterFunc(d, func() {
		select {
		case ch <- c.Now():
		default:
		}
	})
	return &bubbleTimer{t, ch}
}

type bubbleTimer struct {
	*time.Timer
	ch <-chan mclock.AbsTime
}

func (t *bubbleTimer) Reset(d time.Duration)    { t.Timer.Reset(d) }
func (t *bubbleTimer) C() <-chan mclock.AbsTime { return t.ch }

// ---------------------------------------------------------------------------

type errSink struct {
	mu   sync.Mutex
	errs []error
}

func (s *errSink) add(err error) {
	if err == nil {
		return
	}
	s.mu.Lock()
	s.errs = append(s.errs, err)
	s.mu.Unlock()
}

func (s *errSink) first() error {
	s.mu.Lock()
	defer s.mu.Unlock()
	if len(s.errs) == 0 {
		return nil
	}
	return s.errs[0]
}

// guard runs f and turns a panic of this goroutine into a recorded error.
func (s *errSink) guard(f func()) {
	s.add(pbt.SafeCall(func() error { f(); return nil }))
}

// writeWAL stores the plan before it runs, so that a panic in a goroutine the
// harness does not own (it kills the process) still leaves a replayable input.
func writeWAL(id, check string, plan any) {
	dir := os.Getenv("VERIF_WORK")
	if dir == "" {
		return
	}
	pb, err := json.Marshal(plan)
	if err != nil {
		return
	}
	b, _ := json.Marshal(map[string]any{"property": id, "check": check, "error": "process died while executing this plan", "plan": json.RawMessage(pb)})
	_ = os.WriteFile(filepath.Join(dir, fmt.Sprintf("wal-%s-%s.json", id, check)), b, 0o644)
}

// ---------------------------------------------------------------------------
// plan

type lround struct {
	Dt  int   `json:"dt,omitempty"` // virtual milliseconds slept before the round
	Ops []top `json:"ops"`          // issued concurrently, one goroutine each
}

type lplan struct {
	Seed      int64     `json:"seed"`
	NIDs      int       `json:"nids"`
	InitCheck bool      `json:"init,omitempty"` // run the table's initial refresh (inbound contacts are refused until it is done)
	Boot      []int     `json:"boot,omitempty"` // bootstrap nodes: address pool indices
	Refresh   []nref    `json:"refresh,omitempty"`
	Prefill   []prefill `json:"prefill,omitempty"`
	Rounds    []lround  `json:"rounds"`
	Cycles    int       `json:"cycles,omitempty"` // the round list is executed this many extra times
}

var opWeightsLoop = []string{
	opFound, opFound, opFound, opFound, opFound,
	opInbound, opInbound, opInbound,
	opDelete, opDelete, opDelete,
	opAnswer, opAnswer, opAnswer, opAnswer,
	opTrack, opTrack, opTrack,
	opRefresh,
}

func genLPlan(t *rapid.T) lplan {
	g := genCfg{hot: rapid.IntRange(0, len(slots)-1).Draw(t, "hot"), loop: true}
	p := lplan{
		Seed:      rapid.Int64Range(1, 1<<40).Draw(t, "seed"),
		NIDs:      rapid.SampledFrom([]int{2, 4, 8, 30, 30}).Draw(t, "nids"),
		InitCheck: rapid.Bool().Draw(t, "init"),
		Prefill:   genPrefill(t),
	}
	for i, n := 0, rapid.IntRange(0, 3).Draw(t, "nboot"); i < n; i++ {
		p.Boot = append(p.Boot, rapid.IntRange(0, 17).Draw(t, "boot")) // valid addresses only
	}
	for i, n := 0, rapid.IntRange(0, 6).Draw(t, "nrefresh"); i < n; i++ {
		p.Refresh = append(p.Refresh, genNref(t, g, fmt.Sprintf("rf%d", i)))
	}
	nr := rapid.IntRange(1, pbt.Thorough(24, 48)).Draw(t, "rounds")
	for r := 0; r < nr; r++ {
		rd := lround{Dt: rapid.SampledFrom([]int{0, 0, 100, 1000, 3000, 3000, 10000}).Draw(t, "dt")}
		k := rapid.IntRange(1, 8).Draw(t, "width")
		for i := 0; i < k; i++ {
			op := genOp(t, g, opWeightsLoop)
			op.Rep = 0
			// a delayed operation wakes up in the same virtual instant as the loop's own
			// timers (revalidation alarm, refresh), so it runs concurrently with them
			op.Dl = rapid.SampledFrom([]int{0, 0, 0, 0, 100, 1000, 3000, 3000}).Draw(t, "dl")
			if op.K == opTrack && len(op.Found) == 0 && rapid.Bool().Draw(t, "burst") {
				op.Rep = 5 // five fruitless reports in a row from one goroutine
			}
			rd.Ops = append(rd.Ops, op)
		}
		p.Rounds = append(p.Rounds, rd)
	}
	if nr <= 8 {
		// a short pattern repeated: the same interleaving gets several chances
		p.Cycles = rapid.SampledFrom([]int{0, 0, 1, 3}).Draw(t, "cycles")
	}
	return p
}

// ---------------------------------------------------------------------------
// driver

type parkedPing struct {
	node *enode.Node
	rel  chan pingAns
}

type loopDrv struct {
	tab *portalwire.Table
	db  *enode.DB

	mu      sync.Mutex
	parked  []*parkedPing
	answers map[enode.ID]pingAns
	free    chan struct{} // closed at the end: every ping returns at once
}

func (d *loopDrv) takeParked(pick int) *parkedPing {
	d.mu.Lock()
	defer d.mu.Unlock()
	if len(d.parked) == 0 {
		return nil
	}
	// two pings started by one scheduler pass register in either order
	sort.Slice(d.parked, func(i, j int) bool {
		a, b := d.parked[i].node.ID(), d.parked[j].node.ID()
		return string(a[:]) < string(b[:])
	})
	i := pick % len(d.parked)
	pp := d.parked[i]
	d.parked = append(d.parked[:i:i], d.parked[i+1:]...)
	return pp
}

func runC07Loop(p lplan, c *stats.Case) (err error) {
	writeWAL("C07", "loop", p)
	sink := &errSink{}
	defer func() {
		// A deadlocked bubble (a goroutine waiting for a table loop that died)
		// surfaces here as a panic of synctest.Run; the first recorded error is the cause.
		r := recover()
		if e := sink.first(); e != nil {
			err = e
		} else if r != nil {
			err = fmt.Errorf("bubble ended abnormally: %v", r)
		}
	}()
	synctest.Run(func() { loopBody(p, c, sink) })
	return nil
}

func loopBody(p lplan, c *stats.Case, sink *errSink) {
	d := &loopDrv{answers: map[enode.ID]pingAns{}, free: make(chan struct{})}
	self := gen.NullNode(localID, net.IP{127, 0, 0, 1}, 30300, 1)
	var snapMu sync.Mutex
	var snap portalwire.VerifTableSnap
	refreshAdds := func(part int) []*enode.Node {
		// like the production lookup worker: everything a refresh lookup finds is
		// offered to the table, and the query is reported
		snapMu.Lock()
		s := snap
		snapMu.Unlock()
		for i, r := range p.Refresh {
			if i%2 != part {
				continue
			}
			n := resolveNode(r, p.NIDs, s)
			d.tab.VerifAddFoundNode(n, false)
			if n.IPAddr().IsValid() {
				d.tab.VerifTrackRequest(n, i%3 != 0, nil)
			}
		}
		return nil
	}
	tr := &portalwire.VerifTransport{
		SelfFn: func() *enode.Node { return self },
		PingFn: func(n *enode.Node) (uint64, error) {
			pp := &parkedPing{node: n, rel: make(chan pingAns, 1)}
			d.mu.Lock()
			d.parked = append(d.parked, pp)
			d.mu.Unlock()
			select {
			case a := <-pp.rel:
				if a.dead {
					return 0, errors.New("verif: no pong")
				}
				return a.remoteSeq, nil
			case <-d.free:
				return n.Seq(), nil
			}
		},
		RequestENRFn: func(n *enode.Node) (*enode.Node, error) {
			d.mu.Lock()
			a := d.answers[n.ID()]
			d.mu.Unlock()
			if a.reqErr || a.rec == nil {
				return nil, errors.New("verif: record request failed")
			}
			return a.rec, nil
		},
		LookupSelfFn:   func() []*enode.Node { return refreshAdds(0) },
		LookupRandomFn: func() []*enode.Node { return refreshAdds(1) },
	}
	db, err := enode.OpenDB("")
	if err != nil {
		sink.add(fmt.Errorf("harness: %v", err))
		return
	}
	defer db.Close() // also ends the database's own ticker goroutine inside the bubble
	var boot []*enode.Node
	for i, a := range p.Boot {
		boot = append(boot, gen.SignedNode(gen.NodeOpts{KeyIdx: 300 + i, Seq: 1, IP: addrPool[a%18].ip, UDP: 30303}))
	}
	tab, err := portalwire.VerifNewTable(tr, db, portalwire.Config{Clock: newBubbleClock(), DisableInitCheck: !p.InitCheck, Bootnodes: boot})
	if err != nil {
		sink.add(fmt.Errorf("harness: %v", err))
		return
	}
	tab.VerifSeedRand(p.Seed)
	d.tab, d.db = tab, db
	for _, pf := range p.Prefill {
		for i := 0; i < pf.N; i++ {
			tab.VerifHandleAddNode(mkNode(poolID(pf.B, i), pf.A, 0, 0), false, i%2 == 0)
		}
	}
	loopDead := make(chan struct{})
	loopExited := make(chan struct{})
	go func() {
		defer close(loopExited)
		if e := pbt.SafeCall(func() error { tab.VerifLoop(); return nil }); e != nil {
			sink.add(fmt.Errorf("the table loop panicked: %w", e))
			close(loopDead)
		}
	}()
	dead := func() bool {
		select {
		case <-loopDead:
			return true
		default:
			return false
		}
	}
	sample := func(where string) bool {
		synctest.Wait()
		if dead() {
			return false
		}
		s := tab.VerifSnapshot()
		snapMu.Lock()
		snap = s
		snapMu.Unlock()
		if err := checkInvariants(s, false); err != nil {
			sink.add(fmt.Errorf("%s: %w", where, err))
			return false
		}
		// Reported, not judged: the statement does not mention the revalidation lists,
		// and a deletion from another goroutine may race with the loop's bookkeeping.
		entryList := map[enode.ID]string{}
		full := false
		for _, b := range s.Buckets {
			for _, n := range b.Entries {
				entryList[n.ID] = n.RevalList
			}
			if len(b.Entries) == model.KadBucketSize {
				full = true
			}
		}
		if err := checkRevalLists(s, entryList); err != nil {
			c.Class("loop:reval-lists-inconsistent")
			c.Notef("%s: %v", where, err)
		}
		if full {
			c.Class("loop:sample-with-full-bucket")
		}
		return true
	}

	ok := sample("after start")
	rounds := p.Rounds
	for i := 0; i < p.Cycles && i < 2000; i++ {
		rounds = append(rounds, p.Rounds...)
	}
	for ri, rd := range rounds {
		if !ok {
			break
		}
		if rd.Dt > 0 {
			time.Sleep(time.Duration(rd.Dt) * time.Millisecond)
			if ok = sample(fmt.Sprintf("round %d after the clock advanced", ri)); !ok {
				break
			}
		}
		snapMu.Lock()
		s := snap
		snapMu.Unlock()
		var wg sync.WaitGroup
		finished := make([]atomic.Bool, len(rd.Ops))
		mutating, buckets, maxDl := 0, map[int]int{}, 0
		for oi, op := range rd.Ops {
			var f func()
			switch op.K {
			case opFound, opInbound:
				n := resolveNode(op.N, p.NIDs, s)
				inbound, live := op.K == opInbound, op.Live
				buckets[bucketIndexOf(n.ID())]++
				f = func() {
					if inbound {
						tab.VerifAddInboundNode(n)
					} else {
						tab.VerifAddFoundNode(n, live)
					}
				}
			case opDelete:
				n := resolveNode(op.N, p.NIDs, s)
				buckets[bucketIndexOf(n.ID())]++
				f = func() { tab.VerifDeleteNode(n) }
			case opTrack:
				n := resolveNode(op.N, p.NIDs, s)
				if !n.IPAddr().IsValid() {
					n = mkNode(n.ID(), addrLAN, op.N.P, op.N.S)
				}
				var found []*enode.Node
				for _, fr := range op.Found {
					found = append(found, resolveNode(fr, p.NIDs, s))
				}
				reps := op.Rep
				buckets[bucketIndexOf(n.ID())]++
				f = func() {
					for i := 0; i <= reps; i++ {
						tab.VerifTrackRequest(n, len(found) > 0, found)
					}
				}
			case opRefresh:
				f = func() { <-tab.VerifRefresh() }
			case opAnswer:
				pp := d.takeParked(op.Pick)
				if pp == nil {
					c.Class("answer-without-pending-ping")
					finished[oi].Store(true)
					continue
				}
				a, rec := mkAnswer(op.Ans, pp.node, op.R)
				if rec != nil && !validRevalRecord(rec) {
					a = pingAns{remoteSeq: pp.node.Seq() + 1, reqErr: true}
				}
				d.mu.Lock()
				d.answers[pp.node.ID()] = a
				d.mu.Unlock()
				buckets[bucketIndexOf(pp.node.ID())]++
				f = func() { pp.rel <- a }
				c.Class("loop:ping-answered")
			default:
				finished[oi].Store(true)
				continue
			}
			mutating++
			c.Class("op:" + op.K)
			if op.Dl > maxDl {
				maxDl = op.Dl
			}
			wg.Add(1)
			go func() {
				defer wg.Done()
				if op.Dl > 0 {
					time.Sleep(time.Duration(op.Dl) * time.Millisecond)
				}
				sink.guard(f)
				finished[oi].Store(true)
			}()
		}
		if maxDl > 0 {
			c.Class("loop:ops-concurrent-with-timers")
			time.Sleep(time.Duration(maxDl) * time.Millisecond)
		}
		if ok = sample(fmt.Sprintf("round %d", ri)); !ok {
			break
		}
		for oi := range finished {
			if !finished[oi].Load() {
				sink.add(fmt.Errorf("round %d: operation %q did not complete although every goroutine is idle (table loop wedged)", ri, rd.Ops[oi].K))
				ok = false
			}
		}
		if !ok {
			break
		}
		wg.Wait()
		if mutating >= 2 {
			c.NT("loop:round-with>=2-concurrent-ops")
			for _, k := range buckets {
				if k >= 2 {
					c.NT("loop:concurrent-ops-on-one-bucket")
				}
			}
		}
	}
	// wind down: release every ping, let the responses be processed, stop the loop
	close(d.free)
	if !dead() {
		sample("after the last round")
		if !dead() {
			tab.VerifClose()
		}
	}
	synctest.Wait()
}

func TestC07_Loop(t *testing.T) { pbt.Run(t, "C07", "loop", genLPlan, runC07Loop) }
