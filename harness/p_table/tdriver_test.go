package p_table

// Shared by C07 and C18: id/address pools, the operation plan, its generator and
// the serial-mode executor (one table operation at a time, no loop goroutine;
// revalidation pings are parked on harness gates and answered by the plan).

import (
	"context"
	"crypto/sha256"
	"errors"
	"fmt"
	"net"
	"net/netip"
	"sort"
	"sync"
	"testing"
	"time"

	"github.com/ethereum/go-ethereum/common/mclock"
	"github.com/ethereum/go-ethereum/p2p/enode"
	"github.com/zen-eth/shisui/portalwire"
	"pgregory.net/rapid"
	"verifharness/gen"
	model "verifharness/model/kad"
	"verifharness/pbt"
	"verifharness/stats"
)

func TestMain(m *testing.M) { pbt.Main(m) }

// ---------------------------------------------------------------------------
// pools

var localID = enode.ID(sha256.Sum256([]byte("verif-p_table-local-node")))

type slotSpec struct {
	dists []int // true log-distances used in this slot
	n     int   // ids in the slot
}

// Six distance classes: bucket 0 with several true distances (including both
// sides of its upper boundary 240|241), the last bucket, and four in between.
// Six buckets x 2 per /24 = 12 > 10, so the table-wide /24 limit is reachable.
var slots = []slotSpec{
	{dists: []int{9, 120, 200, 239, 240, 240}, n: 30},
	{dists: []int{241}, n: 30},
	{dists: []int{248}, n: 24},
	{dists: []int{254}, n: 12},
	{dists: []int{255}, n: 24},
	{dists: []int{256}, n: 30},
}

func poolID(slot, i int) enode.ID {
	s := slots[slot%len(slots)]
	i = i % s.n
	fill := sha256.Sum256([]byte(fmt.Sprintf("verif-pool-%d-%d", slot%len(slots), i)))
	return gen.IDAtLogDist(localID, s.dists[i%len(s.dists)], enode.ID(fill))
}

type addrSpec struct {
	ip   net.IP // nil: record without ip entry
	kind string
}

// Weighted by repetition. LAN and loopback are exempt from the /24 limits (needed
// to fill a bucket at all); pubA is the crowded /24; 52.10.0.255 and 52.11.1.1 sit
// next to pubA's /24 without belonging to it.
var addrPool = []addrSpec{
	{net.IP{10, 0, 0, 1}, "lan"}, {net.IP{10, 0, 0, 1}, "lan"}, {net.IP{10, 0, 0, 2}, "lan"}, {net.IP{192, 168, 1, 5}, "lan"},
	{net.IP{172, 16, 9, 9}, "lan"}, {net.IP{10, 0, 0, 1}, "lan"}, {net.IP{10, 0, 0, 2}, "lan"},
	{net.IP{127, 0, 0, 1}, "loopback"},
	{net.IP{52, 10, 1, 1}, "pubA"}, {net.IP{52, 10, 1, 2}, "pubA"}, {net.IP{52, 10, 1, 200}, "pubA"}, {net.IP{52, 10, 1, 1}, "pubA"},
	{net.IP{52, 10, 2, 1}, "pubB"}, {net.IP{52, 10, 2, 2}, "pubB"},
	{net.IP{8, 8, 8, 8}, "pubC"}, {net.IP{8, 8, 8, 9}, "pubC"},
	{net.IP{52, 10, 0, 255}, "pubD"}, {net.IP{52, 11, 1, 1}, "pubE"},
	{net.IP{0, 0, 0, 0}, "unspecified"},
	{nil, "none"},
}

const (
	addrLAN  = 0
	addrPubA = 8
)

var portPool = []int{30303, 30303, 30303, 30304}

// ---------------------------------------------------------------------------
// plan

// nref names a node record: an id (from the pools, or "the I-th node currently in
// the table", or the local id) plus endpoint and sequence number.
type nref struct {
	B int  `json:"b,omitempty"` // slot
	I int  `json:"i,omitempty"` // index in the slot, or into the nodes currently present when E
	E bool `json:"e,omitempty"`
	L bool `json:"l,omitempty"` // the local node's id
	A int  `json:"a,omitempty"` // address pool index
	P int  `json:"p,omitempty"` // port pool index
	S int  `json:"s,omitempty"` // sequence number
}

const (
	opFound   = "found"
	opInbound = "inbound"
	opDelete  = "delete"
	opTick    = "tick"    // advance the clock, run the revalidation scheduler, leave the pings pending
	opReval   = "reval"   // tick and answer every ping it started with Ans
	opAnswer  = "answer"  // answer one pending ping
	opTrack   = "track"   // lookup feedback: success iff Found is non-empty
	opRefresh = "refresh" // loop mode only
)

// Ans: 0 dead, 1 alive (no new sequence number), 2 alive announcing a higher
// sequence number and the record request returns R, 3 same but the request fails.
type top struct {
	K     string `json:"k"`
	N     nref   `json:"n"`
	Live  bool   `json:"live,omitempty"`
	Rep   int    `json:"rep,omitempty"` // repeat the step this many extra times
	Dt    int    `json:"dt,omitempty"`  // milliseconds
	Dl    int    `json:"dl,omitempty"`  // loop mode: virtual milliseconds this goroutine sleeps before acting
	Pick  int    `json:"pick,omitempty"`
	Ans   int    `json:"ans,omitempty"`
	R     nref   `json:"r"`
	Found []nref `json:"found,omitempty"`
}

type prefill struct {
	B   int `json:"b"`
	N   int `json:"n"`
	A   int `json:"a"`
	Off int `json:"off,omitempty"` // first id of the slot's pool that is used
}

type tplan struct {
	Seed    int64     `json:"seed"`
	NIDs    int       `json:"nids"` // ids used per slot (small => more collisions)
	Prefill []prefill `json:"prefill,omitempty"`
	Ops     []top     `json:"ops"`
	Drain   int       `json:"drain"` // answer given to the pings still pending at the end
}

type genCfg struct {
	hot    int
	loop   bool
	maxOps int
}

func genAddr(t *rapid.T, label string) int {
	return rapid.IntRange(0, len(addrPool)-1).Draw(t, label)
}

func genNref(t *rapid.T, g genCfg, label string) nref {
	r := nref{A: genAddr(t, label+"a"), P: rapid.IntRange(0, len(portPool)-1).Draw(t, label+"p"), S: rapid.IntRange(0, 3).Draw(t, label+"s")}
	sel := rapid.IntRange(0, 19).Draw(t, label+"sel")
	switch {
	case sel == 0:
		r.L = true
	case sel <= 6:
		r.E = true
		r.I = rapid.IntRange(0, 95).Draw(t, label+"ei")
	default:
		if rapid.IntRange(0, 9).Draw(t, label+"hot") < 6 {
			r.B = g.hot
		} else {
			r.B = rapid.IntRange(0, len(slots)-1).Draw(t, label+"b")
		}
		r.I = rapid.IntRange(0, 29).Draw(t, label+"i")
	}
	return r
}

var opWeightsSerial = []string{
	opFound, opFound, opFound, opFound, opFound, opFound,
	opInbound, opInbound, opInbound,
	opDelete, opDelete,
	opTick, opTick,
	opReval, opReval, opReval, opReval,
	opAnswer, opAnswer,
	opTrack, opTrack, opTrack, opTrack,
}

func genOp(t *rapid.T, g genCfg, kinds []string) top {
	op := top{K: rapid.SampledFrom(kinds).Draw(t, "k")}
	switch op.K {
	case opFound:
		op.N = genNref(t, g, "n")
		op.Live = rapid.Bool().Draw(t, "live")
	case opInbound:
		op.N = genNref(t, g, "n")
	case opDelete:
		op.N = genNref(t, g, "n")
		if rapid.IntRange(0, 3).Draw(t, "del-existing") > 0 {
			op.N.E, op.N.L = true, false
		}
	case opTick:
		op.Dt = rapid.SampledFrom([]int{0, 100, 1000, 3000, 10000}).Draw(t, "dt")
	case opReval:
		op.Dt = rapid.SampledFrom([]int{1000, 3000, 3000, 10000}).Draw(t, "dt")
		op.Ans = rapid.SampledFrom([]int{0, 0, 1, 1, 1, 2, 2, 3}).Draw(t, "ans")
		op.R = nref{A: genAddr(t, "ra"), P: rapid.IntRange(0, len(portPool)-1).Draw(t, "rp"), S: rapid.IntRange(0, 4).Draw(t, "rs")}
		op.Rep = rapid.SampledFrom([]int{0, 0, 0, 1, 2, 3, 5}).Draw(t, "rep")
	case opAnswer:
		op.Pick = rapid.IntRange(0, 7).Draw(t, "pick")
		op.Ans = rapid.SampledFrom([]int{0, 0, 1, 1, 2, 2, 3}).Draw(t, "ans")
		op.R = nref{A: genAddr(t, "ra"), P: rapid.IntRange(0, len(portPool)-1).Draw(t, "rp"), S: rapid.IntRange(0, 4).Draw(t, "rs")}
	case opTrack:
		op.N = genNref(t, g, "n")
		if rapid.IntRange(0, 3).Draw(t, "trk-existing") > 0 {
			op.N.E, op.N.L = true, false
		}
		if rapid.IntRange(0, 9).Draw(t, "fruitless") < 6 {
			op.Rep = rapid.SampledFrom([]int{0, 0, 1, 3, 4, 4, 5, 6}).Draw(t, "rep")
		} else {
			n := rapid.IntRange(1, 4).Draw(t, "nfound")
			for i := 0; i < n; i++ {
				op.Found = append(op.Found, genNref(t, g, fmt.Sprintf("f%d", i)))
			}
		}
	case opRefresh:
	}
	return op
}

func genPrefill(t *rapid.T) []prefill {
	var out []prefill
	switch rapid.IntRange(0, 5).Draw(t, "prefillKind") {
	case 0: // nothing
	case 1, 2, 3: // fill one or two buckets from the LAN
		n := rapid.IntRange(1, 2).Draw(t, "pfn")
		for i := 0; i < n; i++ {
			out = append(out, prefill{B: rapid.IntRange(0, len(slots)-1).Draw(t, "pfb"), N: rapid.IntRange(3, 30).Draw(t, "pfc"), A: addrLAN})
		}
	default: // spread the crowded /24 over the buckets, towards the table-wide limit
		n := rapid.IntRange(3, 6).Draw(t, "pfs")
		for i := 0; i < n; i++ {
			out = append(out, prefill{B: i, N: rapid.IntRange(1, 3).Draw(t, "pfc"), A: addrPubA + rapid.IntRange(0, 3).Draw(t, "pfa")})
		}
		if rapid.Bool().Draw(t, "pfFill") {
			out = append(out, prefill{B: rapid.IntRange(0, len(slots)-1).Draw(t, "pfb"), N: rapid.IntRange(10, 30).Draw(t, "pfc2"), A: addrLAN})
		}
	}
	return out
}

func genTPlan(t *rapid.T) tplan {
	g := genCfg{hot: rapid.IntRange(0, len(slots)-1).Draw(t, "hot"), maxOps: pbt.Thorough(80, 160)}
	p := tplan{
		Seed:    rapid.Int64Range(1, 1<<40).Draw(t, "seed"),
		NIDs:    rapid.SampledFrom([]int{2, 4, 8, 30, 30, 30}).Draw(t, "nids"),
		Prefill: genPrefill(t),
		Drain:   rapid.IntRange(0, 1).Draw(t, "drain"),
	}
	if rapid.IntRange(0, 7).Draw(t, "crowd") == 0 {
		// a crowded bucket: 16 entries (two from one public /24, one from another, the rest from the LAN) and a full
		// stand-by list whose oldest member is a second node of that other /24 (both /24s are then at the bucket's
		// limit); then newcomers from the two /24s arrive. The address sets must keep counting what the bucket holds.
		hot := rapid.SampledFrom([]int{1, 5}).Draw(t, "crowdSlot")
		g.hot = hot
		p.NIDs = 30
		p.Prefill = []prefill{{B: hot, N: 2, A: 12, Off: 0}, {B: hot, N: 1, A: addrPubA, Off: 2}, {B: hot, N: 13, A: addrLAN, Off: 3},
			{B: hot, N: 1, A: addrPubA + 1, Off: 16}, {B: hot, N: 9, A: addrLAN, Off: 17}}
		for i, a := range []int{13, addrPubA + 2, addrPubA, 12, addrPubA + 1} {
			if i >= 4 && !rapid.Bool().Draw(t, "crowdMore") {
				break
			}
			p.Ops = append(p.Ops, top{K: opFound, N: nref{B: hot, I: 26 + i%4, A: a}, Live: rapid.Bool().Draw(t, "crowdLive")})
		}
	}
	n := rapid.IntRange(0, g.maxOps).Draw(t, "nops")
	for i := 0; i < n; i++ {
		p.Ops = append(p.Ops, genOp(t, g, opWeightsSerial))
	}
	return p
}

// ---------------------------------------------------------------------------
// resolution of references

func kadID(id enode.ID) model.KadID { return model.KadID(id) }

func mkNode(id enode.ID, a, p, s int) *enode.Node {
	as := addrPool[a%len(addrPool)]
	return gen.NullNode(id, as.ip, portPool[p%len(portPool)], uint64(s))
}

func presentIDs(s portalwire.VerifTableSnap) []enode.ID {
	var ids []enode.ID
	for _, b := range s.Buckets {
		for _, n := range b.Entries {
			ids = append(ids, n.ID)
		}
		for _, n := range b.Replacements {
			ids = append(ids, n.ID)
		}
	}
	return ids
}

func resolveID(r nref, nids int, snap portalwire.VerifTableSnap) enode.ID {
	if r.L {
		return localID
	}
	if r.E {
		if ids := presentIDs(snap); len(ids) > 0 {
			return ids[r.I%len(ids)]
		}
	}
	if nids <= 0 {
		nids = 30
	}
	return poolID(r.B, r.I%nids)
}

func resolveNode(r nref, nids int, snap portalwire.VerifTableSnap) *enode.Node {
	return mkNode(resolveID(r, nids, snap), r.A, r.P, r.S)
}

func recOf(n *enode.Node) model.KadRec {
	return model.KadRec{ID: kadID(n.ID()), Seq: n.Seq(), IP: n.IPAddr(), UDP: n.UDP()}
}

// ---------------------------------------------------------------------------
// serial driver

type pingAns struct {
	dead      bool
	remoteSeq uint64
	rec       *enode.Node
	reqErr    bool
}

type pingGate struct {
	started chan struct{}
	node    *enode.Node // the record that is being pinged
	rel     chan pingAns
}

type serialDrv struct {
	tab   *portalwire.Table
	db    *enode.DB
	clock *mclock.Simulated

	mu      sync.Mutex
	gates   map[enode.ID]*pingGate
	answers map[enode.ID]pingAns
	pending []enode.ID // pings parked, in the order they were noticed
}

func (d *serialDrv) gate(id enode.ID) *pingGate {
	d.mu.Lock()
	defer d.mu.Unlock()
	g := d.gates[id]
	if g == nil {
		g = &pingGate{started: make(chan struct{}), rel: make(chan pingAns, 1)}
		d.gates[id] = g
	}
	return g
}

func newSerialDrv(seed int64) (*serialDrv, error) {
	d := &serialDrv{clock: new(mclock.Simulated), gates: map[enode.ID]*pingGate{}, answers: map[enode.ID]pingAns{}}
	self := gen.NullNode(localID, net.IP{127, 0, 0, 1}, 30300, 1)
	tr := &portalwire.VerifTransport{
		SelfFn: func() *enode.Node { return self },
		PingFn: func(n *enode.Node) (uint64, error) {
			g := d.gate(n.ID())
			g.node = n
			close(g.started)
			a := <-g.rel
			if a.dead {
				return 0, errors.New("verif: no pong")
			}
			return a.remoteSeq, nil
		},
		RequestENRFn: func(n *enode.Node) (*enode.Node, error) {
			d.mu.Lock()
			a := d.answers[n.ID()]
			d.mu.Unlock()
			if a.reqErr || a.rec == nil {
				return nil, errors.New("verif: record request failed")
			}
			return a.rec, nil
		},
	}
	db, err := enode.OpenDB("")
	if err != nil {
		return nil, err
	}
	d.db = db
	tab, err := portalwire.VerifNewTable(tr, db, portalwire.Config{Clock: d.clock})
	if err != nil {
		db.Close()
		return nil, err
	}
	tab.VerifSeedRand(seed)
	tab.VerifMarkInitDone()
	d.tab = tab
	return d, nil
}

func (d *serialDrv) close() { d.db.Close() }

type startedPing struct {
	ID  enode.ID
	Rec *enode.Node
}

// tick advances the clock, runs the scheduler and returns the pings it started
// (each is parked inside PingFn when this returns).
func (d *serialDrv) tick(dt time.Duration, before portalwire.VerifTableSnap) []startedPing {
	d.clock.Run(dt)
	d.tab.VerifRevalRun(d.clock.Now())
	after := d.tab.VerifSnapshot()
	was := map[enode.ID]bool{}
	for _, id := range before.ActiveReq {
		was[id] = true
	}
	var out []startedPing
	for _, id := range after.ActiveReq {
		if was[id] {
			continue
		}
		g := d.gate(id)
		<-g.started
		out = append(out, startedPing{ID: id, Rec: g.node})
		d.pending = append(d.pending, id)
	}
	return out
}

// answer releases the parked ping of id with a and processes the response.
func (d *serialDrv) answer(id enode.ID, a pingAns) error {
	d.mu.Lock()
	g := d.gates[id]
	delete(d.gates, id)
	d.answers[id] = a
	d.mu.Unlock()
	if g == nil {
		return fmt.Errorf("harness: no parked ping for %x", id[:4])
	}
	for i, p := range d.pending {
		if p == id {
			d.pending = append(d.pending[:i:i], d.pending[i+1:]...)
			break
		}
	}
	g.rel <- a
	got, ok := d.tab.VerifHandleNextRevalResponse(context.Background())
	if !ok || got != id {
		return fmt.Errorf("harness: expected the response of %x, got %x", id[:4], got[:4])
	}
	return nil
}

// step is one executed table operation, fully resolved, as the observers see it.
type step struct {
	Idx     int
	Kind    string // found inbound delete tick answer track
	Node    *enode.Node
	Live    bool
	Found   []*enode.Node
	Started []startedPing // tick
	PingID  enode.ID      // answer
	Pinged  *enode.Node   // answer: the record that was pinged
	Ans     int
	NewRec  *enode.Node // answer: record delivered by the record request (Ans==2)
}

type observer interface {
	// observe is called after every step with the snapshots around it.
	observe(st *step, before, after portalwire.VerifTableSnap) error
}

func mkAnswer(ans int, pinged *enode.Node, r nref) (pingAns, *enode.Node) {
	switch ans {
	case 0:
		return pingAns{dead: true}, nil
	case 1:
		seq := pinged.Seq()
		if r.S%2 == 1 && seq > 0 {
			seq-- // a pong may also announce an older sequence number
		}
		return pingAns{remoteSeq: seq}, nil
	case 2:
		// Same id as the pinged node (every real record request checks the distance-0 answer).
		rec := mkNode(pinged.ID(), r.A, r.P, r.S)
		return pingAns{remoteSeq: pinged.Seq() + 1 + uint64(r.P), rec: rec}, rec
	default:
		return pingAns{remoteSeq: pinged.Seq() + 1, reqErr: true}, nil
	}
}

// validRevalRecord: a record request goes through the relay-IP check of the
// response filter, which drops records without a usable address.
func validRevalRecord(n *enode.Node) bool {
	ip := n.IPAddr()
	return ip.IsValid() && !ip.IsUnspecified()
}

// runSerial executes the plan step by step.
func runSerial(p tplan, c *stats.Case, obs observer) error {
	d, err := newSerialDrv(p.Seed)
	if err != nil {
		return fmt.Errorf("harness: %v", err)
	}
	defer d.close()
	idx := 0
	snap := d.tab.VerifSnapshot()
	do := func(st *step, f func() error) error {
		st.Idx = idx
		idx++
		before := snap
		if err := f(); err != nil {
			return err
		}
		snap = d.tab.VerifSnapshot()
		if err := obs.observe(st, before, snap); err != nil {
			return fmt.Errorf("step %d (%s): %w", st.Idx, st.Kind, err)
		}
		return nil
	}
	add := func(n *enode.Node, inbound, live bool) error {
		k := opFound
		if inbound {
			k = opInbound
		}
		return do(&step{Kind: k, Node: n, Live: live}, func() error {
			d.tab.VerifHandleAddNode(n, inbound, live)
			return nil
		})
	}
	answerOne := func(id enode.ID, ans int, r nref) error {
		g := d.gate(id)
		a, rec := mkAnswer(ans, g.node, r)
		if rec != nil && !validRevalRecord(rec) {
			a, rec = pingAns{remoteSeq: g.node.Seq() + 1, reqErr: true}, nil
			ans = 3
			c.Class("guard:reval-record-without-address")
		}
		return do(&step{Kind: opAnswer, PingID: id, Pinged: g.node, Ans: ans, NewRec: rec}, func() error {
			return d.answer(id, a)
		})
	}
	tick := func(dt int) ([]startedPing, error) {
		st := &step{Kind: opTick}
		err := do(st, func() error {
			st.Started = d.tick(time.Duration(dt)*time.Millisecond, snap)
			return nil
		})
		return st.Started, err
	}

	for _, pf := range p.Prefill {
		for i := 0; i < pf.N; i++ {
			if err := add(mkNode(poolID(pf.B, pf.Off+i), pf.A, 0, 0), false, i%2 == 0); err != nil {
				return err
			}
		}
	}
	for _, op := range p.Ops {
		switch op.K {
		case opFound, opInbound:
			n := resolveNode(op.N, p.NIDs, snap)
			if err := add(n, op.K == opInbound, op.Live); err != nil {
				return err
			}
		case opDelete:
			n := resolveNode(op.N, p.NIDs, snap)
			if err := do(&step{Kind: opDelete, Node: n}, func() error { d.tab.VerifDeleteNode(n); return nil }); err != nil {
				return err
			}
		case opTick:
			if _, err := tick(op.Dt); err != nil {
				return err
			}
		case opReval:
			for rep := 0; rep <= op.Rep; rep++ {
				started, err := tick(op.Dt)
				if err != nil {
					return err
				}
				for _, sp := range started {
					if err := answerOne(sp.ID, op.Ans, op.R); err != nil {
						return err
					}
				}
			}
		case opAnswer:
			if len(d.pending) == 0 {
				c.Class("answer-without-pending-ping")
				continue
			}
			if err := answerOne(d.pending[op.Pick%len(d.pending)], op.Ans, op.R); err != nil {
				return err
			}
		case opTrack:
			n := resolveNode(op.N, p.NIDs, snap)
			if !n.IPAddr().IsValid() {
				// A node that was queried has an address; the fruitless-query counter
				// is kept per (id, address) in the node database.
				c.Class("guard:tracked-node-without-address")
				n = mkNode(n.ID(), addrLAN, op.N.P, op.N.S)
			}
			var found []*enode.Node
			for _, f := range op.Found {
				found = append(found, resolveNode(f, p.NIDs, snap))
			}
			for rep := 0; rep <= op.Rep; rep++ {
				err := do(&step{Kind: opTrack, Node: n, Found: found}, func() error {
					d.tab.VerifTrackRequestSync(n, len(found) > 0, found) // through Table.trackRequest, as lookups report
					return nil
				})
				if err != nil {
					return err
				}
			}
		}
	}
	// Drain: every parked ping goroutine gets an answer so nothing leaks.
	for len(d.pending) > 0 {
		if err := answerOne(d.pending[0], p.Drain, nref{}); err != nil {
			return err
		}
	}
	return nil
}

// ---------------------------------------------------------------------------
// small helpers

func sortedIDs(m map[enode.ID]bool) []enode.ID {
	out := make([]enode.ID, 0, len(m))
	for id := range m {
		out = append(out, id)
	}
	sort.Slice(out, func(i, j int) bool { return string(out[i][:]) < string(out[j][:]) })
	return out
}

func snapAddr(n portalwire.VerifNodeSnap) netip.Addr { return n.IP }
