package p_table

// C10, cancellation while the engine is busy: the owned-schedule check can only cancel a lookup that is
// parked in its select. Here the lookup is kept busy scanning one very long reply (real time, outside
// the bubble) and cancelled in the middle of it; some of its queries are still outstanding. The lookup
// may only return once they have answered. Verdict: "returned while queries it started were still
// outstanding" - something the unchanged engine never does, whatever the timing; hitting the window is
// what depends on timing (the reply takes tens of milliseconds to scan, the cancel comes after 2 ms).

import (
	"context"
	"errors"
	"fmt"
	"net"
	"sync"
	"testing"
	"time"

	"github.com/ethereum/go-ethereum/p2p/enode"
	"github.com/zen-eth/shisui/portalwire"
	"pgregory.net/rapid"
	"verifharness/gen"
	"verifharness/pbt"
	"verifharness/stats"
)

type c10Busy struct {
	Parked   int // queries that stay outstanding (1..2)
	ReplyLen int // entries of the long reply (all the same few nodes)
	CancelUs int // microseconds after the long reply was released
	Seed     uint32
}

func genC10Busy(t *rapid.T) c10Busy {
	return c10Busy{Parked: rapid.IntRange(1, 2).Draw(t, "parked"), ReplyLen: rapid.SampledFrom([]int{1_000_000, 3_000_000}).Draw(t, "len"),
		CancelUs: rapid.SampledFrom([]int{500, 2000, 5000}).Draw(t, "cancelUs"), Seed: rapid.Uint32().Draw(t, "seed")}
}

func runC10Busy(p c10Busy, c *stats.Case) error {
	if p.Parked < 1 || p.Parked > 2 || p.ReplyLen < 1 || p.ReplyLen > 5_000_000 {
		return nil
	}
	self := gen.SignedNode(gen.NodeOpts{KeyIdx: 300, Seq: 1, IP: net.IP{127, 0, 0, 1}, UDP: 30300})
	tr := &portalwire.VerifTransport{
		SelfFn:       func() *enode.Node { return self },
		PingFn:       func(n *enode.Node) (uint64, error) { return n.Seq(), nil },
		RequestENRFn: func(n *enode.Node) (*enode.Node, error) { return nil, errors.New("verif: no record") },
	}
	db, err := enode.OpenDB("")
	if err != nil {
		return fmt.Errorf("harness: %v", err)
	}
	defer db.Close()
	tab, err := portalwire.VerifNewTable(tr, db, portalwire.Config{DisableInitCheck: true})
	if err != nil {
		return fmt.Errorf("harness: %v", err)
	}
	go tab.VerifLoop()
	defer tab.VerifClose()
	for !tab.VerifIsInitDone() {
		time.Sleep(100 * time.Microsecond)
	}
	// three seeds in the table: they are queried at once (alpha = 3)
	var seeds []*enode.Node
	for i := 0; i < 3; i++ {
		n := gen.SignedNode(gen.NodeOpts{KeyIdx: 301 + i + int(p.Seed%50)*3, Seq: 1, IP: net.IP{33, 1, byte(i + 1), 9}, UDP: 9000})
		seeds = append(seeds, n)
		tab.VerifAddFoundNode(n, true)
	}
	long := seeds[0].ID() // answers with the long reply; the others stay outstanding as planned
	filler := gen.SignedNode(gen.NodeOpts{KeyIdx: 500, Seq: 1, IP: net.IP{33, 2, 1, 9}, UDP: 9000})
	longReply := make([]*enode.Node, p.ReplyLen)
	for i := range longReply {
		longReply[i] = filler
	}
	var mu sync.Mutex
	outstanding := 0
	started := make(chan struct{}, 8)
	free := make(chan struct{})
	releaseLong := make(chan struct{})
	parkedLeft := p.Parked
	q := func(n *enode.Node) ([]*enode.Node, error) {
		mu.Lock()
		outstanding++
		isLong := n.ID() == long
		park := false
		if !isLong && parkedLeft > 0 {
			parkedLeft--
			park = true
		}
		mu.Unlock()
		started <- struct{}{}
		defer func() {
			mu.Lock()
			outstanding--
			mu.Unlock()
		}()
		switch {
		case isLong:
			<-releaseLong
			return longReply, nil
		case park:
			<-free
		}
		return nil, nil
	}
	ctx, cancel := context.WithCancel(context.Background())
	defer cancel()
	done := make(chan struct{})
	var lerr error
	go func() {
		defer close(done)
		lerr = pbt.SafeCall(func() error { portalwire.VerifRunLookup(ctx, tab, enode.ID{byte(p.Seed)}, q); return nil })
	}()
	for i := 0; i < 3; i++ {
		select {
		case <-started:
		case <-time.After(5 * time.Second):
			close(free)
			close(releaseLong)
			stats.For("C10").Count("inconclusive:busy-setup", 1)
			return nil
		}
	}
	close(releaseLong)
	time.Sleep(time.Duration(p.CancelUs) * time.Microsecond)
	cancel()
	// the outstanding queries are still parked: the lookup must not be able to return
	returnedEarly := false
	select {
	case <-done:
		mu.Lock()
		returnedEarly = outstanding > 0
		left := outstanding
		mu.Unlock()
		if returnedEarly {
			close(free)
			return fmt.Errorf("the lookup returned after a cancellation that came while it was scanning a reply of %d entries, with %d of its queries still outstanding", p.ReplyLen, left)
		}
	case <-time.After(300 * time.Millisecond):
	}
	close(free)
	select {
	case <-done:
	case <-time.After(20 * time.Second):
		return fmt.Errorf("the lookup did not return within 20 s after its cancellation and after every query had answered")
	}
	if lerr != nil {
		return fmt.Errorf("the lookup panicked: %v", lerr)
	}
	c.NT("cancel-while-scanning-a-long-reply")
	return nil
}

func TestC10_EngineBusyCancel(t *testing.T) { pbt.Run(t, "C10", "busy", genC10Busy, runC10Busy) }
