package p_table

// C10, engine part: the iterative lookup (lookup.run via VerifRunLookup) over the
// harness' query function inside a synctest bubble. After every synctest.Wait()
// all started queries are parked on harness gates; the plan's next choice picks
// the one that completes. Every completion order is therefore reachable,
// replayable and shrinkable, and virtual time makes the 1-second empty-table
// slowdown free. The table the lookup reports to is the real one with its real
// loop running (as in production, query results are fed back through trackRequest).

import (
	"context"
	"crypto/sha256"
	"encoding/binary"
	"errors"
	"fmt"
	"net"
	"testing"
	"testing/synctest"
	"time"

	"github.com/ethereum/go-ethereum/p2p/enode"
	"github.com/zen-eth/shisui/portalwire"
	"pgregory.net/rapid"
	"verifharness/gen"
	model "verifharness/model/kad"
	"verifharness/pbt"
	"verifharness/stats"
)

const (
	ansHonest = iota // the N closest to the target among what this peer knows
	ansSubset        // N arbitrary peers
	ansDup           // arbitrary peers, each twice, one of them also as a second record version
	ansAsker         // arbitrary peers plus the asking (local) node
	ansCycle         // itself and two fixed other peers (mutual references)
	ansEmpty
	ansError      // error, no nodes
	ansErrorNodes // error together with nodes
	ansFlood      // far more nodes than a lookup keeps
	ansKinds
)

type peerSpec struct {
	K int `json:"k"`
	N int `json:"n,omitempty"`
	S int `json:"s,omitempty"`
}

type c10Plan struct {
	Seed    uint32     `json:"seed"`
	Target  int        `json:"target"` // 0 arbitrary, 1 the local id, 2 the id of peer 0, 3 next to the local id
	Near    int        `json:"near"`   // this many peers form a chain of ids ever closer to the target
	Peers   []peerSpec `json:"peers"`  // 0..200 answer functions
	Table   []int      `json:"table,omitempty"`
	Choices []int      `json:"choices,omitempty"`
	Cancel  int        `json:"cancel"`            // -1: never; k: at the k-th scheduling step (0 = before the lookup starts)
	Both    bool       `json:"both,omitempty"`    // at the cancel step also release a query in the same instant
	Dead    bool       `json:"deadtab,omitempty"` // the table was closed before the lookup (shutdown race)
	Stall   int        `json:"stall,omitempty"`   // k > 0: at the k-th scheduling step every outstanding peer stays silent for another ten seconds (of the bubble's clock) before the next reply is released
}

func genC10Plan(t *rapid.T) c10Plan {
	p := c10Plan{
		Seed:   rapid.Uint32().Draw(t, "seed"),
		Target: rapid.SampledFrom([]int{0, 0, 0, 1, 2, 3}).Draw(t, "target"),
		Cancel: -1,
	}
	n := rapid.SampledFrom([]int{0, 1, 2, 3, 4, 5, 8, 12, 17, 20, 30, 40, 60, 100, 200}).Draw(t, "npeers")
	if rapid.IntRange(0, 3).Draw(t, "anyN") == 0 {
		n = rapid.IntRange(0, 200).Draw(t, "npeersAny")
	}
	if n > 0 {
		p.Near = rapid.IntRange(0, min(n, 40)).Draw(t, "near")
	}
	profile := rapid.SampledFrom([]string{"honest", "mixed", "mixed", "hostile"}).Draw(t, "profile")
	for i := 0; i < n; i++ {
		var k int
		switch profile {
		case "honest":
			k = rapid.SampledFrom([]int{ansHonest, ansHonest, ansHonest, ansHonest, ansHonest, ansEmpty, ansError}).Draw(t, "k")
		case "mixed":
			k = rapid.SampledFrom([]int{ansHonest, ansHonest, ansHonest, ansSubset, ansDup, ansAsker, ansCycle, ansEmpty, ansError, ansErrorNodes, ansFlood}).Draw(t, "k")
		default:
			k = rapid.IntRange(1, ansKinds-1).Draw(t, "k")
		}
		p.Peers = append(p.Peers, peerSpec{K: k, N: rapid.IntRange(1, 16).Draw(t, "n"), S: rapid.IntRange(0, 999).Draw(t, "s")})
	}
	if n > 0 {
		ns := rapid.SampledFrom([]int{0, 1, 1, 2, 3, 5, 16, 30}).Draw(t, "nseed")
		for i := 0; i < ns; i++ {
			p.Table = append(p.Table, rapid.IntRange(0, n-1).Draw(t, "tseed"))
		}
	}
	p.Choices = rapid.SliceOfN(rapid.IntRange(0, 5), 0, 24).Draw(t, "choices")
	if rapid.IntRange(0, 3).Draw(t, "withStall") == 0 {
		p.Stall = rapid.IntRange(1, 12).Draw(t, "stall")
	}
	if rapid.IntRange(0, 3).Draw(t, "withCancel") == 0 {
		p.Cancel = rapid.IntRange(0, 30).Draw(t, "cancel")
		p.Both = rapid.Bool().Draw(t, "both")
	}
	p.Dead = rapid.IntRange(0, 15).Draw(t, "deadtab") == 0
	return p
}

// ---------------------------------------------------------------------------
// the peer universe

type universe struct {
	target enode.ID
	ids    []enode.ID
	nodes  []*enode.Node // the record every honest reference uses
	alt    []*enode.Node // same id, newer sequence number
	index  map[enode.ID]int
	local  *enode.Node
}

func h32(seed uint32, tag string, i int) enode.ID {
	var b [12]byte
	binary.BigEndian.PutUint32(b[:4], seed)
	binary.BigEndian.PutUint64(b[4:], uint64(i))
	return enode.ID(sha256.Sum256(append([]byte("verif-c10-"+tag), b[:]...)))
}

func buildUniverse(p c10Plan) *universe {
	u := &universe{index: map[enode.ID]int{}}
	u.local = gen.NullNode(localID, net.IP{127, 0, 0, 1}, 30300, 1)
	first := h32(p.Seed, "peer", 0)
	switch p.Target {
	case 1:
		u.target = localID
	case 2:
		u.target = first
	case 3:
		u.target = gen.IDAtLogDist(localID, 3, h32(p.Seed, "t", 0))
	default:
		u.target = h32(p.Seed, "target", 0)
	}
	for i := range p.Peers {
		id := h32(p.Seed, "peer", i)
		if i > 0 && i <= p.Near {
			// a chain towards the target: log-distances 250, 244, ... down to 2
			d := 256 - 6*i
			if d < 2 {
				d = 2 + i%5
			}
			id = gen.IDAtLogDist(u.target, d, id)
		}
		if _, dup := u.index[id]; dup || id == localID {
			id = h32(p.Seed, "peer-alt", i)
		}
		u.index[id] = i
		u.ids = append(u.ids, id)
		ip := net.IP{10, byte(1 + i/200), byte(i % 200), 7}
		u.nodes = append(u.nodes, gen.NullNode(id, ip, 30303, 1))
		u.alt = append(u.alt, gen.NullNode(id, ip, 30304, 2))
	}
	return u
}

func lcg(x *uint32) int {
	*x = *x*1664525 + 1013904223
	return int(*x >> 8)
}

// answer is peer i's reply (never contains nil: every real query function filters).
func (u *universe) answer(p c10Plan, i int) ([]*enode.Node, error) {
	sp := p.Peers[i]
	n := len(u.ids)
	x := uint32(sp.S)*2654435761 + p.Seed
	pickSome := func(k int) []*enode.Node {
		var out []*enode.Node
		for j := 0; j < k; j++ {
			out = append(out, u.nodes[lcg(&x)%n])
		}
		return out
	}
	switch sp.K {
	case ansHonest:
		var known []model.KadID
		for j := range u.ids {
			if j == i {
				continue
			}
			if sp.S%3 == 0 || (j*7+i*13+sp.S)%3 != 0 {
				known = append(known, kadID(u.ids[j]))
			}
		}
		var out []*enode.Node
		for _, id := range model.ClosestK(kadID(u.target), known, sp.N) {
			out = append(out, u.nodes[u.index[enode.ID(id)]])
		}
		return out, nil
	case ansSubset:
		return pickSome(sp.N), nil
	case ansDup:
		some := pickSome(sp.N)
		out := append(append([]*enode.Node{}, some...), some...)
		out = append(out, u.alt[u.index[some[0].ID()]])
		return out, nil
	case ansAsker:
		out := pickSome(sp.N - 1)
		out = append(out, u.local)
		if sp.S%2 == 0 {
			out = append([]*enode.Node{u.local}, out...)
		}
		return out, nil
	case ansCycle:
		return []*enode.Node{u.nodes[i], u.nodes[(i+1)%n], u.nodes[(i+1+sp.S)%n]}, nil
	case ansEmpty:
		if sp.S%2 == 0 {
			return nil, nil
		}
		return []*enode.Node{}, nil
	case ansError:
		return nil, errors.New("verif: peer failed")
	case ansErrorNodes:
		return pickSome(sp.N), errors.New("verif: peer failed after a partial answer")
	default:
		return pickSome(24 + sp.N), nil
	}
}

// ---------------------------------------------------------------------------

type parkedQuery struct {
	idx int
	rel chan struct{}
}

type reply struct {
	nodes []*enode.Node
	step  int // scheduling step at which the query was released (-1: the table's own answer)
}

type c10Run struct {
	p    c10Plan
	u    *universe
	sink *errSink

	// everything below is touched only by bubble goroutines, under mu
	mu       chan struct{} // a mutex that is a channel: blocking on it is visible to the bubble
	asked    map[enode.ID]int
	supplied map[enode.ID]bool
	parked   []*parkedQuery
	inflight int
	peak     int
	queries  int
	replies  []reply
	step     int
	free     bool
	freeCh   chan struct{}
	advers   bool
}

func (r *c10Run) lock()   { r.mu <- struct{}{} }
func (r *c10Run) unlock() { <-r.mu }

func (r *c10Run) query(n *enode.Node) ([]*enode.Node, error) {
	id := n.ID()
	r.lock()
	r.queries++
	r.inflight++
	if r.inflight > r.peak {
		r.peak = r.inflight
	}
	idx, known := r.u.index[id]
	switch {
	case id == localID:
		r.sink.add(fmt.Errorf("the lookup queried the local node"))
	case !known:
		r.sink.add(fmt.Errorf("the lookup queried %x which no peer and no table entry ever supplied", id[:4]))
	case !r.supplied[id]:
		r.sink.add(fmt.Errorf("the lookup queried peer %d before anything supplied it", idx))
	}
	r.asked[id]++
	if r.asked[id] > 1 {
		r.sink.add(fmt.Errorf("peer %x was queried %d times", id[:4], r.asked[id]))
	}
	if r.inflight > model.KadAlpha {
		r.sink.add(fmt.Errorf("%d queries in flight (> %d)", r.inflight, model.KadAlpha))
	}
	pq := &parkedQuery{idx: idx, rel: make(chan struct{})}
	free := r.free || !known
	if !free {
		r.parked = append(r.parked, pq)
	}
	r.unlock()
	if !free {
		select {
		case <-pq.rel:
		case <-r.freeCh:
		}
	}
	var nodes []*enode.Node
	var err error
	if known {
		nodes, err = r.u.answer(r.p, idx)
	}
	r.lock()
	r.inflight--
	if known && r.p.Peers[idx].K != ansHonest {
		r.advers = true
	}
	r.replies = append(r.replies, reply{nodes: nodes, step: r.step})
	for _, x := range nodes {
		r.supplied[x.ID()] = true
	}
	r.unlock()
	return nodes, err
}

func runC10Engine(p c10Plan, c *stats.Case) (err error) {
	writeWAL("C10", "engine", p) // a panic in a goroutine the engine starts kills the process: the plan is the replay
	sink := &errSink{}
	defer func() {
		r := recover()
		if e := sink.first(); e != nil {
			err = e
		} else if r != nil {
			err = fmt.Errorf("bubble ended abnormally: %v", r)
		}
	}()
	synctest.Run(func() { c10Body(p, c, sink) })
	return nil
}

func c10Body(p c10Plan, c *stats.Case, sink *errSink) {
	u := buildUniverse(p)
	r := &c10Run{p: p, u: u, sink: sink, mu: make(chan struct{}, 1), asked: map[enode.ID]int{}, supplied: map[enode.ID]bool{}, freeCh: make(chan struct{})}

	tr := &portalwire.VerifTransport{
		SelfFn:       func() *enode.Node { return u.local },
		PingFn:       func(n *enode.Node) (uint64, error) { return n.Seq(), nil },
		RequestENRFn: func(n *enode.Node) (*enode.Node, error) { return nil, errors.New("verif: no record") },
	}
	db, err := enode.OpenDB("")
	if err != nil {
		sink.add(fmt.Errorf("harness: %v", err))
		return
	}
	defer db.Close()
	tab, err := portalwire.VerifNewTable(tr, db, portalwire.Config{Clock: newBubbleClock(), DisableInitCheck: true})
	if err != nil {
		sink.add(fmt.Errorf("harness: %v", err))
		return
	}
	tab.VerifSeedRand(int64(p.Seed) + 1)
	for _, i := range p.Table {
		tab.VerifHandleAddNode(u.nodes[i%len(u.nodes)], false, true)
	}
	// What the table holds is what it can contribute: the 16 entries closest to the target.
	var tableIDs []model.KadID
	byID := map[enode.ID]*enode.Node{}
	for _, b := range tab.VerifSnapshot().Buckets {
		for _, e := range b.Entries {
			tableIDs = append(tableIDs, kadID(e.ID))
		}
	}
	var seedReply reply
	seedReply.step = -1
	for _, id := range model.ClosestK(kadID(u.target), tableIDs, model.KadBucketSize) {
		n := u.nodes[u.index[enode.ID(id)]]
		seedReply.nodes = append(seedReply.nodes, n)
		r.supplied[n.ID()] = true
		byID[n.ID()] = n
	}
	emptyTable := len(seedReply.nodes) == 0

	loopExited := make(chan struct{})
	go func() {
		defer close(loopExited)
		if e := pbt.SafeCall(func() error { tab.VerifLoop(); return nil }); e != nil {
			sink.add(fmt.Errorf("the table loop panicked: %w", e))
		}
	}()
	closed := false
	if p.Dead {
		synctest.Wait()
		tab.VerifClose()
		closed = true
		c.Class("table-closed-before-lookup")
	}

	ctx, cancel := context.WithCancel(context.Background())
	defer cancel()
	cancelled, cancelStep := false, -1
	var maybe []reply // replies that may or may not have been processed
	if p.Cancel == 0 {
		// Cancelled before it starts: the engine still runs, and each of its selects
		// sees both a reply and the cancellation, so any reply may or may not count.
		cancel()
		cancelled, cancelStep = true, 0
		r.free = true
		close(r.freeCh)
		c.Class("cancelled-before-start")
	}

	var result []*enode.Node
	done := make(chan struct{})
	go func() {
		defer close(done)
		if e := pbt.SafeCall(func() error { result = portalwire.VerifRunLookup(ctx, tab, u.target, r.query); return nil }); e != nil {
			sink.add(fmt.Errorf("the lookup panicked: %w", e))
		}
	}()
	isDone := func() bool {
		select {
		case <-done:
			return true
		default:
			return false
		}
	}

	slept := false
	multiOrder := false
	stuck := false
	maxSteps := len(u.ids) + 8
	for step := 1; ; step++ {
		synctest.Wait()
		if isDone() || sink.first() != nil {
			break
		}
		r.lock()
		r.step = step
		np := len(r.parked)
		r.unlock()
		if np == 0 {
			// Nothing is outstanding. The only timer a lookup ever arms is the 1-second
			// slowdown on an empty table; once that has elapsed a pending lookup is stuck.
			if !slept {
				slept = true
				time.Sleep(1100 * time.Millisecond)
				continue
			}
			sink.add(fmt.Errorf("the lookup is still pending although no query is outstanding and no timer is armed (does not terminate); %d queries made", r.queries))
			stuck = true
			break
		}
		if step > maxSteps {
			sink.add(fmt.Errorf("more scheduling steps than peers: %d queries for %d peers", r.queries, len(u.ids)))
			break
		}
		if np >= 2 {
			multiOrder = true
		}
		if step == p.Stall {
			// slow peers: time passes while queries are outstanding. Whatever timers the engine arms, the bounds
			// (checked by the query function whenever a query starts, and below) hold afterwards as before.
			time.Sleep(10 * time.Second)
			synctest.Wait()
			if isDone() {
				r.lock()
				left := len(r.parked)
				r.unlock()
				if left > 0 {
					sink.add(fmt.Errorf("the lookup returned while %d of its queries were still running (peers silent for ten seconds)", left))
				}
				break
			}
			if sink.first() != nil {
				break
			}
			c.NT("peers-silent-for-ten-seconds-with-queries-outstanding")
		}
		release := func() {
			ch := 0
			if len(p.Choices) > 0 {
				ch = p.Choices[(step-1)%len(p.Choices)]
			}
			r.lock()
			pq := r.parked[ch%len(r.parked)]
			r.parked = append(r.parked[:ch%len(r.parked):ch%len(r.parked)], r.parked[ch%len(r.parked)+1:]...)
			r.unlock()
			close(pq.rel)
		}
		if !cancelled && p.Cancel == step {
			cancelled, cancelStep = true, step
			c.NT("cancel-with-queries-in-flight")
			if p.Both {
				c.Class("cancel-and-reply-in-the-same-instant")
				release()
			}
			cancel()
			synctest.Wait()
			// a lookup is only finished when its queries are: it may not return while queries it started are
			// still outstanding (their late replies would arrive at a lookup that no longer exists)
			r.lock()
			outstanding := len(r.parked)
			r.unlock()
			if isDone() && outstanding > 0 {
				sink.add(fmt.Errorf("the lookup returned right after the cancellation while %d of its queries were still outstanding", outstanding))
				break
			}
			// from here on nothing parks: outstanding queries return and are drained
			r.lock()
			r.free = true
			r.step = step + 1<<20 // replies from here on are drained, never processed
			r.unlock()
			close(r.freeCh)
			continue
		}
		if cancelled {
			// cannot happen: after the cancel step nothing parks
			sink.add(fmt.Errorf("harness: query parked after cancellation"))
			break
		}
		release()
	}
	// wind down
	r.lock()
	wasFree := r.free
	r.free = true
	r.unlock()
	if !wasFree {
		close(r.freeCh)
	}
	cancel()
	if !stuck {
		synctest.Wait()
		if !isDone() && sink.first() == nil {
			sink.add(fmt.Errorf("the lookup did not return after cancellation and after every query had answered"))
			stuck = true
		}
	}
	if !closed {
		tab.VerifClose()
	}
	synctest.Wait()
	if stuck || sink.first() != nil {
		return
	}

	// ------------------------------------------------------------------ judge
	r.lock()
	defer r.unlock()
	nPeers := len(u.ids)
	if r.queries > nPeers {
		sink.add(fmt.Errorf("%d queries for %d peers", r.queries, nPeers))
		return
	}
	// A reply released at step s is consumed before the Wait() that opens step s+1, so
	// everything released strictly before the cancel step was certainly processed; the
	// reply released in the same instant as the cancel may or may not have been.
	var certain []reply
	if cancelStep == 0 {
		maybe = append(append(maybe, seedReply), r.replies...)
	} else {
		certain = append(certain, seedReply)
		for _, rp := range r.replies {
			switch {
			case !cancelled || rp.step < cancelStep:
				certain = append(certain, rp)
			case rp.step == cancelStep && p.Both:
				maybe = append(maybe, rp)
			}
		}
	}
	records := map[enode.ID]map[*enode.Node]bool{}
	var certainIDs []model.KadID
	possible := map[enode.ID]bool{}
	for _, rp := range certain {
		for _, n := range rp.nodes {
			certainIDs = append(certainIDs, kadID(n.ID()))
			possible[n.ID()] = true
		}
	}
	for _, l := range [][]reply{certain, maybe} {
		for _, rp := range l {
			for _, n := range rp.nodes {
				possible[n.ID()] = true
				if records[n.ID()] == nil {
					records[n.ID()] = map[*enode.Node]bool{}
				}
				records[n.ID()][n] = true
			}
		}
	}
	if len(result) > model.KadBucketSize {
		sink.add(fmt.Errorf("the lookup returned %d nodes (> %d)", len(result), model.KadBucketSize))
		return
	}
	seen := map[enode.ID]bool{}
	for i, n := range result {
		if n == nil {
			sink.add(fmt.Errorf("result[%d] is nil", i))
			return
		}
		id := n.ID()
		if seen[id] {
			sink.add(fmt.Errorf("node %x appears twice in the result", id[:4]))
			return
		}
		seen[id] = true
		if !possible[id] {
			sink.add(fmt.Errorf("result contains %x which nothing the lookup processed had supplied", id[:4]))
			return
		}
		if !records[id][n] {
			sink.add(fmt.Errorf("result contains a record of %x that nobody supplied", id[:4]))
			return
		}
		if i > 0 && !model.DistLess(kadID(u.target), kadID(result[i-1].ID()), kadID(id)) {
			sink.add(fmt.Errorf("result is not sorted by distance to the target at position %d", i))
			return
		}
	}
	if !cancelled || len(maybe) == 0 {
		want := model.ClosestK(kadID(u.target), certainIDs, model.KadBucketSize)
		if len(want) != len(result) {
			sink.add(fmt.Errorf("the lookup returned %d nodes, the %d closest of the %d seen are %d", len(result), model.KadBucketSize, len(possible), len(want)))
			return
		}
		for i := range want {
			if enode.ID(want[i]) != result[i].ID() {
				sink.add(fmt.Errorf("result[%d] = %x but the %d-th closest seen node is %x (a closer seen node was omitted)", i, result[i].ID().Bytes()[:4], i, want[i][:4]))
				return
			}
		}
	} else {
		// result must be the closest-16 of (certain + some subset of maybe): no certain
		// node may be omitted unless the result is full and ends closer than it.
		for _, cid := range model.ClosestK(kadID(u.target), certainIDs, len(certainIDs)+1) {
			if seen[enode.ID(cid)] {
				continue
			}
			if len(result) < model.KadBucketSize || model.DistLess(kadID(u.target), cid, kadID(result[len(result)-1].ID())) {
				sink.add(fmt.Errorf("seen node %x is closer than the result's last node but was omitted (after cancellation)", cid[:4]))
				return
			}
		}
	}

	// ------------------------------------------------------------------ classes
	if r.queries >= 4 && multiOrder {
		c.NT("queries>=4-with-order-choice")
	}
	if r.advers {
		c.NT("adversarial-answer-processed")
	}
	if emptyTable {
		c.Class("empty-table-start")
	}
	if len(possible) > model.KadBucketSize {
		c.Class("seen>16")
	}
	if r.peak == model.KadAlpha {
		c.Class("in-flight-reached-3")
	}
	if r.queries == nPeers && nPeers > 0 {
		c.Class("every-peer-queried")
	}
	if seen[localID] {
		c.Class("asker-in-result")
	}
	switch {
	case nPeers == 0:
		c.Class("peers:0")
	case nPeers <= 16:
		c.Class("peers:1-16")
	case nPeers <= 60:
		c.Class("peers:17-60")
	default:
		c.Class("peers:61-200")
	}
}

func TestC10_Engine(t *testing.T) { pbt.Run(t, "C10", "engine", genC10Plan, runC10Engine) }
