package p_table

// C18: the bucket policy (who enters, who leaves, which record is stored) compared
// step by step with the executable reference model in harness/model/kadtable.go.

import (
	"fmt"
	"sort"
	"strings"
	"testing"

	"github.com/ethereum/go-ethereum/p2p/enode"
	"github.com/zen-eth/shisui/portalwire"
	model "verifharness/model/kad"
	"verifharness/pbt"
	"verifharness/stats"
)

type modelObserver struct {
	c     *stats.Case
	m     *model.KadTable
	pings map[enode.ID]int // id -> model membership (Gen) the pending ping was started on
}

func newModelObserver(c *stats.Case) *modelObserver {
	return &modelObserver{c: c, m: model.NewKadTable(kadID(localID)), pings: map[enode.ID]int{}}
}

// promoteFrom resolves the one open choice of the statement - which replacement
// succeeds a removed entry - from the table's state after the step: exactly one
// member of the bucket's replacement list must have become an entry.
func promoteFrom(after portalwire.VerifTableSnap) model.Promote {
	return func(bi int, removed model.KadID, cands []model.KadID) (model.KadID, error) {
		var got []model.KadID
		for _, cnd := range cands {
			if findSnap(after.Buckets[bi].Entries, enode.ID(cnd)) != nil {
				got = append(got, cnd)
			}
		}
		if len(got) != 1 {
			return model.KadID{}, fmt.Errorf("entry %x left bucket %d which had %d replacements, and %d of them became entries (want exactly 1)",
				removed[:4], bi, len(cands), len(got))
		}
		return got[0], nil
	}
}

func (o *modelObserver) observe(st *step, before, after portalwire.VerifTableSnap) error {
	m := o.m
	m.Ev = m.Ev[:0]
	promote := promoteFrom(after)
	o.c.Class("op:" + st.Kind)
	var err error
	switch st.Kind {
	case opFound, opInbound:
		m.Add(recOf(st.Node), st.Kind == opInbound, st.Live)
	case opDelete:
		err = m.Delete(kadID(st.Node.ID()), promote)
	case opTrack:
		var found []model.KadRec
		for _, f := range st.Found {
			found = append(found, recOf(f))
		}
		err = m.Track(recOf(st.Node), len(found) > 0, found, promote)
	case opTick:
		for _, sp := range st.Started {
			e := m.Entry(kadID(sp.ID))
			if e == nil {
				return fmt.Errorf("a liveness check was started for %x which is not an entry", sp.ID[:4])
			}
			if r := recOf(sp.Rec); r != e.KadRec {
				return fmt.Errorf("liveness check of %x uses record seq=%d %v:%d, the stored record should be seq=%d %v:%d",
					sp.ID[:4], r.Seq, r.IP, r.UDP, e.Seq, e.IP, e.UDP)
			}
			o.pings[sp.ID] = e.Gen
		}
	case opAnswer:
		g, ok := o.pings[st.PingID]
		if !ok {
			return fmt.Errorf("harness: answer for a ping the model never saw start")
		}
		delete(o.pings, st.PingID)
		var nr *model.KadRec
		if st.NewRec != nil {
			r := recOf(st.NewRec)
			nr = &r
		}
		err = m.PingAnswer(kadID(st.PingID), g, st.Ans != 0, nr, promote)
	}
	if err != nil {
		return err
	}
	if err := compareModel(m, after); err != nil {
		return fmt.Errorf("%w [model events: %s]", err, strings.Join(m.Ev, ","))
	}
	o.classify(st, before)
	return nil
}

func (o *modelObserver) classify(st *step, before portalwire.VerifTableSnap) {
	has := func(ev string) bool {
		for _, e := range o.m.Ev {
			if e == ev {
				return true
			}
		}
		return false
	}
	c := o.c
	for _, e := range o.m.Ev {
		c.Class("ev:" + e)
	}
	if has("replacement-added") {
		c.NT("full-bucket:newcomer-to-replacements")
	}
	if has("replacement-oldest-dropped") {
		c.NT("full-bucket:oldest-replacement-dropped")
	}
	if has("promoted") {
		c.NT("removal-with-promotion")
	}
	if has("update-rejected-not-newer") {
		c.NT("rejected-not-newer-record")
	}
	if has("endpoint-changed") {
		c.NT("endpoint-change-clears-verified")
	}
	if has("removed:credit-exhausted") {
		c.NT("removal:credit-exhausted")
	}
	if has("failed-but-credit-left") {
		c.NT("failed-check-survived-on-credit")
	}
	if has("removed:fruitless-queries") {
		c.NT("removal:fruitless-queries")
	}
	if has("fruitless-kept-small-bucket") {
		c.NT("fruitless-queries-kept:small-bucket")
	}
	if has("record-updated") && st.Kind == opInbound {
		c.Class("inbound-record-change")
	}
}

func fmtNode(n model.KadNode) string {
	return fmt.Sprintf("%x seq=%d %v:%d live=%v credit=%d", n.ID[:4], n.Seq, n.IP, n.UDP, n.Live, n.Credit)
}

func snapToKad(n portalwire.VerifNodeSnap) model.KadNode {
	return model.KadNode{KadRec: model.KadRec{ID: kadID(n.ID), Seq: n.Seq, IP: n.IP, UDP: n.UDP}, Live: n.Live, Credit: n.Checks}
}

// compareModel: entry sets (order inside a bucket is not part of the statement),
// replacement order, and per node sequence number, endpoint, verified flag, credit.
func compareModel(m *model.KadTable, s portalwire.VerifTableSnap) error {
	for bi := range s.Buckets {
		v := m.View(bi)
		got := make([]model.KadNode, 0, len(s.Buckets[bi].Entries))
		for _, n := range s.Buckets[bi].Entries {
			got = append(got, snapToKad(n))
		}
		sort.Slice(got, func(i, j int) bool { return string(got[i].ID[:]) < string(got[j].ID[:]) })
		if err := sameNodes(fmt.Sprintf("bucket %d entries", bi), got, v.Entries, false); err != nil {
			return err
		}
		got = got[:0]
		for _, n := range s.Buckets[bi].Replacements {
			got = append(got, snapToKad(n))
		}
		if err := sameNodes(fmt.Sprintf("bucket %d replacements (most recent first)", bi), got, v.Repl, true); err != nil {
			return err
		}
	}
	return nil
}

func sameNodes(where string, got, want []model.KadNode, ordered bool) error {
	ids := func(l []model.KadNode) string {
		var sb []string
		for _, n := range l {
			sb = append(sb, fmt.Sprintf("%x", n.ID[:3]))
		}
		return strings.Join(sb, " ")
	}
	if len(got) != len(want) {
		return fmt.Errorf("%s: table has %d [%s], policy model has %d [%s]", where, len(got), ids(got), len(want), ids(want))
	}
	for i := range got {
		g, w := got[i], want[i]
		if g.ID != w.ID {
			what := "different members"
			if ordered {
				what = "different order or members"
			}
			return fmt.Errorf("%s: %s: table [%s], policy model [%s]", where, what, ids(got), ids(want))
		}
		w.Gen = 0
		if g != w {
			return fmt.Errorf("%s: node state differs: table {%s}, policy model {%s}", where, fmtNode(g), fmtNode(w))
		}
	}
	return nil
}

func runC18(p tplan, c *stats.Case) error {
	return runSerial(p, c, newModelObserver(c))
}

func TestC18_Policy(t *testing.T) { pbt.Run(t, "C18", "policy", genTPlan, runC18) }
