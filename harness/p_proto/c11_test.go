package p_proto

import (
	"bytes"
	"encoding/binary"
	"fmt"
	"net"
	"testing"
	"time"

	"github.com/ethereum/go-ethereum/p2p/enode"
	"github.com/ethereum/go-ethereum/p2p/enr"
	"github.com/ethereum/go-ethereum/p2p/netutil"
	"github.com/ethereum/go-ethereum/rlp"
	"github.com/zen-eth/shisui/portalwire"
	"pgregory.net/rapid"
	"verifharness/gen"
	"verifharness/pbt"
	"verifharness/pp"
	"verifharness/simnet"
	"verifharness/stats"
)

const maxTalkRespBody = portalwire.VerifMaxPacketSize - portalwire.VerifTalkRespOverhead // 1177

// bucketIdx is the bucket that covers a log-distance.
func bucketIdx(d int) int {
	if d <= portalwire.VerifBucketMinDistance {
		return 0
	}
	return d - portalwire.VerifBucketMinDistance - 1
}

// ---------------------------------------------------------------------------
// table filling shared by C08 / C11 / C20

type tableNodeSpec struct {
	Dist    int    // log-distance from the local id (1..256)
	Fill    uint32 // randomises the low bits of the id
	IPClass string // "public", "lan", "loopback"
	Live    bool
	Size    int  // ENR size to pad to (0 none, up to 300)
	Moved   bool // after it was added, a newer record of the node with another endpoint reaches the table (inbound contact)
}

func genTableNodes(t *rapid.T, maxN int) []tableNodeSpec {
	n := rapid.IntRange(0, maxN).Draw(t, "tableN")
	mode := rapid.SampledFrom([]string{"spread", "few-buckets", "full-buckets"}).Draw(t, "tableMode")
	out := make([]tableNodeSpec, n)
	for i := range out {
		var d int
		switch mode {
		case "few-buckets":
			d = rapid.SampledFrom([]int{256, 256, 255, 254, 250, 241, 240, 239, 200, 10}).Draw(t, "d")
		case "full-buckets":
			d = 256 - (i/16)%17
		default:
			d = rapid.IntRange(230, 256).Draw(t, "d")
		}
		out[i] = tableNodeSpec{Dist: d, Fill: rapid.Uint32().Draw(t, "fill"),
			IPClass: rapid.SampledFrom([]string{"public", "public", "public", "lan", "loopback"}).Draw(t, "ipc"),
			Live:    rapid.IntRange(0, 4).Draw(t, "live") != 0,
			Size:    rapid.SampledFrom([]int{0, 0, 120, 200, 300, 300}).Draw(t, "size"),
			Moved:   rapid.IntRange(0, 7).Draw(t, "moved") == 0}
	}
	return out
}

func specIP(class string, i int) net.IP {
	switch class {
	case "lan":
		return net.IP{10, byte(1 + i/250), byte(i % 250), 9}
	case "loopback":
		return net.IP{127, 0, byte(1 + i/250), byte(1 + i%250)}
	}
	return net.IP{byte(11 + i/60000), byte((i / 250) % 240), byte(i % 250), 7} // one /24 per node
}

func specNode(self enode.ID, i int, s tableNodeSpec) *enode.Node {
	var fill enode.ID
	binary.BigEndian.PutUint32(fill[28:], s.Fill)
	binary.BigEndian.PutUint32(fill[12:], s.Fill*2654435761)
	binary.BigEndian.PutUint32(fill[0:], uint32(i)*40503)
	id := gen.IDAtLogDist(self, s.Dist, fill)
	return gen.NullNodePadded(id, specIP(s.IPClass, i), 3000+i%5000, 1, s.Size)
}

// fillTable adds the nodes through the running table loop and returns what the table holds.
func fillTable(l *pp.Live, specs []tableNodeSpec) portalwire.VerifTableSnap {
	tab := l.P.VerifTable()
	self := l.Node().ID()
	for i, s := range specs {
		n := specNode(self, i, s)
		tab.VerifAddFoundNode(n, s.Live)
		if s.Moved {
			// same id, higher sequence number, other port: the table takes it over and must forget that the old
			// endpoint was verified
			tab.VerifAddInboundNode(gen.NullNodePadded(n.ID(), specIP(s.IPClass, i), 7000+i%5000, 2, s.Size))
		}
	}
	return tab.VerifSnapshot()
}

type snapIndex struct {
	entries map[enode.ID]portalwire.VerifNodeSnap
	bucket  map[enode.ID]int
}

func indexSnap(s portalwire.VerifTableSnap) snapIndex {
	ix := snapIndex{entries: map[enode.ID]portalwire.VerifNodeSnap{}, bucket: map[enode.ID]int{}}
	for _, b := range s.Buckets {
		for _, n := range b.Entries {
			ix.entries[n.ID] = n
			ix.bucket[n.ID] = b.Index
		}
	}
	return ix
}

func sameEntries(a, b portalwire.VerifTableSnap) bool {
	ia, ib := indexSnap(a), indexSnap(b)
	if len(ia.entries) != len(ib.entries) {
		return false
	}
	for id, n := range ia.entries {
		m, ok := ib.entries[id]
		if !ok || m.Live != n.Live || m.Seq != n.Seq {
			return false
		}
	}
	return true
}

// ---------------------------------------------------------------------------
// C11 responder side

type c11Resp struct {
	Table     []tableNodeSpec
	Distances []uint16
	AskerIP   string // "loopback", "lan", "public"
	EndToEnd  bool   // additionally send the request over the simulated network and measure the datagram
	// "" : the request is handed to the FINDNODES handler with its source address. Otherwise it goes through the talk
	// handler as a request of a node whose own record names an address of this class ("loopback", "lan", "public"),
	// while the packet still comes from AskerIP: the relay rule speaks about where the answer goes, the packet's source.
	RecordIP string
}

func genDistances(t *rapid.T) []uint16 {
	switch rapid.IntRange(0, 7).Draw(t, "dclass") {
	case 0:
		return nil
	case 1: // all 257 values is beyond the 256-entry message limit: the 256 largest
		out := make([]uint16, 0, 256)
		for d := 256; d >= 1; d-- {
			out = append(out, uint16(d))
		}
		return out
	case 2: // with zero first
		return append([]uint16{0}, rapid.SliceOfN(rapid.Uint16Range(238, 258), 0, 5).Draw(t, "ds")...)
	case 3: // repeated + invalid
		base := rapid.SliceOfN(rapid.Uint16Range(236, 256), 1, 4).Draw(t, "ds")
		out := append([]uint16{}, base...)
		out = append(out, base...)
		out = append(out, 257, 300, 65535, 0, 0)
		return out
	case 4:
		return rapid.SliceOfN(rapid.Uint16(), 1, 6).Draw(t, "ds")
	default:
		return rapid.SliceOfN(rapid.Uint16Range(230, 257), 1, 8).Draw(t, "ds")
	}
}

func genC11Resp(t *rapid.T) c11Resp {
	return c11Resp{Table: genTableNodes(t, rapid.SampledFrom([]int{8, 40, 120, 272}).Draw(t, "maxN")), Distances: genDistances(t),
		AskerIP:  rapid.SampledFrom([]string{"loopback", "lan", "public"}).Draw(t, "asker"),
		EndToEnd: rapid.IntRange(0, 5).Draw(t, "e2e") == 0,
		RecordIP: rapid.SampledFrom([]string{"", "", "loopback", "lan", "public"}).Draw(t, "recordIP")}
}

func askerIP(class string) net.IP {
	switch class {
	case "lan":
		return net.IP{10, 200, 1, 1}
	case "public":
		return net.IP{44, 55, 66, 77}
	}
	return net.IP{127, 0, 0, 1}
}

func encodeFindNodes(ds []uint16) *portalwire.FindNodes {
	fn := &portalwire.FindNodes{Distances: make([][2]byte, len(ds))}
	for i, d := range ds {
		binary.LittleEndian.PutUint16(fn.Distances[i][:], d)
	}
	return fn
}

// checkedAtCurrentEndpoint: what the history of the case says about each table node, independent of the flag the
// table keeps: a node counts as liveness-checked when it was added as such and its endpoint has not moved since
// (nothing in a case ever answers a liveness check, so a moved node stays unverified).
var checkedAtCurrentEndpoint map[enode.ID]bool

func checkNodesReply(reply []byte, self *enode.Node, before portalwire.VerifTableSnap, ds []uint16, asker net.IP, c *stats.Case) error {
	if len(reply) > maxTalkRespBody {
		return fmt.Errorf("NODES reply body is %d bytes, more than the %d that fit one discv5 packet", len(reply), maxTalkRespBody)
	}
	if len(reply) == 0 || reply[0] != portalwire.NODES {
		return fmt.Errorf("reply is not a NODES message: %x", clip(reply))
	}
	var msg portalwire.Nodes
	if err := msg.UnmarshalSSZ(reply[1:]); err != nil {
		return fmt.Errorf("NODES reply does not decode: %v", err)
	}
	if len(msg.Enrs) > portalwire.VerifFindnodesLimit {
		return fmt.Errorf("NODES reply lists %d records, more than %d", len(msg.Enrs), portalwire.VerifFindnodesLimit)
	}
	// valid, non-repeated requested distances -> covered buckets
	covered := map[int]bool{}
	zero := false
	firstValid := -1
	for _, d := range ds {
		if d > 256 {
			c.Class("invalid-distance")
			continue
		}
		if firstValid < 0 {
			firstValid = int(d)
		}
		if d == 0 {
			zero = true
			continue
		}
		covered[bucketIdx(int(d))] = true
	}
	ix := indexSnap(before)
	seen := map[enode.ID]bool{}
	selfListed := false
	for i, raw := range msg.Enrs {
		var rec enr.Record
		if err := rlp.DecodeBytes(raw, &rec); err != nil {
			return fmt.Errorf("record %d of the reply does not decode: %v", i, err)
		}
		if bytes.Equal(raw, mustRLP(self.Record())) {
			if !zero {
				return fmt.Errorf("reply contains the local record although distance 0 was not requested")
			}
			if netutil.CheckRelayIP(asker, self.IP()) != nil {
				return fmt.Errorf("local record (ip %v) relayed to asker %v against the relay rule", self.IP(), asker)
			}
			selfListed = true
			continue
		}
		n, err := enode.New(enode.ValidSchemes, &rec)
		var id enode.ID
		if err == nil {
			id = n.ID()
		} else {
			// table nodes are null-signed; recover the id from the record
			var nid enode.ID
			if lerr := rec.Load(enr.WithEntry("nulladdr", &nid)); lerr != nil {
				return fmt.Errorf("record %d is neither valid nor a harness record: %v", i, err)
			}
			id = nid
		}
		ent, ok := ix.entries[id]
		if !ok {
			return fmt.Errorf("record %d (%x) is not an entry of the routing table", i, id[:4])
		}
		if !covered[ix.bucket[id]] {
			return fmt.Errorf("record %d (%x) sits in bucket %d which covers none of the requested valid distances %v", i, id[:4], ix.bucket[id], ds)
		}
		if !ent.Live {
			return fmt.Errorf("record %d (%x) was never liveness-checked", i, id[:4])
		}
		if ok, known := checkedAtCurrentEndpoint[id]; known && !ok {
			return fmt.Errorf("record %d (%x, %v) is offered although the endpoint it names was never liveness-checked (the node moved there with a newer record)", i, id[:4], ent.IP)
		}
		if seen[id] {
			// two requested distances covered by the same bucket (all distances <= 239 share bucket 0) list the
			// bucket twice; the statement does not forbid that, so it is only counted
			c.Class("record-listed-twice")
		}
		seen[id] = true
		if netutil.CheckRelayIP(asker, net.IP(ent.IP.AsSlice())) != nil {
			return fmt.Errorf("record %d with address %v relayed to asker %v against the relay rule", i, ent.IP, asker)
		}
	}
	if firstValid == 0 && netutil.CheckRelayIP(asker, self.IP()) == nil && !selfListed {
		return fmt.Errorf("distance 0 requested first and the local record is relayable, but it is not in the reply")
	}
	if len(msg.Enrs) == portalwire.VerifFindnodesLimit {
		c.NT("limit-32-reached")
	}
	// truncated by size: more eligible nodes existed than were returned
	for id, ent := range ix.entries {
		if covered[ix.bucket[id]] && !ent.Live && ent.Seq > 1 {
			c.NT("moved-unverified-entry-in-covered-bucket")
			break
		}
	}
	eligible := 0
	for id, ent := range ix.entries {
		if covered[ix.bucket[id]] && ent.Live && netutil.CheckRelayIP(asker, net.IP(ent.IP.AsSlice())) == nil {
			eligible++
		}
	}
	if eligible > len(msg.Enrs) && len(msg.Enrs) < portalwire.VerifFindnodesLimit {
		c.NT("truncated-by-size")
	}
	if len(msg.Enrs) > 0 {
		c.NT("non-empty-reply")
	}
	if zero {
		c.Class("distance-0")
	}
	return nil
}

func mustRLP(r *enr.Record) []byte {
	b, err := rlp.EncodeToBytes(r)
	if err != nil {
		panic(err)
	}
	return b
}

func clip(b []byte) []byte {
	if len(b) > 64 {
		return b[:64]
	}
	return b
}

func runC11Resp(p c11Resp, c *stats.Case) error {
	hub := simnet.NewHub()
	// the responder's own address class varies with the asker so that the local-record relay rule is exercised
	b, err := pp.NewLive(hub, pp.LiveOpts{KeyIdx: 31, IP: net.IP{127, 0, 0, 1}, Port: nextPort(), Versions: []byte{0, 1}, NoWorkers: true, RespTimeout: 20 * time.Second})
	if err != nil {
		return fmt.Errorf("harness: %v", err)
	}
	defer b.Stop()
	before := fillTable(b, p.Table)
	checkedAtCurrentEndpoint = map[enode.ID]bool{}
	dupID := map[enode.ID]bool{}
	for i, s := range p.Table {
		id := specNode(b.Node().ID(), i, s).ID()
		if _, again := checkedAtCurrentEndpoint[id]; again || dupID[id] {
			// two specs denote the same node (ids close to the local id have few free bits): what the table keeps
			// then depends on the order of arrival; such nodes are judged by the table's flag alone
			delete(checkedAtCurrentEndpoint, id)
			dupID[id] = true
			continue
		}
		checkedAtCurrentEndpoint[id] = s.Live && !s.Moved
	}
	defer func() { checkedAtCurrentEndpoint = nil }()
	c.Class("asker:" + p.AskerIP)
	ip := askerIP(p.AskerIP)
	var reply []byte
	if p.RecordIP == "" {
		reply, err = b.P.VerifHandleFindNodes(&net.UDPAddr{IP: ip, Port: 4444}, encodeFindNodes(p.Distances))
		if err != nil {
			return fmt.Errorf("handleFindNodes returned an error: %v", err)
		}
	} else {
		asker := gen.SignedNode(gen.NodeOpts{KeyIdx: 43, Seq: 1, IP: askerIP(p.RecordIP), UDP: 4444, Versions: []byte{0, 1}})
		from := &net.UDPAddr{IP: ip, Port: 4444}
		_ = b.P.VerifHandleTalkRequest(asker, from, nil) // a first contact: the asker is known to the table from here on
		before = b.P.VerifTable().VerifSnapshot()
		body, _ := encodeFindNodes(p.Distances).MarshalSSZ()
		reply = b.P.VerifHandleTalkRequest(asker, from, append([]byte{portalwire.FINDNODES}, body...))
		if len(reply) == 0 {
			return fmt.Errorf("the talk handler gave no answer to a well-formed FINDNODES")
		}
		delete(checkedAtCurrentEndpoint, asker.ID())
		if p.RecordIP != p.AskerIP {
			c.NT("asker-record-names-another-address-class-than-the-packet-source")
		}
	}
	after := b.P.VerifTable().VerifSnapshot()
	if !sameEntries(before, after) {
		stats.For("C11").Count("discarded:table-changed-during-observation", 1)
		return nil
	}
	if err := checkNodesReply(reply, b.Node(), before, p.Distances, ip, c); err != nil {
		return err
	}
	if p.EndToEnd {
		// real datagram: a scripted asker on loopback sends the same request over the hub
		a, err := pp.NewScripted(hub, 32, net.IP{127, 0, 0, 1}, nextPort(), []byte{0, 1}, 5*time.Second)
		if err != nil {
			return fmt.Errorf("harness: %v", err)
		}
		defer a.Stop()
		body, _ := encodeFindNodes(p.Distances).MarshalSSZ()
		hub.ResetStats()
		resp, err := a.Disc.TalkRequest(b.Node(), string(portalwire.History), append([]byte{portalwire.FINDNODES}, body...))
		if err != nil {
			stats.For("C11").Count("inconclusive:e2e-talk-failed", 1)
			return nil
		}
		if sz := hub.MaxDatagram(b.Conn.AddrPort()); sz > portalwire.VerifMaxPacketSize {
			return fmt.Errorf("responder emitted a datagram of %d bytes (> %d) for a NODES reply", sz, portalwire.VerifMaxPacketSize)
		}
		c.NT("e2e-datagram-measured")
		after2 := b.P.VerifTable().VerifSnapshot()
		// the asker was added to the table by the inbound contact; judge against the later snapshot
		if err := checkNodesReply(resp, b.Node(), after2, p.Distances, net.IP{127, 0, 0, 1}, &stats.Case{}); err != nil {
			return fmt.Errorf("end-to-end: %v", err)
		}
	}
	return nil
}

func TestC11_Responder(t *testing.T) { pbt.Run(t, "C11", "responder", genC11Resp, runC11Resp) }

// ---------------------------------------------------------------------------
// C11 asker side: which records of a NODES reply are used

type enrSpec struct {
	Kind     string // "ok", "badsig", "lowport", "noport", "noip", "loopback", "lan", "garbage", "repeat"
	KeyIdx   int
	Port     int
	RepeatOf int
	Garbage  []byte
	Seq      uint64 // sequence number of the record (two records of one key are the same node: the second is a repeat whatever its number)
}

type c11Ask struct {
	SenderIP  string
	Enrs      []enrSpec
	Distances []uint16 // nil => no distance filter (CONTENT enrs path)
	NoFilter  bool
}

func genC11Ask(t *rapid.T) c11Ask {
	n := rapid.IntRange(0, 14).Draw(t, "n")
	es := make([]enrSpec, n)
	for i := range es {
		es[i] = enrSpec{Kind: rapid.SampledFrom([]string{"ok", "ok", "ok", "ok", "badsig", "lowport", "noport", "noip", "loopback", "lan", "garbage", "repeat", "sigreuse", "sigreuse"}).Draw(t, "kind"),
			KeyIdx:   100 + rapid.IntRange(0, 60).Draw(t, "key"),
			Port:     rapid.SampledFrom([]int{1025, 1026, 9000, 30303, 65535}).Draw(t, "port"),
			RepeatOf: rapid.IntRange(0, 13).Draw(t, "rep"),
			Garbage:  rapid.SliceOfN(rapid.Byte(), 0, 12).Draw(t, "garbage"),
			Seq:      rapid.SampledFrom([]uint64{1, 1, 1, 2, 5, 1 << 40}).Draw(t, "seq")}
		if i > 0 && rapid.IntRange(0, 5).Draw(t, "sameKey") == 0 {
			es[i].KeyIdx = es[rapid.IntRange(0, i-1).Draw(t, "sameAs")].KeyIdx // the same node again, as another record
		}
		if es[i].Kind == "lowport" {
			es[i].Port = rapid.SampledFrom([]int{1, 80, 1023, 1024}).Draw(t, "lport")
		}
	}
	return c11Ask{SenderIP: rapid.SampledFrom([]string{"loopback", "lan", "public"}).Draw(t, "sender"), Enrs: es,
		Distances: rapid.SliceOfN(rapid.Uint16Range(250, 256), 0, 5).Draw(t, "ds"), NoFilter: rapid.IntRange(0, 4).Draw(t, "nofilter") == 0}
}

func buildEnr(s enrSpec, built [][]byte) []byte {
	ipFor := func(kind string) net.IP {
		switch kind {
		case "loopback":
			return net.IP{127, 0, 0, 9}
		case "lan":
			return net.IP{192, 168, 7, 9}
		}
		return net.IP{33, 44, byte(s.KeyIdx), 9}
	}
	switch s.Kind {
	case "garbage":
		return s.Garbage
	case "repeat":
		if len(built) == 0 {
			return s.Garbage
		}
		return built[s.RepeatOf%len(built)]
	case "sigreuse":
		// an earlier record of this reply again, with a usable port and a higher sequence number, under the signature
		// of the original: whatever the node thought of the original, this one is not validly signed
		if len(built) == 0 {
			return s.Garbage
		}
		var elems []rlp.RawValue
		if rlp.DecodeBytes(built[s.RepeatOf%len(built)], &elems) != nil || len(elems) < 4 {
			return s.Garbage
		}
		var seq uint64
		if rlp.DecodeBytes(elems[1], &seq) != nil {
			return s.Garbage
		}
		elems[1], _ = rlp.EncodeToBytes(seq + 1)
		udpKey, _ := rlp.EncodeToBytes("udp")
		port, _ := rlp.EncodeToBytes(uint16(30303))
		replaced := false
		for i := 2; i+1 < len(elems); i += 2 {
			if bytes.Equal(elems[i], udpKey) {
				elems[i+1], replaced = port, true
			}
		}
		if !replaced {
			elems = append(elems, udpKey, port) // "udp" sorts behind id, ip and secp256k1
		}
		out, err := rlp.EncodeToBytes(elems)
		if err != nil {
			return s.Garbage
		}
		return out
	}
	seq := s.Seq
	if seq == 0 {
		seq = 1
	}
	o := gen.NodeOpts{KeyIdx: s.KeyIdx, Seq: seq, IP: ipFor(s.Kind), UDP: s.Port}
	switch s.Kind {
	case "noport":
		o.UDP = 0
	case "noip":
		o.IP = nil
	}
	raw := mustRLP(gen.SignedNode(o).Record())
	if s.Kind == "badsig" {
		// flip one bit inside the signature (first content item of the record list)
		raw = append([]byte{}, raw...)
		raw[6] ^= 0x01
	}
	return raw
}

// referenceFilter restates the acceptance rule of the property.
var repeatsSeen int // acceptable records dropped only because their node was already taken (per process, read by the case)

func referenceFilter(sender *enode.Node, raws [][]byte, distances []uint, filter bool) []enode.ID {
	var out []enode.ID
	seen := map[enode.ID]bool{}
	for _, raw := range raws {
		var rec enr.Record
		if rlp.DecodeBytes(raw, &rec) != nil {
			continue
		}
		n, err := enode.New(enode.ValidSchemes, &rec) // verifies the signature
		if err != nil {
			continue
		}
		if netutil.CheckRelayIP(sender.IP(), n.IP()) != nil {
			continue
		}
		if n.UDP() <= 1024 {
			continue
		}
		if filter {
			d := enode.LogDist(sender.ID(), n.ID())
			ok := false
			for _, x := range distances {
				if int(x) == d {
					ok = true
				}
			}
			if !ok {
				continue
			}
		}
		if seen[n.ID()] {
			repeatsSeen++
			continue
		}
		seen[n.ID()] = true
		out = append(out, n.ID())
	}
	return out
}

func runC11Ask(p c11Ask, c *stats.Case) error {
	local := pp.Bare(41, []byte{0, 1}, nil, portalwire.History)
	sender := gen.SignedNode(gen.NodeOpts{KeyIdx: 42, Seq: 1, IP: askerIP(p.SenderIP), UDP: 9100})
	var raws [][]byte
	for _, s := range p.Enrs {
		raws = append(raws, buildEnr(s, raws))
		c.Class("enr:" + s.Kind)
	}
	var ds []uint
	for _, d := range p.Distances {
		ds = append(ds, uint(d))
	}
	filter := !p.NoFilter
	var arg []uint
	if filter {
		arg = ds
		if arg == nil {
			arg = []uint{}
		}
	}
	got := local.VerifFilterNodes(sender, raws, arg)
	r0 := repeatsSeen
	want := referenceFilter(sender, raws, ds, filter)
	if repeatsSeen > r0 {
		c.NT("acceptable-record-dropped-as-repeat")
	}
	if len(got) != len(want) {
		return fmt.Errorf("asker used %d records, the rule admits %d (sender %s, %d records, distances %v, filter %v)", len(got), len(want), p.SenderIP, len(raws), p.Distances, filter)
	}
	for i := range got {
		if got[i].ID() != want[i] {
			return fmt.Errorf("asker used record %x at position %d, the rule admits %x", got[i].ID().Bytes()[:4], i, want[i][:4])
		}
	}
	if len(raws) > len(want) {
		c.NT("some-rejected")
	}
	if len(want) > 0 {
		c.NT("some-accepted")
	}
	return nil
}

func TestC11_Asker(t *testing.T) { pbt.Run(t, "C11", "asker", genC11Ask, runC11Ask) }
