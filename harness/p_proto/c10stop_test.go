package p_proto

import (
	"encoding/binary"
	"fmt"
	"net"
	"sync/atomic"
	"testing"
	"time"

	"github.com/ethereum/go-ethereum/p2p/enode"
	"github.com/zen-eth/shisui/portalwire"
	"pgregory.net/rapid"
	"verifharness/pbt"
	"verifharness/pp"
	"verifharness/simnet"
	"verifharness/stats"
)

// C10, cancellation at any moment, real instance: the protocol is stopped while the table's own refresh lookup
// (and optionally a caller's lookup) has queries outstanding at peers that answer late or never. Every lookup
// and Stop itself must finish; the peers only sleep for a bounded time, so nothing in the harness can block.

type c10Stop struct {
	DelayMs     []int // per peer: reply delay; -1 = never replies (the asker's 300 ms request time-out ends the query)
	StopAfterMs int
	UserLookup  bool
	Target      uint32
}

func genC10Stop(t *rapid.T) c10Stop {
	n := rapid.IntRange(1, 8).Draw(t, "npeers")
	d := make([]int, n)
	for i := range d {
		d[i] = rapid.SampledFrom([]int{-1, 0, 30, 80, 150, 250}).Draw(t, "delay")
	}
	return c10Stop{DelayMs: d, StopAfterMs: rapid.SampledFrom([]int{0, 2, 10, 40, 100, 200}).Draw(t, "stopAfter"),
		UserLookup: rapid.Bool().Draw(t, "userLookup"), Target: rapid.Uint32().Draw(t, "target")}
}

func runC10Stop(p c10Stop, c *stats.Case) error {
	hub := simnet.NewHub()
	a, err := pp.NewLive(hub, pp.LiveOpts{KeyIdx: 131, Port: nextPort(), Versions: []byte{0, 1}, UtpFast: true, RespTimeout: 300 * time.Millisecond, NoWorkers: true})
	if err != nil {
		return fmt.Errorf("harness: %v", err)
	}
	stopped := false
	shutdown := func() {
		if !stopped {
			stopped = true
			a.Disc.Close()
			a.Utp.Stop()
			_ = a.Conn.Close()
		}
	}
	defer shutdown()
	peers := make([]*pp.Scripted, len(p.DelayMs))
	for i := range p.DelayMs {
		s, err := pp.NewScripted(hub, 140+i, net.IP{127, 0, 0, 1}, nextPort(), []byte{0, 1}, 150*time.Millisecond)
		if err != nil {
			return fmt.Errorf("harness: %v", err)
		}
		defer s.Stop()
		peers[i] = s
	}
	var inHandler atomic.Int32
	for i, s := range peers {
		i, s := i, s
		me := s.Node().ID()
		s.Handle(portalwire.History, func(id enode.ID, addr *net.UDPAddr, msg []byte) []byte {
			if len(msg) == 0 {
				return nil
			}
			switch msg[0] {
			case portalwire.PING:
				pl := buildPayload(0, make([]byte, 32), false)
				b, _ := (&portalwire.Pong{EnrSeq: 1, PayloadType: 0, Payload: pl}).MarshalSSZ()
				return append([]byte{portalwire.PONG}, b...)
			case portalwire.FINDNODES:
				var req portalwire.FindNodes
				if req.UnmarshalSSZ(msg[1:]) != nil {
					return nil
				}
				ds := map[int]bool{}
				for _, d := range req.Distances {
					ds[int(binary.LittleEndian.Uint16(d[:]))] = true
				}
				inHandler.Add(1)
				defer inHandler.Add(-1)
				if p.DelayMs[i] < 0 {
					time.Sleep(450 * time.Millisecond)
					return nil
				}
				time.Sleep(time.Duration(p.DelayMs[i]) * time.Millisecond)
				var enrs [][]byte
				for _, o := range peers {
					if ds[enode.LogDist(me, o.Node().ID())] && len(enrs) < 8 {
						enrs = append(enrs, mustRLP(o.Node().Record()))
					}
				}
				b, err := (&portalwire.Nodes{Total: 1, Enrs: enrs}).MarshalSSZ()
				if err != nil {
					return nil
				}
				return append([]byte{portalwire.NODES}, b...)
			}
			return nil
		})
	}
	for _, s := range peers {
		a.P.VerifTable().VerifAddFoundNode(s.Node(), true)
	}
	refreshDone := a.P.VerifTable().VerifRefresh()
	var userDone chan struct{}
	if p.UserLookup {
		c.Class("user-lookup")
		userDone = make(chan struct{})
		var target enode.ID
		binary.BigEndian.PutUint32(target[:], p.Target)
		go func() {
			defer close(userDone)
			a.P.Lookup(target)
		}()
	}
	time.Sleep(time.Duration(p.StopAfterMs) * time.Millisecond)
	outstanding := inHandler.Load()
	refreshing := true
	select {
	case <-refreshDone:
		refreshing = false
	default:
	}
	stopDone := make(chan struct{})
	go func() {
		defer close(stopDone)
		a.P.Stop()
	}()
	// the longest a query can be outstanding is the 300 ms request time-out; 20 s is far beyond any scheduling delay
	deadline := time.After(20 * time.Second)
	wait := func(ch <-chan struct{}, what string) error {
		if ch == nil {
			return nil
		}
		select {
		case <-ch:
			return nil
		case <-deadline:
			return fmt.Errorf("%s did not finish within 20 s of Stop (refresh running at Stop: %v, %d queries at the peers at that moment)", what, refreshing, outstanding)
		}
	}
	if err := wait(stopDone, "Stop"); err != nil {
		return err
	}
	if err := wait(refreshDone, "the refresh lookup"); err != nil {
		return err
	}
	if err := wait(userDone, "the caller's lookup"); err != nil {
		return err
	}
	if refreshing {
		c.Class("refresh-running-at-stop")
		if outstanding > 0 {
			c.NT("stop-with-refresh-queries-outstanding")
		}
	} else {
		c.Class("refresh-over-at-stop")
	}
	return nil
}

func TestC10_StopDuringRefresh(t *testing.T) {
	pbt.Run(t, "C10", "stoprefresh", genC10Stop, runC10Stop)
}
