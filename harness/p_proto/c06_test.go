package p_proto

import (
	"bytes"
	"crypto/sha256"
	"encoding/binary"
	"encoding/hex"
	"fmt"
	"math/big"
	"runtime"
	"testing"
	"time"

	cpebble "github.com/cockroachdb/pebble"
	"github.com/cockroachdb/pebble/vfs"
	"github.com/ethereum/go-ethereum/common/hexutil"
	"github.com/ethereum/go-ethereum/p2p/enode"
	"github.com/holiman/uint256"
	"github.com/zen-eth/shisui/portalwire"
	"github.com/zen-eth/shisui/storage"
	spebble "github.com/zen-eth/shisui/storage/pebble"
	"pgregory.net/rapid"
	"verifharness/gen"
	"verifharness/pbt"
	"verifharness/pp"
	"verifharness/stats"
)

// xorDist is the statement's metric: XOR of both ids read as a big-endian number.
func xorDist(a, b []byte) *big.Int {
	x := make([]byte, 32)
	for i := range x {
		x[i] = a[i] ^ b[i]
	}
	return new(big.Int).SetBytes(x)
}

func reverse32(b []byte) []byte {
	out := make([]byte, len(b))
	for i := range b {
		out[len(b)-1-i] = b[i]
	}
	return out
}

// ---------------------------------------------------------------------------
// C06 (b): the in-range helper on arbitrary triples

type c06Triple struct {
	Node    string // hex 32
	Content string // hex 32
	Radius  string // hex, big-endian number
	Class   string
}

func hex32(t *rapid.T, label string) []byte {
	return rapid.SliceOfN(rapid.Byte(), 32, 32).Draw(t, label)
}

func genC06Triple(t *rapid.T) c06Triple {
	node := hex32(t, "node")
	var content []byte
	idClass := rapid.SampledFrom([]string{"uniform", "near", "single-bit", "asym", "palindrome"}).Draw(t, "idclass")
	switch idClass {
	case "near": // shares a long prefix with the node id
		content = append([]byte{}, node...)
		k := rapid.IntRange(1, 31).Draw(t, "k")
		copy(content[k:], hex32(t, "tail")[k:])
	case "single-bit":
		content = append([]byte{}, node...)
		bit := rapid.IntRange(0, 255).Draw(t, "bit")
		content[bit/8] ^= 1 << uint(7-bit%8)
	case "asym": // distance with chosen leading and trailing bytes: separates big- from little-endian readings
		d := make([]byte, 32)
		d[0] = rapid.Byte().Draw(t, "lead")
		d[31] = rapid.Byte().Draw(t, "trail")
		if rapid.Bool().Draw(t, "mid") {
			d[rapid.IntRange(1, 30).Draw(t, "midpos")] = rapid.Byte().Draw(t, "midv")
		}
		content = make([]byte, 32)
		for i := range content {
			content[i] = node[i] ^ d[i]
		}
	case "palindrome":
		d := hex32(t, "pd")
		for i := 0; i < 16; i++ {
			d[31-i] = d[i]
		}
		content = make([]byte, 32)
		for i := range content {
			content[i] = node[i] ^ d[i]
		}
	default:
		content = hex32(t, "content")
	}
	dist := xorDist(node, content)
	one := big.NewInt(1)
	max := new(big.Int).Sub(new(big.Int).Lsh(one, 256), one)
	var r *big.Int
	rc := rapid.SampledFrom([]string{"dist-1", "dist", "dist+1", "small", "pow2", "pow2-1", "pow2+1", "max", "uniform", "between-256-and-dist", "reversed-dist"}).Draw(t, "rclass")
	switch rc {
	case "dist-1":
		r = new(big.Int).Sub(dist, one)
	case "dist":
		r = new(big.Int).Set(dist)
	case "dist+1":
		r = new(big.Int).Add(dist, one)
	case "small":
		r = big.NewInt(int64(rapid.IntRange(0, 600).Draw(t, "small")))
	case "pow2", "pow2-1", "pow2+1":
		r = new(big.Int).Lsh(one, uint(rapid.IntRange(0, 255).Draw(t, "k")))
		if rc == "pow2-1" {
			r.Sub(r, one)
		} else if rc == "pow2+1" {
			r.Add(r, one)
		}
	case "max":
		r = new(big.Int).Set(max)
	case "between-256-and-dist":
		// a radius above every log-distance value but below the distance
		if dist.Cmp(big.NewInt(258)) > 0 {
			span := new(big.Int).Sub(dist, big.NewInt(257))
			f := new(big.Int).SetBytes(hex32(t, "f"))
			r = new(big.Int).Add(big.NewInt(257), new(big.Int).Mod(f, span))
		} else {
			r = big.NewInt(300)
		}
	case "reversed-dist": // the little-endian reading of the same distance bytes
		x := make([]byte, 32)
		for i := range x {
			x[i] = node[i] ^ content[i]
		}
		r = new(big.Int).SetBytes(reverse32(x))
	default:
		r = new(big.Int).SetBytes(hex32(t, "r"))
	}
	if r.Sign() < 0 {
		r = big.NewInt(0)
	}
	if r.Cmp(max) > 0 {
		r = max
	}
	return c06Triple{Node: hex.EncodeToString(node), Content: hex.EncodeToString(content), Radius: r.Text(16), Class: idClass + "/" + rc}
}

func parseTriple(p c06Triple) (enode.ID, []byte, *big.Int, error) {
	nb, err1 := hex.DecodeString(p.Node)
	cb, err2 := hex.DecodeString(p.Content)
	r, ok := new(big.Int).SetString(p.Radius, 16)
	if err1 != nil || err2 != nil || !ok || len(nb) != 32 || len(cb) != 32 {
		return enode.ID{}, nil, nil, fmt.Errorf("harness: bad triple")
	}
	return enode.ID(nb), cb, r, nil
}

// classifyTriple marks the non-trivial classes of the statement's quantifier.
func classifyTriple(c *stats.Case, node enode.ID, content []byte, r *big.Int) (dist *big.Int) {
	dist = xorDist(node[:], content)
	x := make([]byte, 32)
	for i := range x {
		x[i] = node[i] ^ content[i]
	}
	le := new(big.Int).SetBytes(reverse32(x))
	if (dist.Cmp(r) < 0) != (le.Cmp(r) < 0) {
		c.NT("be-le-differ")
	}
	if r.Cmp(big.NewInt(256)) > 0 && r.Cmp(dist) <= 0 {
		c.NT("256<r<=dist")
	}
	if r.Cmp(big.NewInt(512)) < 0 {
		c.NT("r<2^9")
	}
	switch r.Cmp(dist) {
	case 0:
		c.NT("boundary")
	case 1:
		c.Class("r>dist")
	default:
		c.Class("r<dist")
	}
	return dist
}

func judgeInRange(what string, got bool, dist, r *big.Int) error {
	switch r.Cmp(dist) {
	case 1:
		if !got {
			return fmt.Errorf("%s: radius %s > distance %s but reported out of range", what, r.Text(16), dist.Text(16))
		}
	case -1:
		if got {
			return fmt.Errorf("%s: radius %s < distance %s but reported in range", what, r.Text(16), dist.Text(16))
		}
	}
	return nil // at distance == radius either answer is tolerated here (the store half pins the store's side)
}

func runC06Triple(p c06Triple, c *stats.Case) error {
	node, content, r, err := parseTriple(p)
	if err != nil {
		return err
	}
	dist := classifyTriple(c, node, content, r)
	ru, _ := uint256.FromBig(r)
	got := portalwire.VerifInRange(node, ru, content)
	return judgeInRange("in-range helper", got, dist, r)
}

func TestC06_InRange(t *testing.T) { pbt.Run(t, "C06", "inrange", genC06Triple, runC06Triple) }

// ---------------------------------------------------------------------------
// C06 (c): the three call sites (offer filter v0/v1, store RPC, gossip target choice)

type c06Site struct {
	KeySeed  uint32 // content key = 0x00 || seed bytes; content id = sha256(key)
	RClass   string
	RParam   int
	PeerSeed uint32
}

func genC06Site(t *rapid.T) c06Site {
	return c06Site{KeySeed: rapid.Uint32().Draw(t, "key"), PeerSeed: rapid.Uint32().Draw(t, "peer"),
		RClass: rapid.SampledFrom([]string{"dist-1", "dist+1", "dist", "small", "pow2", "max", "between-256-and-dist", "half", "reversed-dist"}).Draw(t, "rclass"),
		RParam: rapid.IntRange(0, 255).Draw(t, "rparam")}
}

func radiusFor(class string, param int, dist *big.Int, x []byte) *big.Int {
	one := big.NewInt(1)
	max := new(big.Int).Sub(new(big.Int).Lsh(one, 256), one)
	var r *big.Int
	switch class {
	case "dist-1":
		r = new(big.Int).Sub(dist, one)
	case "dist+1":
		r = new(big.Int).Add(dist, one)
	case "dist":
		r = new(big.Int).Set(dist)
	case "small":
		r = big.NewInt(int64(param * 2))
	case "pow2":
		r = new(big.Int).Lsh(one, uint(param))
	case "max":
		r = max
	case "between-256-and-dist":
		r = new(big.Int).Add(big.NewInt(257), new(big.Int).Rsh(dist, uint(1+param%200)))
		if r.Cmp(dist) >= 0 {
			r = new(big.Int).Sub(dist, one)
		}
	case "half":
		r = new(big.Int).Rsh(dist, 1)
	case "reversed-dist":
		r = new(big.Int).SetBytes(reverse32(x))
	}
	if r.Sign() < 0 {
		r = big.NewInt(0)
	}
	if r.Cmp(max) > 0 {
		r = max
	}
	return r
}

func runC06Site(p c06Site, c *stats.Case) error {
	key := []byte{0x00, byte(p.KeySeed), byte(p.KeySeed >> 8), byte(p.KeySeed >> 16), byte(p.KeySeed >> 24), 0xEE}
	idArr := sha256.Sum256(key)
	contentID := idArr[:]
	st := pp.NewMemStore()
	local := pp.Bare(21, []byte{0, 1}, st, portalwire.History)
	self := local.Self().ID()
	x := make([]byte, 32)
	for i := range x {
		x[i] = self[i] ^ contentID[i]
	}
	dist := xorDist(self[:], contentID)
	r := radiusFor(p.RClass, p.RParam, dist, x)
	classifyTriple(c, self, contentID, r)
	ru, _ := uint256.FromBig(r)
	st.SetRadius(ru)
	want := r.Cmp(dist) > 0
	if r.Cmp(dist) == 0 {
		// at distance == radius the verdict itself is judged by the boundary check (against the store's admission);
		// here the call sites must give the verdict of the node's in-range test, whatever it is: "this same rule"
		want = portalwire.VerifInRange(self, ru, contentID)
		c.NT("sites:distance==radius")
	}

	// site 1+2: offer filtering, both accept encodings (key is neither stored nor in flight)
	for _, ver := range []uint8{0, 1} {
		acc, keys, err := local.VerifFilterContentKeys(&portalwire.Offer{ContentKeys: [][]byte{key}}, ver)
		if err != nil {
			return fmt.Errorf("offer filter v%d: %v", ver, err)
		}
		accepted := len(keys) == 1 && len(acc.GetAcceptIndices()) == 1
		if accepted != want {
			return fmt.Errorf("offer filter v%d: key at distance %s with radius %s: accepted=%v, the XOR rule says %v", ver, dist.Text(16), r.Text(16), accepted, want)
		}
		if ver == 1 && !want {
			if codes := acc.GetContentKeys(); len(codes) != 1 || codes[0] != byte(portalwire.NotWithinRadius) {
				return fmt.Errorf("offer filter v1: out-of-radius key got code %v, want NotWithinRadius", codes)
			}
		}
	}
	// site 3: the store RPC
	api := portalwire.NewPortalAPI(local)
	stored, err := api.Store(hexutil.Encode(key), "0x0102")
	if err != nil {
		return fmt.Errorf("store RPC: %v", err)
	}
	if stored != want || st.Has(contentID) != want {
		return fmt.Errorf("store RPC: key at distance %s with radius %s: stored=%v (in store: %v), the XOR rule says %v", dist.Text(16), r.Text(16), stored, st.Has(contentID), want)
	}
	c.Class("sites-agree")
	return nil
}

func TestC06_Sites(t *testing.T) { pbt.Run(t, "C06", "sites", genC06Site, runC06Site) }

var _ = gen.Key

// ---------------------------------------------------------------------------
// C06 (d): "the same rule" at the boundary distance == radius: the in-range helper must decide as the
// real store's admission does. Distances are byte palindromes, so the verdict does not depend on the
// byte order the store reads its keys in (known finding D11).

type c06Boundary struct {
	Seeds []uint32 // palindromic ids of the items that fill the store
	Size  int      // value size in KB
}

func genC06Boundary(t *rapid.T) c06Boundary {
	return c06Boundary{Seeds: rapid.SliceOfNDistinct(rapid.Uint32Range(1, 1<<31), 12, 30, func(v uint32) uint32 { return v }).Draw(t, "seeds"),
		Size: rapid.IntRange(60, 140).Draw(t, "sizeKB")}
}

func palindrome(seed uint32) []byte {
	id := make([]byte, 32)
	var h [16]byte
	binary.BigEndian.PutUint32(h[0:], seed)
	binary.BigEndian.PutUint32(h[4:], seed*2654435761)
	binary.BigEndian.PutUint32(h[8:], seed*40503+7)
	binary.BigEndian.PutUint32(h[12:], ^seed)
	for i := 0; i < 16; i++ {
		id[i], id[31-i] = h[i], h[i]
	}
	return id
}

func pruneGoroutineAlive() bool {
	buf := make([]byte, 1<<20)
	for {
		n := runtime.Stack(buf, true)
		if n < len(buf) {
			return bytes.Contains(buf[:n], []byte("ContentStorage).prune.func1"))
		}
		buf = make([]byte, 2*len(buf))
	}
}

func runC06Boundary(p c06Boundary, c *stats.Case) error {
	var node enode.ID // all zero: distance == content id
	db, err := cpebble.Open("", &cpebble.Options{FS: vfs.NewMem()})
	if err != nil {
		return fmt.Errorf("harness: %v", err)
	}
	// prune() starts `go db.Compact(...)`, which nobody joins and which panics on a closed database: wait until
	// those goroutines are gone, then close (a store per case that is never closed costs ~3.5 MB each)
	defer func() {
		for i := 0; i < 5000 && pruneGoroutineAlive(); i++ {
			time.Sleep(200 * time.Microsecond)
		}
		if !pruneGoroutineAlive() {
			_ = db.Close()
		}
	}()
	st, err := spebble.NewStorage(storage.PortalStorageConfig{StorageCapacityMB: 1, NodeId: node, NetworkName: "c06"}, db)
	if err != nil {
		return fmt.Errorf("harness: %v", err)
	}
	max := uint256.MustFromHex("0xffffffffffffffffffffffffffffffffffffffffffffffffffffffffffffffff")
	for i, seed := range p.Seeds {
		id := palindrome(seed)
		_ = st.Put(id, id, fillBytes(p.Size*1000, byte(i)))
		r := st.Radius()
		if r.Eq(max) {
			continue
		}
		rb := r.Bytes32()
		if !bytes.Equal(rb[:], reverse32(rb[:])) {
			continue // radius is not a palindrome (cannot happen with palindromic keys); skip rather than depend on D11
		}
		x := rb[:] // content id at distance == radius from the zero node id
		admitted := st.Put(x, x, []byte("boundary probe")) == nil
		inR := portalwire.VerifInRange(node, r, x)
		c.NT("boundary-compared")
		if admitted != inR {
			return fmt.Errorf("at distance == radius (%s) the store's admission says %v but the in-range test says %v: not the same rule", r.Hex(), admitted, inR)
		}
	}
	return nil
}

func TestC06_Boundary(t *testing.T) { pbt.Run(t, "C06", "boundary", genC06Boundary, runC06Boundary) }
