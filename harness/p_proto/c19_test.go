package p_proto

import (
	"bytes"
	"fmt"
	"net/netip"
	"sort"
	"sync/atomic"
	"testing"
	"time"

	"github.com/ethereum/go-ethereum/crypto"
	"github.com/ethereum/go-ethereum/p2p/enode"
	"github.com/ethereum/go-ethereum/p2p/enr"
	"github.com/zen-eth/shisui/portalwire"
	"pgregory.net/rapid"
	"verifharness/gen"
	"verifharness/pbt"
	"verifharness/pp"
	"verifharness/simnet"
	"verifharness/stats"
)

func TestMain(m *testing.M) { pbt.Main(m) }

var portSeq atomic.Int32

// nextPort hands out distinct simulated ports (nothing is bound; only uniqueness inside a hub matters).
func nextPort() int { return 2000 + int(portSeq.Add(1))%60000 }

func maxCommon(a, b []byte) (uint8, bool) {
	found := false
	var best uint8
	for _, x := range a {
		for _, y := range b {
			if x == y && (!found || x > best) {
				found, best = true, x
			}
		}
	}
	return best, found
}

// ---------------------------------------------------------------------------
// C19 (a): the negotiation function, exhaustive on subsets of {0,1,2}

func subsets012() [][]byte {
	var out [][]byte
	for m := 1; m < 8; m++ {
		var s []byte
		for v := 0; v < 3; v++ {
			if m&(1<<v) != 0 {
				s = append(s, byte(v))
			}
		}
		out = append(out, s)
	}
	return out
}

func checkNegotiate(a, b []byte) error {
	got, err := portalwire.VerifFindBiggestSameNumber(a, b)
	want, ok := maxCommon(a, b)
	if !ok {
		if err == nil {
			return fmt.Errorf("negotiate(%v,%v): no common version but got %d without error", a, b, got)
		}
		return nil
	}
	if err != nil || got != want {
		return fmt.Errorf("negotiate(%v,%v) = %d,%v want %d", a, b, got, err, want)
	}
	// both sides derive the same number
	got2, err2 := portalwire.VerifFindBiggestSameNumber(b, a)
	if err2 != nil || got2 != got {
		return fmt.Errorf("negotiate is not symmetric on (%v,%v): %d vs %d,%v", a, b, got, got2, err2)
	}
	return nil
}

func TestC19_NegotiateExhaustive(t *testing.T) {
	rec := stats.For("C19")
	n := 0
	for _, a := range subsets012() {
		for _, b := range subsets012() {
			n++
			c := &stats.Case{}
			if !bytes.Equal(a, b) {
				c.NT("differing-sets")
			}
			c.Class("exhaustive-pair")
			err := checkNegotiate(a, b)
			// every permutation of the listing order as well
			if err == nil {
				ra, rb := reverse(a), reverse(b)
				err = checkNegotiate(ra, rb)
			}
			rec.Commit(c, stats.Digest([][]byte{a, b}), func() any { return map[string]any{"a": a, "b": b} })
			if err != nil {
				path := pbt.SaveReplay("C19", "negotiate", c19Pair{A: a, B: b}, err.Error())
				pbt.ReportViolation("C19", err.Error(), path)
				t.Fatal(err)
			}
		}
	}
	if n != 49 {
		t.Fatalf("expected 49 pairs, got %d", n)
	}
	rec.Note("exhaustive_pairs_subsets_of_012", n)
}

func reverse(b []byte) []byte {
	out := make([]byte, len(b))
	for i := range b {
		out[len(b)-1-i] = b[i]
	}
	return out
}

type c19Pair struct{ A, B []byte }

func genVersionSet(t *rapid.T, label string) []byte {
	n := rapid.IntRange(1, 6).Draw(t, label+"n")
	if rapid.IntRange(0, 5).Draw(t, label+"long") == 0 {
		// a long list whose only supported versions come late ("any two nodes advertising version sets")
		n = rapid.IntRange(9, 14).Draw(t, label+"nlong")
		out := make([]byte, n)
		for i := range out {
			out[i] = byte(20 + i)
		}
		out[n-1] = rapid.ByteRange(0, 1).Draw(t, label+"last")
		if rapid.Bool().Draw(t, label+"both") {
			out[n-2] = 1 - out[n-1]
		}
		return out
	}
	small := rapid.Bool().Draw(t, label+"small")
	out := make([]byte, n)
	for i := range out {
		if small {
			out[i] = rapid.ByteRange(0, 4).Draw(t, label)
		} else {
			out[i] = rapid.Byte().Draw(t, label)
		}
	}
	return out
}

func TestC19_Negotiate(t *testing.T) {
	pbt.Run(t, "C19", "negotiate", func(t *rapid.T) c19Pair {
		return c19Pair{A: genVersionSet(t, "a"), B: genVersionSet(t, "b")}
	}, func(p c19Pair, c *stats.Case) error {
		if _, ok := maxCommon(p.A, p.B); !ok {
			c.NT("no-common")
		} else if !bytes.Equal(p.A, p.B) {
			c.NT("differing-sets")
		}
		if len(p.A) == 0 || len(p.B) == 0 {
			return nil
		}
		return checkNegotiate(p.A, p.B)
	})
}

// ---------------------------------------------------------------------------
// C19 (b): the per-peer version lookup on a real instance (ENR entries)

type c19Peer struct {
	Local    []byte // versions the local instance runs with (subset of {0,1}, non-empty)
	PeerKind string // "set", "missing", "empty", "malformed"
	Peer     []byte
	Calls    int
}

func genC19Peer(t *rapid.T) c19Peer {
	local := rapid.SampledFrom([][]byte{{0}, {1}, {0, 1}, {1, 0}}).Draw(t, "local")
	kind := rapid.SampledFrom([]string{"set", "set", "set", "missing", "empty", "malformed"}).Draw(t, "kind")
	return c19Peer{Local: local, PeerKind: kind, Peer: genVersionSet(t, "peer"), Calls: rapid.IntRange(1, 4).Draw(t, "calls")}
}

func peerNode(kind string, versions []byte, keyIdx int) *enode.Node {
	switch kind {
	case "missing":
		return gen.SignedNode(gen.NodeOpts{KeyIdx: keyIdx, Seq: 1, IP: []byte{127, 0, 0, 1}, UDP: 30000 + keyIdx})
	case "empty":
		return gen.SignedNode(gen.NodeOpts{KeyIdx: keyIdx, Seq: 1, IP: []byte{127, 0, 0, 1}, UDP: 30000 + keyIdx, Versions: []byte{}, RawPV: true})
	case "malformed":
		// an RLP list where a byte string is expected
		var r enr.Record
		r.Set(enr.IP([]byte{127, 0, 0, 1}))
		r.Set(enr.UDP(30000 + keyIdx))
		r.Set(enr.WithEntry("pv", []uint64{300, 7}))
		r.SetSeq(1)
		if err := enode.SignV4(&r, gen.Key(keyIdx)); err != nil {
			panic(err)
		}
		n, err := enode.New(enode.ValidSchemes, &r)
		if err != nil {
			panic(err)
		}
		return n
	}
	return gen.SignedNode(gen.NodeOpts{KeyIdx: keyIdx, Seq: 1, IP: []byte{127, 0, 0, 1}, UDP: 30000 + keyIdx, Versions: versions})
}

func runC19Peer(p c19Peer, c *stats.Case) error {
	local := pp.Bare(1, p.Local, nil, portalwire.History)
	peer := peerNode(p.PeerKind, p.Peer, 2)
	c.Class("peer:" + p.PeerKind)
	want, ok := maxCommon(p.Local, p.Peer)
	for call := 0; call < p.Calls; call++ {
		got, err := local.VerifGetOrStoreHighestVersion(peer)
		switch p.PeerKind {
		case "missing":
			if err != nil || got != p.Local[0] {
				return fmt.Errorf("peer without version entry: got %d,%v want own base version %d (call %d)", got, err, p.Local[0], call)
			}
		case "empty", "malformed":
			// nothing in common (or unreadable): an error, or the base version if treated as "advertises none"
			if call > 0 {
				c.NT("repeat-after-error")
			}
			if err == nil && got != p.Local[0] {
				if call > 0 && got == 0 && known16(call) {
					continue
				}
				return fmt.Errorf("peer with %s version entry: got %d without error (call %d)", p.PeerKind, got, call)
			}
		default:
			if ok {
				if err != nil || got != want {
					return fmt.Errorf("local %v peer %v: got %d,%v want %d (call %d)", p.Local, p.Peer, got, err, want, call)
				}
				if !bytes.Equal(p.Local, p.Peer) {
					c.NT("differing-sets")
				}
			} else {
				if call > 0 {
					c.NT("repeat-after-error")
				}
				if err == nil {
					if call > 0 && got == 0 && known16(call) {
						continue
					}
					return fmt.Errorf("local %v peer %v share no version but call %d returned %d without error", p.Local, p.Peer, call, got)
				}
			}
		}
	}
	return nil
}

// known16 is the classifier of known finding D16: the first call caches 0 together with
// the error, so every later call (within the cache TTL) returns (0, nil).
func known16(call int) bool {
	if call == 0 || !pbt.KnownOpen("D16-version-cached-with-error") {
		return false
	}
	pbt.HitKnown("C19", "D16-version-cached-with-error")
	return true
}

func TestC19_PeerVersion(t *testing.T) { pbt.Run(t, "C19", "peerversion", genC19Peer, runC19Peer) }

// ---------------------------------------------------------------------------
// C19 (c): transfers between two real instances for every pairing

type c19Transfer struct {
	A, B       []byte // version sets of the two instances (subsets of {0,1})
	FramedLook bool   // the stored value begins with the LEB128 of its own remaining length
	NoSlot     bool   // B has no inbound transfer slot: its answer is "everything declined", in the encoding of the common version
	Prior      []byte // non-empty: the asker ran with this version set before (same identity and endpoint), contacted B, and restarted with A
	ContentLen int    // FINDCONTENT payload size (> inline threshold => uTP)
	Items      []int  // offered item sizes
}

func genC19Transfer(t *rapid.T) c19Transfer {
	// sets with a version number this code has no ACCEPT encoding for (2) are used for the FINDCONTENT leg only
	sets := [][]byte{{0}, {1}, {0, 1}, {1, 0}, {0, 1}, {0, 1, 2}, {2, 1}, {2}}
	n := rapid.IntRange(1, 4).Draw(t, "items")
	items := make([]int, n)
	for i := range items {
		items[i] = rapid.SampledFrom([]int{0, 1, 100, 1200, 5000, 40000}).Draw(t, "ilen")
	}
	var prior []byte
	if rapid.IntRange(0, 2).Draw(t, "hasprior") == 0 {
		prior = rapid.SampledFrom([][]byte{{0}, {1}, {0, 1}}).Draw(t, "prior")
	}
	return c19Transfer{A: rapid.SampledFrom(sets).Draw(t, "a"), B: rapid.SampledFrom(sets).Draw(t, "b"), Prior: prior, NoSlot: rapid.IntRange(0, 4).Draw(t, "noslot") == 0, FramedLook: rapid.IntRange(0, 2).Draw(t, "framedLook") == 0,
		ContentLen: rapid.SampledFrom([]int{1200, 1500, 4000, 30000, 120000}).Draw(t, "clen"), Items: items}
}

func fillBytes(n int, seed byte) []byte {
	b := make([]byte, n)
	for i := range b {
		b[i] = byte(i*13) ^ seed
	}
	return b
}

// selfDescribing overwrites the start of b with the LEB128 encoding of the number of bytes that follow it: read as a
// version-1 stream, b would be exactly one framed item. A version-0 stream is the raw value, whatever it looks like.
func selfDescribing(b []byte) []byte {
	for k := 1; k <= 5 && k < len(b); k++ {
		v := uint64(len(b) - k)
		var enc []byte
		for {
			c := byte(v & 0x7f)
			v >>= 7
			if v != 0 {
				enc = append(enc, c|0x80)
			} else {
				enc = append(enc, c)
				break
			}
		}
		if len(enc) == k {
			copy(b, enc)
			return b
		}
	}
	return b
}

func contentKey(i int) []byte {
	return append([]byte{0x00}, crypto.Keccak256([]byte(fmt.Sprintf("verif-key-%d", i)))...)
}

func runC19Transfer(p c19Transfer, c *stats.Case) error {
	hub := simnet.NewHub()
	maxUtp := 0
	if p.NoSlot {
		maxUtp = -1
	}
	b, err := pp.NewLive(hub, pp.LiveOpts{KeyIdx: 12, Port: nextPort(), Versions: p.B, UtpFast: true, MaxUtp: maxUtp})
	if err != nil {
		return fmt.Errorf("harness: %v", err)
	}
	defer b.Stop()
	portA := nextPort()
	var priorSeq uint64
	var apA netip.AddrPort
	var sentA0 int
	if len(p.Prior) > 0 {
		// history: the same node (identity, endpoint) advertised another version set earlier and B has that
		// record in its table; after the restart its record is newer and B learns it in the handshake
		a0, err := pp.NewLive(hub, pp.LiveOpts{KeyIdx: 11, Port: portA, Versions: p.Prior, UtpFast: true})
		if err != nil {
			return fmt.Errorf("harness: %v", err)
		}
		_, perr := a0.P.VerifPing(b.Node())
		inTable := false
		for _, n := range b.P.VerifTable().VerifNodeList() {
			if n.ID() == a0.Node().ID() {
				inTable = true
			}
		}
		priorSeq = a0.Node().Seq()
		a0.Stop()
		apA = a0.Conn.AddrPort()
		sentA0 = hub.Sent(apA)
		if perr == nil && inTable && !bytes.Equal(p.Prior, p.A) {
			c.NT("restarted-with-other-version-set")
		}
		// record sequence numbers start from the millisecond clock and grow by one per re-signing: a restart
		// that takes a few dozen milliseconds comes back with a newer record, as a real restart does
		time.Sleep(40 * time.Millisecond)
	}
	a, err := pp.NewLive(hub, pp.LiveOpts{KeyIdx: 11, Port: portA, Versions: p.A, UtpFast: true})
	if err != nil {
		return fmt.Errorf("harness: %v", err)
	}
	defer a.Stop()
	if len(p.Prior) > 0 && hub.Sent(apA) != sentA0 {
		// The restarted node has already answered a packet of the responder (a liveness check of its routing table
		// under the old session keys): the responder then opened the new session itself, with the record it had. A
		// stale record in that case is how the discovery protocol works, not what this history is about.
		c.Class("discarded:responder-contacted-the-restarted-node-first")
		return nil
	}
	if len(p.Prior) > 0 && a.Node().Seq() <= priorSeq {
		c.Class("harness:restarted-record-not-newer")
		return nil // B may rightly keep the record it has
	}
	common, ok := maxCommon(p.A, p.B)
	sa, sb := append([]byte{}, p.A...), append([]byte{}, p.B...)
	sort.Slice(sa, func(i, j int) bool { return sa[i] < sa[j] })
	sort.Slice(sb, func(i, j int) bool { return sb[i] < sb[j] })
	if !bytes.Equal(sa, sb) {
		c.NT("cross-version")
	}
	c.Class(fmt.Sprintf("pair:%v-%v", sa, sb))

	if ok && common >= 2 {
		c.NT("common-version>=2-findcontent-only")
		return c19FindContent(a, b, p, common, c)
	}
	// --- OFFER a -> b
	entries := make([]*portalwire.ContentEntry, len(p.Items))
	for i, l := range p.Items {
		entries[i] = &portalwire.ContentEntry{ContentKey: contentKey(i), Content: fillBytes(l, byte(i))}
	}
	permit, got := a.Utp.GetOutboundPermit()
	if !got {
		return fmt.Errorf("harness: no outbound permit")
	}
	req := &portalwire.OfferRequest{Kind: portalwire.TransientOfferRequestKind, Request: &portalwire.TransientOfferRequest{Contents: entries}}
	_, oerr := a.P.VerifOffer(b.Node(), req, permit)
	if !ok {
		c.NT("no-common-version")
		if oerr == nil {
			return fmt.Errorf("sets %v/%v share no version but the offer was processed without error", p.A, p.B)
		}
		select {
		case el := <-b.Queue:
			return fmt.Errorf("sets %v/%v share no version but %d items were transferred", p.A, p.B, len(el.Contents))
		case <-time.After(150 * time.Millisecond):
		}
		// asked again, the answer must be the same: an error and no transfer
		permit2, _ := a.Utp.GetOutboundPermit()
		_, oerr2 := a.P.VerifOffer(b.Node(), req, permit2)
		transferred := false
		select {
		case <-b.Queue:
			transferred = true
		case <-time.After(300 * time.Millisecond):
		}
		if oerr2 == nil || transferred {
			c.NT("no-common-version-repeat")
			if known16(1) {
				return nil
			}
			return fmt.Errorf("sets %v/%v share no version; the second offer was processed (err=%v, transferred=%v)", p.A, p.B, oerr2, transferred)
		}
		return nil
	}
	if oerr != nil {
		if pp.IsTimeout(oerr) {
			stats.For("C19").Count("inconclusive:offer-timeout", 1)
			return nil
		}
		return fmt.Errorf("sets %v/%v share version %d but the offer failed: %v", p.A, p.B, common, oerr)
	}
	if p.NoSlot {
		// the answer was understood (no error above): nothing was accepted, so nothing may arrive
		select {
		case el := <-b.Queue:
			return fmt.Errorf("B has no transfer slot but %d items were transferred", len(el.Contents))
		case <-time.After(200 * time.Millisecond):
		}
		c.NT(fmt.Sprintf("all-declined-for-lack-of-a-slot:version=%d", common))
		return nil
	}
	select {
	case el := <-b.Queue:
		if len(el.Contents) != len(entries) {
			return fmt.Errorf("offer over version %d: %d items arrived, %d offered", common, len(el.Contents), len(entries))
		}
		for i := range entries {
			if !bytes.Equal(el.ContentKeys[i], entries[i].ContentKey) || !bytes.Equal(el.Contents[i], entries[i].Content) {
				return fmt.Errorf("offer over version %d: item %d arrived altered (len %d -> %d)", common, i, len(entries[i].Content), len(el.Contents[i]))
			}
		}
		if el.Node != a.Node().ID() {
			return fmt.Errorf("offer: wrong source id on the queued element")
		}
		c.Class("offer-transferred")
	case <-time.After(20 * time.Second):
		stats.For("C19").Count("inconclusive:offer-timeout", 1)
		return nil
	}

	return c19FindContent(a, b, p, common, c)
}

func c19FindContent(a, b *pp.Live, p c19Transfer, common uint8, c *stats.Case) error {
	// --- large FINDCONTENT a <- b
	key := contentKey(1000)
	want := fillBytes(p.ContentLen, 0x5a)
	if p.FramedLook {
		want = selfDescribing(want)
		c.Class("stored-value-looks-like-a-framed-stream")
	}
	if err := b.Store.Put(key, b.P.ToContentId(key), want); err != nil {
		return fmt.Errorf("harness: %v", err)
	}
	type fcRes struct {
		flag byte
		v    interface{}
		err  error
	}
	ch := make(chan fcRes, 1)
	go func() {
		f, v, e := a.P.VerifFindContent(b.Node(), key)
		ch <- fcRes{f, v, e}
	}()
	select {
	case r := <-ch:
		if r.err != nil {
			if pp.IsTimeout(r.err) {
				stats.For("C19").Count("inconclusive:findcontent-timeout", 1)
				return nil
			}
			return fmt.Errorf("sets %v/%v share version %d but FINDCONTENT of %d bytes failed: %v", p.A, p.B, common, p.ContentLen, r.err)
		}
		gotb, isBytes := r.v.([]byte)
		if !isBytes || !bytes.Equal(gotb, want) {
			return fmt.Errorf("FINDCONTENT over version %d: %d bytes stored, got %d bytes (flag %d), payload differs", common, len(want), len(gotb), r.flag)
		}
		if r.flag == portalwire.ContentConnIdSelector {
			c.NT("utp-findcontent")
		}
	case <-time.After(30 * time.Second):
		stats.For("C19").Count("inconclusive:findcontent-timeout", 1)
	}
	return nil
}

func TestC19_Transfer(t *testing.T) { pbt.Run(t, "C19", "transfer", genC19Transfer, runC19Transfer) }
