package p_proto

import (
	"bytes"
	"context"
	"encoding/binary"
	"fmt"
	"math/big"
	"net"
	"sort"
	"testing"
	"time"

	bitfield "github.com/OffchainLabs/go-bitfield"
	"github.com/holiman/uint256"
	"github.com/zen-eth/shisui/portalwire"
	"pgregory.net/rapid"
	"verifharness/pbt"
	"verifharness/pp"
	"verifharness/simnet"
	"verifharness/stats"
)

type offerKey struct {
	Seed  uint32
	State string // "unstored", "stored", "inflight"
	Len   int    // content length sent for this key
}

type c09Plan struct {
	VA, VB    []byte
	Keys      []offerKey
	Radius    string // "max", "zero", "split"
	Split     int
	Limit     int // inbound slot limit: -1 (=0), 1, 2, 50
	PreTaken  int // slots already in use when the offer arrives
	QueueCap  int
	QueueFull bool
	Stream    string // "valid", "fewer", "more", "garbage", "truncated", "trailing", "nodial"
	Second    bool   // a second offer of the same keys once they are observably in flight
	ThirdV0   bool   // the third party speaks version 0
	Third     bool   // then a third party's overlapping offer whose transfer ends at once, then the keys are offered again
}

func genC09(t *rapid.T) c09Plan {
	sets := [][]byte{{0}, {1}, {0, 1}}
	n := rapid.SampledFrom([]int{0, 1, 2, 3, 5, 8, 17, 64}).Draw(t, "nkeys")
	keys := make([]offerKey, n)
	for i := range keys {
		keys[i] = offerKey{Seed: rapid.Uint32().Draw(t, "kseed"),
			State: rapid.SampledFrom([]string{"unstored", "unstored", "unstored", "stored", "inflight"}).Draw(t, "kstate"),
			Len:   rapid.SampledFrom([]int{0, 0, 1, 7, 130, 1200, 20000}).Draw(t, "klen")}
	}
	allFresh := false
	if n == 64 && rapid.Bool().Draw(t, "allFresh") {
		allFresh = true
		// all 64 keys of a full offer are acceptable: the transfer carries the largest legal number of items
		for i := range keys {
			keys[i].State = "unstored"
			if keys[i].Len > 130 {
				keys[i].Len = 130
			}
		}
	}
	va := rapid.SampledFrom(sets).Draw(t, "va")
	vb := rapid.SampledFrom(sets).Draw(t, "vb")
	if _, ok := maxCommon(va, vb); !ok {
		vb = []byte{0, 1}
	}
	p := genC09Rest(t, va, vb, keys)
	if !allFresh && n >= 1 && n <= 5 && rapid.IntRange(0, 7).Draw(t, "mixedVersions") == 0 {
		// a version-1 transfer that stays under way, then a version-0 third party taking the same keys
		for i := range keys {
			keys[i].State = "unstored"
		}
		p.VA, p.VB, p.Keys = []byte{1}, []byte{0, 1}, keys
		p.Radius, p.PreTaken, p.QueueFull, p.Limit = "max", 0, false, 50
		p.Stream, p.Second, p.Third, p.ThirdV0 = "nodial", true, true, true
	}
	if allFresh {
		p.Radius, p.PreTaken, p.QueueFull = "max", 0, false
		if p.Limit < 1 {
			p.Limit = 50
		}
		p.Stream = rapid.SampledFrom([]string{"valid", "more", "more", "trailing", "fewer"}).Draw(t, "stream64")
	}
	return p
}

func genC09Rest(t *rapid.T, va, vb []byte, keys []offerKey) c09Plan {
	return c09Plan{VA: va, VB: vb, Keys: keys,
		Radius: rapid.SampledFrom([]string{"max", "max", "max", "split", "split", "zero"}).Draw(t, "radius"), Split: rapid.IntRange(0, 64).Draw(t, "split"),
		Limit: rapid.SampledFrom([]int{50, 50, 50, 2, 1, -1}).Draw(t, "limit"), PreTaken: rapid.SampledFrom([]int{0, 0, 0, 1, 2}).Draw(t, "pre"),
		QueueCap: rapid.SampledFrom([]int{1, 2, 50}).Draw(t, "qcap"), QueueFull: rapid.IntRange(0, 7).Draw(t, "qfull") == 0,
		Stream: rapid.SampledFrom([]string{"valid", "valid", "valid", "fewer", "more", "garbage", "truncated", "trailing", "nodial"}).Draw(t, "stream"),
		Second: rapid.IntRange(0, 2).Draw(t, "second") == 0, Third: rapid.Bool().Draw(t, "third"), ThirdV0: rapid.Bool().Draw(t, "thirdV0")}
}

func offerKeyBytes(seed uint32, i int) []byte {
	k := make([]byte, 7)
	k[0] = 0x00
	binary.BigEndian.PutUint32(k[1:], seed)
	binary.BigEndian.PutUint16(k[5:], uint16(i)) // distinct keys inside one offer
	return k
}

// parseAccept decodes an ACCEPT reply of the negotiated version into per-key verdicts.
func parseAccept(reply []byte, version uint8, nkeys int) (connID uint16, accepted []bool, codes []byte, err error) {
	if len(reply) == 0 || reply[0] != portalwire.ACCEPT {
		return 0, nil, nil, fmt.Errorf("reply is not an ACCEPT message: %x", clip(reply))
	}
	if version == 0 {
		var a portalwire.Accept
		if e := a.UnmarshalSSZ(reply[1:]); e != nil {
			return 0, nil, nil, fmt.Errorf("ACCEPT (bit list) does not decode: %v", e)
		}
		bl := bitfield.Bitlist(a.ContentKeys)
		if int(bl.Len()) != nkeys {
			return 0, nil, nil, fmt.Errorf("ACCEPT bit list has %d verdicts for %d offered keys", bl.Len(), nkeys)
		}
		accepted = make([]bool, nkeys)
		for i := range accepted {
			accepted[i] = bl.BitAt(uint64(i))
		}
		return binary.BigEndian.Uint16(a.ConnectionId), accepted, nil, nil
	}
	var a portalwire.AcceptV1
	if e := a.UnmarshalSSZ(reply[1:]); e != nil {
		return 0, nil, nil, fmt.Errorf("ACCEPT (code list) does not decode: %v", e)
	}
	if len(a.ContentKeys) != nkeys {
		return 0, nil, nil, fmt.Errorf("ACCEPT code list has %d verdicts for %d offered keys", len(a.ContentKeys), nkeys)
	}
	accepted = make([]bool, nkeys)
	for i, cd := range a.ContentKeys {
		accepted[i] = cd == byte(portalwire.Accepted)
	}
	return binary.BigEndian.Uint16(a.ConnectionId), accepted, a.ContentKeys, nil
}

func waitFreeInbound(l *pp.Live, want int, d time.Duration) int {
	deadline := time.Now().Add(d)
	for {
		in, _ := l.Utp.VerifFreeSlots()
		if in == want || time.Now().After(deadline) {
			return in
		}
		time.Sleep(2 * time.Millisecond)
	}
}

func runC09(p c09Plan, c *stats.Case) error {
	ver, common := maxCommon(p.VA, p.VB)
	if !common {
		return nil // no common version: C19's subject
	}
	hub := simnet.NewHub()
	store := pp.NewMemStore()
	b, err := pp.NewLive(hub, pp.LiveOpts{KeyIdx: 71, Port: nextPort(), Versions: p.VB, Storage: store, MaxUtp: p.Limit, QueueCap: p.QueueCap, UtpFast: true, RespTimeout: 20 * time.Second})
	if err != nil {
		return fmt.Errorf("harness: %v", err)
	}
	defer b.Stop()
	a, err := pp.NewLive(hub, pp.LiveOpts{KeyIdx: 72, Port: nextPort(), Versions: p.VA, UtpFast: true})
	if err != nil {
		return fmt.Errorf("harness: %v", err)
	}
	defer a.Stop()
	limit := p.Limit
	if limit < 0 {
		limit = 0
	}
	c.Class(fmt.Sprintf("version:%d", ver))
	// a discv5 session must exist before uTP packets (sent without a pending call) can flow
	if _, err := a.P.VerifPing(b.Node()); err != nil {
		return fmt.Errorf("harness: ping: %v", err)
	}

	// ---- prepare keys, store, radius, in-flight marks, queue, slots
	keys := make([][]byte, len(p.Keys))
	contents := make([][]byte, len(p.Keys))
	ids := make([][]byte, len(p.Keys))
	var dists []*big.Int
	self := b.Node().ID()
	for i, k := range p.Keys {
		keys[i] = offerKeyBytes(k.Seed, i)
		contents[i] = fillBytes(k.Len, byte(i))
		ids[i] = b.P.ToContentId(keys[i])
		dists = append(dists, xorDist(self[:], ids[i]))
		switch k.State {
		case "stored":
			// (what is stored may be any value, the empty one included: a key is stored or it is not)
			held := []byte("already here")
			if k.Len <= 7 {
				held = fillBytes(k.Len, 0x33)
				if k.Len == 0 {
					c.Class("offered-key-already-stored-with-an-empty-value")
				}
			}
			_ = store.Put(keys[i], ids[i], held)
		case "inflight":
			b.P.VerifTransferringSet([][]byte{keys[i]})
		}
	}
	switch p.Radius {
	case "zero":
		store.SetRadius(uint256.NewInt(0))
	case "split":
		if len(dists) > 0 {
			sorted := append([]*big.Int{}, dists...)
			sort.Slice(sorted, func(i, j int) bool { return sorted[i].Cmp(sorted[j]) < 0 })
			r, _ := uint256.FromBig(sorted[p.Split%len(sorted)])
			store.SetRadius(r) // that key itself sits at distance == radius
		}
	}
	radius := store.Radius()
	if p.QueueFull {
		for i := 0; i < p.QueueCap; i++ {
			b.Queue <- &portalwire.ContentElement{}
		}
		c.Class("queue-full")
	}
	pre := p.PreTaken
	if pre > limit {
		pre = limit
	}
	var held []portalwire.Permit
	for i := 0; i < pre; i++ {
		if pm, ok := b.Utp.GetInboundPermit(); ok {
			held = append(held, pm)
		}
	}
	defer func() {
		for _, pm := range held {
			pm.Release()
		}
	}()
	freeBefore, _ := b.Utp.VerifFreeSlots()
	if freeBefore == 0 {
		c.Class("no-slot-available")
	}

	// ---- the offer
	addrA := &net.UDPAddr{IP: net.IP{127, 0, 0, 1}, Port: a.Opts.Port}
	reply, herr := b.P.VerifHandleOffer(a.Node(), addrA, &portalwire.Offer{ContentKeys: keys})
	if herr != nil {
		return fmt.Errorf("handleOffer returned an error for a well-formed offer of %d keys: %v", len(keys), herr)
	}
	connID, accepted, codes, err := parseAccept(reply, ver, len(keys))
	if err != nil {
		return err
	}
	nAcc := 0
	var accKeys, accContents [][]byte
	mixed := map[string]bool{}
	for i, acc := range accepted {
		in := portalwire.VerifInRange(self, radius, ids[i])
		mixed[fmt.Sprintf("%v", acc)] = true
		if !acc {
			continue
		}
		nAcc++
		accKeys = append(accKeys, keys[i])
		accContents = append(accContents, contents[i])
		if !in {
			return fmt.Errorf("key %d accepted although the node's in-range test rejects it (radius %s)", i, radius.Hex())
		}
		if p.Keys[i].State == "stored" {
			return fmt.Errorf("key %d accepted although it is already stored", i)
		}
		if ver == 1 && p.Keys[i].State == "inflight" {
			return fmt.Errorf("key %d accepted (version 1) although it is already being received", i)
		}
		if freeBefore == 0 {
			if kf13(ver) {
				continue
			}
			return fmt.Errorf("key %d accepted although no transfer slot was available (limit %d, %d in use)", i, limit, pre)
		}
	}
	if len(mixed) == 2 {
		c.NT("mixed-verdicts")
	}
	if codes != nil && freeBefore == 0 && len(keys) > 0 {
		c.NT("rate-limited-reply")
	}
	freeAfter, _ := b.Utp.VerifFreeSlots()
	if nAcc == 0 || freeBefore == 0 {
		if freeAfter != freeBefore {
			return fmt.Errorf("nothing accepted (or no slot) but %d inbound slots are free after the call, %d before", freeAfter, freeBefore)
		}
		if nAcc == 0 {
			return nil
		}
		// version 0 rate-limited reply under known finding D13: nobody is waiting; nothing else to check
		return nil
	}
	if freeAfter != freeBefore-1 {
		return fmt.Errorf("%d keys accepted but %d inbound slots are free after the call (%d before): exactly one slot must be held for this offer", nAcc, freeAfter, freeBefore)
	}
	c.Class("accepted>=1")
	if nAcc == 64 {
		c.NT("accepted-all-64-keys:stream=" + p.Stream)
	}

	// ---- second, overlapping offer once the keys are observably in flight
	secondHeld := 0 // a slot the second offer legitimately holds (version 0 may accept the same keys again)
	if p.Second {
		deadline := time.Now().Add(3 * time.Second)
		for !b.P.VerifTransferringHas(accKeys[0]) && time.Now().Before(deadline) {
			time.Sleep(time.Millisecond)
		}
		// (the receiving goroutine marks the keys right after the reply was produced: the wait above covers its start.
		// Three seconds later the keys of a granted transfer that has not ended ARE being received, marked or not.)
		if !b.P.VerifTransferringHas(accKeys[0]) {
			c.Class("keys-not-marked-in-flight-3s-after-the-grant")
		}
		{
			a2 := peerNode("set", p.VA, 73)
			reply2, err2 := b.P.VerifHandleOffer(a2, &net.UDPAddr{IP: net.IP{127, 0, 0, 1}, Port: 30073}, &portalwire.Offer{ContentKeys: keys})
			if err2 != nil {
				return fmt.Errorf("second offer: %v", err2)
			}
			_, acc2, _, err := parseAccept(reply2, ver, len(keys))
			if err != nil {
				return fmt.Errorf("second offer: %v", err)
			}
			if ver == 1 {
				for i := range acc2 {
					if acc2[i] && accepted[i] {
						return fmt.Errorf("second offer (version 1): key %d accepted again while its first transfer is in progress", i)
					}
				}
			}
			for i := range acc2 {
				if acc2[i] {
					secondHeld = 1
				}
			}
			c.NT("overlapping-offer")
			// version 1: a third party offers the same keys plus a fresh one; its transfer ends at once (garbage
			// stream); the first offer's keys must still count as being received afterwards
			if ver == 1 && p.Third {
				fresh := offerKeyBytes(0xF00D, 999)
				keys3 := append(append([][]byte{}, keys...), fresh)
				free3, _ := b.Utp.VerifFreeSlots()
				// the third party may speak version 0 (which knows no "already being received" verdict and may take
				// the same keys again): what it does must not make the node forget that the first, version-1,
				// transfer is still receiving them
				v3, ver3 := p.VA, ver
				if p.ThirdV0 && bytes.IndexByte(p.VB, 0) >= 0 {
					v3, ver3 = []byte{0}, 0
					c.Class("third-party-speaks-version-0")
				}
				a3, err3 := pp.NewLive(hub, pp.LiveOpts{KeyIdx: 74, Port: nextPort(), Versions: v3, UtpFast: true})
				if err3 == nil && free3 > 0 && len(keys3) <= 64 {
					defer a3.Stop()
					if _, perr := a3.P.VerifPing(b.Node()); perr == nil {
						reply3, herr3 := b.P.VerifHandleOffer(a3.Node(), &net.UDPAddr{IP: net.IP{127, 0, 0, 1}, Port: a3.Opts.Port}, &portalwire.Offer{ContentKeys: keys3})
						if herr3 == nil {
							cid3, acc3, _, perr3 := parseAccept(reply3, ver3, len(keys3))
							if perr3 != nil {
								return fmt.Errorf("third offer: %v", perr3)
							}
							for i := range keys {
								if ver3 == 1 && acc3[i] && accepted[i] {
									return fmt.Errorf("third offer (version 1): key %d accepted again while its first transfer is in progress", i)
								}
							}
							if acc3[len(keys3)-1] {
								ctx3, cancel3 := context.WithTimeout(context.Background(), 8*time.Second)
								defer cancel3()
								if conn3, derr3 := a3.Utp.DialWithCid(ctx3, b.Node(), cid3); derr3 == nil {
									_, _ = conn3.Write(ctx3, []byte{0xff, 0xff, 0xff, 0xff, 0xff, 0x01})
									conn3.Close()
									// its slot comes back when its goroutine has ended and cleaned up
									if waitFreeInbound(b, free3, 8*time.Second) == free3 {
										a4 := peerNode("set", p.VA, 75)
										reply4, herr4 := b.P.VerifHandleOffer(a4, &net.UDPAddr{IP: net.IP{127, 0, 0, 1}, Port: 30075}, &portalwire.Offer{ContentKeys: keys})
										if herr4 == nil {
											_, acc4, _, perr4 := parseAccept(reply4, ver, len(keys))
											if perr4 != nil {
												return fmt.Errorf("fourth offer: %v", perr4)
											}
											for i := range acc4 {
												if acc4[i] && accepted[i] {
													return fmt.Errorf("after an overlapping offer from a third party ended, key %d of the first offer (still being received) was accepted again", i)
												}
											}
											c.NT("offer-after-overlapping-offer-ended")
											if ver3 == 0 {
												c.NT("offer-after-overlapping-version-0-offer-ended")
											}
										}
									}
								}
							}
						}
					}
				}
			}
		}
	}

	// ---- the transfer on the announced connection id
	var payload []byte
	wantQueued := false
	switch p.Stream {
	case "valid":
		payload = portalwire.VerifEncodeContents(accContents)
		wantQueued = !p.QueueFull
	case "fewer":
		payload = portalwire.VerifEncodeContents(accContents[:len(accContents)-1])
	case "more":
		payload = portalwire.VerifEncodeContents(append(append([][]byte{}, accContents...), []byte("surplus")))
	case "garbage":
		payload = []byte{0xff, 0xff, 0xff, 0xff, 0xff, 0xff, 0x01}
	case "truncated":
		payload = portalwire.VerifEncodeContents(accContents)
		payload = append(payload, 0x05, 0x01) // announces 5 bytes, carries 1
	case "trailing":
		payload = append(portalwire.VerifEncodeContents(accContents), 0x80)
	case "nodial":
		c.NT("lost-transfer")
		// the acceptor waits 15 s for a dial; stopping the node ends it. The slot must still be held now.
		if in, _ := b.Utp.VerifFreeSlots(); in != freeBefore-1-secondHeld {
			return fmt.Errorf("transfer not started yet but %d inbound slots free (%d expected)", in, freeBefore-1-secondHeld)
		}
		return nil
	}
	if len(payload) == 0 && p.Stream != "valid" {
		payload = []byte{}
	}
	ctx, cancel := context.WithTimeout(context.Background(), 8*time.Second)
	defer cancel()
	conn, derr := a.Utp.DialWithCid(ctx, b.Node(), connID)
	if derr != nil {
		// a dial that times out is the signature of "nobody is waiting", but also of a starved machine: the first
		// failure is retried once after the acceptor had ample time, and only a second failure is judged
		time.Sleep(500 * time.Millisecond)
		ctx2, cancel2 := context.WithTimeout(context.Background(), 10*time.Second)
		defer cancel2()
		conn, derr = a.Utp.DialWithCid(ctx2, b.Node(), connID)
		if derr != nil {
			return fmt.Errorf("%d keys accepted and connection id %d announced, but nobody accepted the uTP dial (two attempts): %v", nAcc, connID, derr)
		}
	}
	if len(payload) > 0 {
		if _, werr := conn.Write(ctx, payload); werr != nil {
			conn.Close()
			stats.For("C09").Count("inconclusive:utp-write-failed", 1)
			return nil
		}
	}
	conn.Close()
	// completion signal: the slot comes back
	if in := waitFreeInbound(b, freeBefore-secondHeld, 10*time.Second); in != freeBefore-secondHeld {
		stats.For("C09").Count("inconclusive:transfer-not-finished-in-10s", 1)
		return nil
	}
	// drain what the harness put in to fill the queue
	var got *portalwire.ContentElement
	deadline := time.After(2 * time.Second)
	if p.QueueFull {
		deadline = time.After(50 * time.Millisecond)
	}
loop:
	for {
		select {
		case el := <-b.Queue:
			if el.ContentKeys == nil && el.Contents == nil {
				continue // harness filler
			}
			got = el
			break loop
		case <-deadline:
			break loop
		}
	}
	if !wantQueued {
		if got != nil && !p.QueueFull {
			return fmt.Errorf("stream class %q (not the accepted item count) but %d items were handed to validation", p.Stream, len(got.Contents))
		}
		if got != nil && p.QueueFull {
			// the harness drained fillers concurrently; a valid stream may then fit - judge it like a delivery
			if p.Stream != "valid" {
				return fmt.Errorf("stream class %q but %d items were handed to validation", p.Stream, len(got.Contents))
			}
		} else {
			c.NT("stream-discarded:" + p.Stream)
			return nil
		}
	}
	if got == nil {
		return fmt.Errorf("valid stream of %d items delivered and slot released, but nothing was handed to validation", len(accContents))
	}
	if got.Node != a.Node().ID() {
		return fmt.Errorf("queued element names another source node")
	}
	if len(got.ContentKeys) != len(accKeys) || len(got.Contents) != len(accContents) {
		return fmt.Errorf("queued element has %d keys / %d contents, accepted were %d", len(got.ContentKeys), len(got.Contents), len(accKeys))
	}
	for i := range accKeys {
		if !bytes.Equal(got.ContentKeys[i], accKeys[i]) {
			return fmt.Errorf("queued key %d is not the %d-th accepted key", i, i)
		}
		if !bytes.Equal(got.Contents[i], accContents[i]) {
			return fmt.Errorf("queued content %d (%d bytes) is not the offered content of accepted key %d (%d bytes)", i, len(got.Contents[i]), i, len(accContents[i]))
		}
	}
	c.NT("transfer-completed")
	return nil
}

// kf13: known finding D13 (only while listed open): the version-0 rate-limited reply keeps its accept bits.
func kf13(ver uint8) bool {
	if ver != 0 || !pbt.KnownOpen("D13-v0-ratelimited-keeps-bits") {
		return false
	}
	pbt.HitKnown("C09", "D13-v0-ratelimited-keeps-bits")
	return true
}

func TestC09_Offer(t *testing.T) { pbt.Run(t, "C09", "offer", genC09, runC09) }
