package p_proto

import (
	"bytes"
	"encoding/binary"
	"encoding/json"
	"fmt"
	"net"
	"os"
	"path/filepath"
	"sort"
	"sync"
	"sync/atomic"
	"testing"
	"time"

	"github.com/ethereum/go-ethereum/p2p/enode"
	"github.com/zen-eth/shisui/portalwire"
	"github.com/zen-eth/shisui/storage"
	"pgregory.net/rapid"
	"verifharness/gen"
	"verifharness/pbt"
	"verifharness/pp"
	"verifharness/simnet"
	"verifharness/stats"
)

// C10, real-instance part: the exported Lookup / ContentLookup of a real protocol instance over the
// simulated network against scripted discv5 peers. What the production worker adds to the engine
// (dropping the local node from answers, distance filtering, feeding the table) is what is judged here.

type netPeer struct {
	Answer  string // FINDNODES: "honest", "plus-self", "dup", "wrong-distance", "garbage", "empty", "silent"
	Content string // FINDCONTENT: "enrs", "raw", "raw-other", "connid", "garbage", "empty", "silent"
	Known   []int  // indices of peers this peer knows about
	DelayMs int
}

type c10Net struct {
	Peers   []netPeer
	Seeds   []int // peers put into the asker's table before the lookup
	Target  uint32
	Content bool // content lookup instead of node lookup
	Slow    bool // the asker waits 900 ms for a reply and some peers answer after 350..600 ms (late replies after a cancellation)
}

func genC10Net(t *rapid.T) c10Net {
	n := rapid.IntRange(1, 24).Draw(t, "npeers")
	peers := make([]netPeer, n)
	for i := range peers {
		k := rapid.IntRange(0, n).Draw(t, "nknown")
		known := make([]int, k)
		for j := range known {
			known[j] = rapid.IntRange(0, n-1).Draw(t, "known")
		}
		peers[i] = netPeer{Answer: rapid.SampledFrom([]string{"honest", "honest", "honest", "plus-self", "dup", "wrong-distance", "garbage", "empty", "silent"}).Draw(t, "answer"),
			Content: rapid.SampledFrom([]string{"enrs", "enrs", "enrs", "enrs", "raw", "raw-other", "connid", "garbage", "empty", "silent"}).Draw(t, "content"),
			Known:   known, DelayMs: rapid.SampledFrom([]int{0, 0, 5, 20}).Draw(t, "delay")}
	}
	ns := rapid.IntRange(0, min(n, 5)).Draw(t, "nseeds")
	seeds := make([]int, ns)
	for i := range seeds {
		seeds[i] = rapid.IntRange(0, n-1).Draw(t, "seed")
	}
	slow := rapid.IntRange(0, 3).Draw(t, "slow") == 0
	if slow {
		for i := range peers {
			if rapid.IntRange(0, 2).Draw(t, "late") == 0 {
				peers[i].DelayMs = rapid.SampledFrom([]int{350, 450, 600}).Draw(t, "lateMs")
			}
		}
	}
	return c10Net{Peers: peers, Seeds: seeds, Target: rapid.Uint32().Draw(t, "target"), Content: rapid.Bool().Draw(t, "contentLookup"), Slow: slow}
}

type peerRT struct {
	spec     netPeer
	s        *pp.Scripted
	findReqs atomic.Int32 // FINDNODES with a non-zero distance / FINDCONTENT received
}

func runC10Net(p c10Net, c *stats.Case) error { return runC10NetAs("C10", "net", p, c) }

// runC10NetAs runs the scenario on behalf of a property: C10 judges the lookup results, C01 reuses the same
// hostile / late peers for "no reply can crash the node" (TALKRESPs to our own requests).
func runC10NetAs(prop, check string, p c10Net, c *stats.Case) error {
	// a late reply must not kill the node: write the plan ahead, a dead process is reported with it as the replay
	if dir := os.Getenv("VERIF_WORK"); dir != "" {
		if b, err := json.Marshal(map[string]any{"property": prop, "check": check, "error": "process died while this plan was executing", "plan": p}); err == nil {
			_ = os.WriteFile(filepath.Join(dir, fmt.Sprintf("wal-%d.json", os.Getpid())), b, 0o644)
		}
	}
	hub := simnet.NewHub()
	respTimeout := 150 * time.Millisecond
	if p.Slow {
		respTimeout = 900 * time.Millisecond
		c.Class("slow-peers")
	}
	a, err := pp.NewLive(hub, pp.LiveOpts{KeyIdx: 131, Port: nextPort(), Versions: []byte{0, 1}, UtpFast: true, RespTimeout: respTimeout, NoWorkers: true})
	if err != nil {
		return fmt.Errorf("harness: %v", err)
	}
	defer a.Stop()
	self := a.Node().ID()
	peers := make([]*peerRT, len(p.Peers))
	for i, sp := range p.Peers {
		s, err := pp.NewScripted(hub, 140+i, net.IP{127, 0, 0, 1}, nextPort(), []byte{0, 1}, 150*time.Millisecond)
		if err != nil {
			return fmt.Errorf("harness: %v", err)
		}
		defer s.Stop()
		peers[i] = &peerRT{spec: sp, s: s}
	}
	byID := map[enode.ID]int{}
	for i, pr := range peers {
		byID[pr.s.Node().ID()] = i
	}
	var inflight, peak atomic.Int32
	var suppliedMu sync.Mutex
	supplied := map[string]bool{}
	contentKeyB := []byte{0x00, byte(p.Target), byte(p.Target >> 8), byte(p.Target >> 16), byte(p.Target >> 24), 0xC1}
	contentID := a.P.ToContentId(contentKeyB)
	enter := func(pr *peerRT) func() {
		n := inflight.Add(1)
		for {
			old := peak.Load()
			if n <= old || peak.CompareAndSwap(old, n) {
				break
			}
		}
		// the asker counts a query as outstanding until the reply or its request time-out, whichever is first;
		// the peer-side window is therefore closed after two thirds of that time-out at the latest, so a handler slowed down by a loaded
		// machine can never be counted longer than the asker itself has the query outstanding
		var once sync.Once
		leave := func() { once.Do(func() { inflight.Add(-1) }) }
		time.AfterFunc(respTimeout*2/3, leave)
		if pr.spec.DelayMs > 0 {
			time.Sleep(time.Duration(pr.spec.DelayMs) * time.Millisecond)
		}
		return leave
	}
	enrsOf := func(pr *peerRT, filter func(n *enode.Node) bool) [][]byte {
		var out [][]byte
		for _, k := range pr.spec.Known {
			n := peers[k].s.Node()
			if filter == nil || filter(n) {
				out = append(out, mustRLP(n.Record()))
			}
		}
		return out
	}
	for _, pr := range peers {
		pr := pr
		me := pr.s.Node().ID()
		pr.s.Handle(portalwire.History, func(id enode.ID, addr *net.UDPAddr, msg []byte) []byte {
			if len(msg) == 0 {
				return nil
			}
			switch msg[0] {
			case portalwire.PING:
				pl := buildPayload(0, bytes.Repeat([]byte{0xff}, 32), false)
				b, _ := (&portalwire.Pong{EnrSeq: 1, PayloadType: 0, Payload: pl}).MarshalSSZ()
				return append([]byte{portalwire.PONG}, b...)
			case portalwire.FINDNODES:
				var req portalwire.FindNodes
				if req.UnmarshalSSZ(msg[1:]) != nil {
					return nil
				}
				ds := map[int]bool{}
				zeroOnly := true
				for _, d := range req.Distances {
					v := int(binary.LittleEndian.Uint16(d[:]))
					ds[v] = true
					if v != 0 {
						zeroOnly = false
					}
				}
				if zeroOnly {
					b, _ := (&portalwire.Nodes{Total: 1, Enrs: [][]byte{mustRLP(pr.s.Node().Record())}}).MarshalSSZ()
					return append([]byte{portalwire.NODES}, b...)
				}
				pr.findReqs.Add(1)
				if pr.spec.Answer == "silent" {
					// the asker gives up after its 150 ms request time-out: count the query as in flight for less than
					// that, then stay silent beyond the time-out (never over-counts what the asker has outstanding)
					leave := enter(pr)
					time.Sleep(100 * time.Millisecond)
					leave()
					time.Sleep(300 * time.Millisecond)
					return nil
				}
				defer enter(pr)()
				atDist := func(n *enode.Node) bool { return ds[enode.LogDist(me, n.ID())] }
				var enrs [][]byte
				switch pr.spec.Answer {
				case "honest":
					enrs = enrsOf(pr, atDist)
				case "plus-self":
					enrs = append(enrsOf(pr, atDist), mustRLP(a.Node().Record()), mustRLP(pr.s.Node().Record()))
				case "dup":
					e := enrsOf(pr, atDist)
					enrs = append(append([][]byte{}, e...), e...)
				case "wrong-distance":
					enrs = enrsOf(pr, nil)
				case "garbage":
					enrs = [][]byte{{0xc0}, {0x01, 0x02}, {}}
				}
				if len(enrs) > 8 {
					enrs = enrs[:8]
				}
				b, err := (&portalwire.Nodes{Total: 1, Enrs: enrs}).MarshalSSZ()
				if err != nil {
					return nil
				}
				return append([]byte{portalwire.NODES}, b...)
			case portalwire.FINDCONTENT:
				pr.findReqs.Add(1)
				if pr.spec.Content == "silent" {
					leave := enter(pr)
					time.Sleep(100 * time.Millisecond)
					leave()
					time.Sleep(300 * time.Millisecond)
					return nil
				}
				defer enter(pr)()
				switch pr.spec.Content {
				case "raw", "raw-other":
					body := []byte(fmt.Sprintf("content-from-%x", me[:4]))
					if pr.spec.Content == "raw-other" {
						body = []byte{}
					}
					suppliedMu.Lock()
					supplied[string(body)] = true
					suppliedMu.Unlock()
					return append([]byte{portalwire.CONTENT, portalwire.ContentRawSelector}, body...)
				case "connid":
					return []byte{portalwire.CONTENT, portalwire.ContentConnIdSelector, 0x11, 0x22}
				case "garbage":
					return []byte{portalwire.CONTENT, 0x07, 1, 2, 3}
				case "empty":
					return nil
				}
				enrs := enrsOf(pr, nil)
				if len(enrs) > 8 {
					enrs = enrs[:8]
				}
				b, err := (&portalwire.Enrs{Enrs: enrs}).MarshalSSZ()
				if err != nil {
					return nil
				}
				return append([]byte{portalwire.CONTENT, portalwire.ContentEnrsSelector}, b...)
			}
			return nil
		})
	}
	seeded := map[enode.ID]bool{}
	for _, k := range p.Seeds {
		n := peers[k].s.Node()
		a.P.VerifTable().VerifAddFoundNode(n, true)
		seeded[n.ID()] = true
	}
	if len(p.Seeds) == 0 {
		c.Class("empty-table-start")
	}

	if p.Content {
		c.Class("content-lookup")
		got, _, err := a.P.ContentLookup(contentKeyB, contentID)
		if p.Slow {
			time.Sleep(700 * time.Millisecond) // replies that were still under way when the lookup ended arrive now
			c.NT("late-replies-after-lookup-ended")
		}
		for i, pr := range peers {
			if n := pr.findReqs.Load(); n > 1 {
				return fmt.Errorf("content lookup asked peer %d %d times", i, n)
			}
		}
		if pk := peak.Load(); pk > portalwire.VerifAlpha {
			return fmt.Errorf("content lookup had %d queries in flight, more than %d", pk, portalwire.VerifAlpha)
		}
		suppliedMu.Lock()
		defer suppliedMu.Unlock()
		if err != nil {
			if err != storage.ErrContentNotFound {
				return fmt.Errorf("content lookup returned an unexpected error: %v", err)
			}
			if len(supplied) > 0 {
				return fmt.Errorf("a queried peer supplied the content but the lookup reported not-found")
			}
			c.NT("content-not-found")
			return nil
		}
		if !supplied[string(got)] {
			return fmt.Errorf("content lookup returned %q which no queried peer supplied (%d suppliers)", got, len(supplied))
		}
		c.NT("content-found")
		return nil
	}

	c.Class("node-lookup")
	var target enode.ID
	binary.BigEndian.PutUint32(target[:], p.Target)
	binary.BigEndian.PutUint32(target[16:], p.Target*2654435761)
	if p.Target%5 == 0 && len(peers) > 0 {
		target = peers[int(p.Target)%len(peers)].s.Node().ID()
	}
	res := a.P.Lookup(target)
	queried := 0
	for i, pr := range peers {
		n := pr.findReqs.Load()
		if n > 1 {
			return fmt.Errorf("node lookup asked peer %d %d times", i, n)
		}
		queried += int(n)
	}
	if pk := peak.Load(); pk > portalwire.VerifAlpha {
		return fmt.Errorf("node lookup had %d queries in flight, more than %d", pk, portalwire.VerifAlpha)
	}
	if len(res) > portalwire.VerifBucketSize {
		return fmt.Errorf("lookup returned %d nodes", len(res))
	}
	seen := map[enode.ID]bool{}
	for i, n := range res {
		if n.ID() == self {
			return fmt.Errorf("lookup result contains the local node")
		}
		if seen[n.ID()] {
			return fmt.Errorf("lookup result lists %x twice", n.ID().Bytes()[:4])
		}
		seen[n.ID()] = true
		if _, ok := byID[n.ID()]; !ok {
			return fmt.Errorf("lookup result contains a node nobody supplied")
		}
		if i > 0 && enode.DistCmp(target, res[i-1].ID(), n.ID()) > 0 {
			return fmt.Errorf("lookup result not sorted by distance to the target at position %d", i)
		}
	}
	// every seed is seen; a peer that answered honestly and was asked has shown its known peers at the asked distances
	must := []enode.ID{}
	for id := range seeded {
		must = append(must, id)
	}
	sort.Slice(must, func(i, j int) bool { return enode.DistCmp(target, must[i], must[j]) < 0 })
	if len(res) < min(len(must), portalwire.VerifBucketSize) {
		return fmt.Errorf("lookup returned %d nodes although %d seeds were in the table", len(res), len(must))
	}
	for _, id := range must {
		if !seen[id] && len(res) > 0 && enode.DistCmp(target, id, res[len(res)-1].ID()) < 0 {
			return fmt.Errorf("seed %x is closer to the target than the last result but is missing", id[:4])
		}
	}
	if queried >= 4 {
		c.NT("node-lookup>=4-queries")
	}
	if queried > 0 {
		c.NT("node-lookup-queried")
	}
	return nil
}

func TestC10_Net(t *testing.T) { pbt.Run(t, "C10", "net", genC10Net, runC10Net) }

var _ = gen.Key

// TestC01_Lookups: replies of hostile, slow and silent peers to our own FINDNODES / FINDCONTENT requests during
// real lookups; a reply that arrives after the lookup has ended must not bring the node down.
func TestC01_Lookups(t *testing.T) {
	pbt.Run(t, "C01", "lookups", genC10Net, func(p c10Net, c *stats.Case) error { return runC10NetAs("C01", "lookups", p, c) })
}
