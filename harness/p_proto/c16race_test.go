package p_proto

// C16, "full queue" outcome under an interleaving: several gossip rounds run at the same time against an offer
// queue that has only a few places left (the limit of transfer slots is larger than the queue). Every slot that is
// taken belongs to an offer that sits in the queue afterwards: slots in use == real offers queued, after every
// burst; and once the queue has been emptied (as the workers would) and the permits returned, all slots are free.

import (
	"fmt"
	"sync"
	"testing"
	"time"

	"github.com/zen-eth/shisui/portalwire"
	"pgregory.net/rapid"
	"verifharness/pbt"
	"verifharness/pp"
	"verifharness/simnet"
	"verifharness/stats"
)

type c16Race struct {
	Places  []int // per burst: free places left in the queue before the burst
	Rounds  int   // concurrent gossip rounds per burst
	Targets int   // covered table nodes (each round offers to up to 8 of them)
}

func genC16Race(t *rapid.T) c16Race {
	p := c16Race{Rounds: rapid.SampledFrom([]int{2, 4, 8, 8, 16}).Draw(t, "rounds"), Targets: rapid.IntRange(3, 14).Draw(t, "targets")}
	for i, n := 0, rapid.IntRange(3, 10).Draw(t, "bursts"); i < n; i++ {
		p.Places = append(p.Places, rapid.SampledFrom([]int{0, 1, 2, 3, 7, 8, 9, 24, 60}).Draw(t, "places"))
	}
	return p
}

func runC16Race(p c16Race, c *stats.Case) error {
	const limit = 1500
	hub := simnet.NewHub()
	a, err := pp.NewLive(hub, pp.LiveOpts{KeyIdx: 95, Port: nextPort(), Versions: []byte{0, 1}, NoWorkers: true, MaxUtp: limit, RespTimeout: 20 * time.Second})
	if err != nil {
		return fmt.Errorf("harness: %v", err)
	}
	defer a.Stop()
	self := a.Node().ID()
	tab := a.P.VerifTable()
	for i := 0; i < p.Targets; i++ {
		n := specNode(self, i, tableNodeSpec{Dist: 256 - i%3, Fill: uint32(1000 + i), IPClass: "public"})
		tab.VerifAddFoundNode(n, true)
		a.P.VerifRadiusCacheSet(n.ID(), portalwire.MaxDistance)
	}
	capQ := a.P.VerifOfferQueueCap()
	if capQ >= limit {
		return fmt.Errorf("harness: queue capacity %d is not below the slot limit %d", capQ, limit)
	}
	filler := func() *portalwire.OfferRequestWithNode {
		return portalwire.VerifNewOfferRequestWithNode(a.Node(), &portalwire.OfferRequest{Kind: portalwire.TransientOfferRequestKind,
			Request: &portalwire.TransientOfferRequest{}}, &portalwire.NoPermit{})
	}
	drain := func() {
		for _, o := range a.P.VerifOfferQueueTake(2 * capQ) {
			o.VerifPermit().Release()
		}
	}
	defer drain()
	for bi, places := range p.Places {
		drain()
		if _, out := a.Utp.VerifFreeSlots(); out != limit {
			return fmt.Errorf("burst %d: the queue is empty and every permit was returned, but %d of %d outbound slots are free", bi, out, limit)
		}
		fillers := capQ - places
		for i := 0; i < fillers; i++ {
			if !a.P.VerifOfferQueuePut(filler()) {
				return fmt.Errorf("harness: queue full after %d fillers", i)
			}
		}
		start := make(chan struct{})
		var wg sync.WaitGroup
		for g := 0; g < p.Rounds; g++ {
			wg.Add(1)
			go func(g int) {
				defer wg.Done()
				<-start
				_, _ = a.P.Gossip(nil, [][]byte{append([]byte{0x00}, []byte(fmt.Sprintf("race-%d-%d", bi, g))...)}, [][]byte{[]byte("payload")})
			}(g)
		}
		close(start)
		wg.Wait()
		queuedReal := a.P.VerifOfferQueueLen() - fillers
		_, free := a.Utp.VerifFreeSlots()
		if limit-free != queuedReal {
			return fmt.Errorf("burst %d (%d gossip rounds at once, %d places left in the queue of %d): %d outbound slots are in use but %d offers were queued", bi, p.Rounds, places, capQ, limit-free, queuedReal)
		}
		wanted := p.Rounds * min(8, p.Targets)
		if wanted > places {
			c.NT("gossip-rounds-competed-for-the-last-places")
		}
		if queuedReal == places && places > 0 {
			c.Class("queue-filled-to-the-last-place")
		}
	}
	return nil
}

func TestC16_GossipQueueRace(t *testing.T) { pbt.Run(t, "C16", "queuerace", genC16Race, runC16Race) }
