package p_proto

// C09, last clause, with this code base on BOTH ends: "the items handed to validation are exactly the offered
// contents of the accepted keys paired with those keys in order" must also hold while the offering node has
// several transfers under way. One real instance offers 2..8 batches at the same time (different contents,
// different sizes) to 1..3 real receivers; every receiver must be handed, per offer addressed to it, exactly
// that offer's keys and contents - nothing mixed up between transfers that overlap in time on the sender.

import (
	"bytes"
	"fmt"
	"sync"
	"testing"
	"time"

	"github.com/zen-eth/shisui/portalwire"
	"pgregory.net/rapid"
	"verifharness/pbt"
	"verifharness/pp"
	"verifharness/simnet"
	"verifharness/stats"
)

type concOffer struct {
	To    int   // receiver index
	Items []int // content sizes
}

type c09Conc struct {
	VA, VB    []byte
	Receivers int
	Offers    []concOffer
	Stagger   int // microseconds between the starts of two offers
}

func genC09Conc(t *rapid.T) c09Conc {
	p := c09Conc{VA: rapid.SampledFrom([][]byte{{0}, {1}, {0, 1}}).Draw(t, "va"), Receivers: rapid.IntRange(1, 3).Draw(t, "receivers"),
		Stagger: rapid.SampledFrom([]int{0, 0, 50, 500, 3000}).Draw(t, "stagger")}
	// receivers share a version with the sender
	if p.VA[0] == 1 && len(p.VA) == 1 {
		p.VB = rapid.SampledFrom([][]byte{{1}, {0, 1}}).Draw(t, "vb")
	} else if len(p.VA) == 1 {
		p.VB = rapid.SampledFrom([][]byte{{0}, {0, 1}}).Draw(t, "vb")
	} else {
		p.VB = rapid.SampledFrom([][]byte{{0}, {1}, {0, 1}}).Draw(t, "vb")
	}
	n := rapid.IntRange(2, 8).Draw(t, "noffers")
	for i := 0; i < n; i++ {
		o := concOffer{To: rapid.IntRange(0, p.Receivers-1).Draw(t, "to")}
		for k, m := 0, rapid.IntRange(1, 4).Draw(t, "nitems"); k < m; k++ {
			o.Items = append(o.Items, rapid.SampledFrom([]int{0, 1, 40, 40, 900, 900, 5000, 30000}).Draw(t, "ilen"))
		}
		p.Offers = append(p.Offers, o)
	}
	return p
}

func runC09Conc(p c09Conc, c *stats.Case) error {
	hub := simnet.NewHub()
	a, err := pp.NewLive(hub, pp.LiveOpts{KeyIdx: 75, Port: nextPort(), Versions: p.VA, UtpFast: true})
	if err != nil {
		return fmt.Errorf("harness: %v", err)
	}
	defer a.Stop()
	recv := make([]*pp.Live, p.Receivers)
	for i := range recv {
		r, err := pp.NewLive(hub, pp.LiveOpts{KeyIdx: 76 + i, Port: nextPort(), Versions: p.VB, UtpFast: true, QueueCap: 64})
		if err != nil {
			return fmt.Errorf("harness: %v", err)
		}
		defer r.Stop()
		recv[i] = r
		if _, err := a.P.VerifPing(r.Node()); err != nil { // session first (uTP packets need one)
			if pp.IsTimeout(err) {
				stats.For("C09").Count("inconclusive:ping-timeout", 1)
				return nil
			}
			return fmt.Errorf("harness: ping: %v", err)
		}
	}
	type sent struct {
		keys, contents [][]byte
	}
	offers := make([]sent, len(p.Offers))
	for i, o := range p.Offers {
		for k, l := range o.Items {
			offers[i].keys = append(offers[i].keys, append([]byte{0x00}, []byte(fmt.Sprintf("c09conc-%d-%d", i, k))...))
			b := fillBytes(l, byte(17*i+k+1))
			if l >= 4 { // tag the content with its offer and position
				b[0], b[1], b[2], b[3] = 0xC0, byte(i), byte(k), 0x9C
			}
			offers[i].contents = append(offers[i].contents, b)
		}
	}
	var wg sync.WaitGroup
	errs := make([]error, len(p.Offers))
	for i, o := range p.Offers {
		permit, ok := a.Utp.GetOutboundPermit()
		if !ok {
			return fmt.Errorf("harness: no outbound permit")
		}
		entries := make([]*portalwire.ContentEntry, len(offers[i].keys))
		for k := range entries {
			entries[k] = &portalwire.ContentEntry{ContentKey: offers[i].keys[k], Content: offers[i].contents[k]}
		}
		req := &portalwire.OfferRequest{Kind: portalwire.TransientOfferRequestKind, Request: &portalwire.TransientOfferRequest{Contents: entries}}
		wg.Add(1)
		go func(i int, to *pp.Live) {
			defer wg.Done()
			_, errs[i] = a.P.VerifOffer(to.Node(), req, permit)
		}(i, recv[o.To])
		if p.Stagger > 0 {
			time.Sleep(time.Duration(p.Stagger) * time.Microsecond)
		}
	}
	done := make(chan struct{})
	go func() { wg.Wait(); close(done) }()
	select {
	case <-done:
	case <-time.After(60 * time.Second):
		stats.For("C09").Count("inconclusive:concurrent-offers-did-not-return", 1)
		return nil
	}
	expect := make([]map[int]bool, p.Receivers) // offers each receiver must be handed
	for i, o := range p.Offers {
		if errs[i] != nil {
			// an offer that fails as a whole (time-out, reset under load) hands nothing to validation: not what this check judges
			if pp.IsTimeout(errs[i]) {
				stats.For("C09").Count("inconclusive:offer-timeout", 1)
			} else {
				stats.For("C09").Count("inconclusive:offer-error", 1)
			}
			_ = o
			return nil
		}
		if expect[o.To] == nil {
			expect[o.To] = map[int]bool{}
		}
		expect[o.To][i] = true
	}
	// every receiver: one element per offer, each equal to one offer as a whole
	for ri, r := range recv {
		for len(expect[ri]) > 0 {
			select {
			case el := <-r.Queue:
				match := -1
				for i := range expect[ri] {
					if len(el.ContentKeys) > 0 && bytes.Equal(el.ContentKeys[0], offers[i].keys[0]) {
						match = i
					}
				}
				if match < 0 {
					return fmt.Errorf("receiver %d was handed %d items under first key %q, which is the first key of no outstanding offer", ri, len(el.Contents), keyOf(el))
				}
				o := offers[match]
				if len(el.ContentKeys) != len(o.keys) || len(el.Contents) != len(o.contents) {
					return fmt.Errorf("receiver %d, offer %d: %d keys / %d items handed to validation, %d offered", ri, match, len(el.ContentKeys), len(el.Contents), len(o.keys))
				}
				for k := range o.keys {
					if !bytes.Equal(el.ContentKeys[k], o.keys[k]) || !bytes.Equal(el.Contents[k], o.contents[k]) {
						return fmt.Errorf("receiver %d, offer %d (one of %d concurrent offers of the sender), item %d: handed to validation %d bytes starting %x, offered %d bytes starting %x",
							ri, match, len(p.Offers), k, len(el.Contents[k]), clip(el.Contents[k]), len(o.contents[k]), clip(o.contents[k]))
					}
				}
				if el.Node != a.Node().ID() {
					return fmt.Errorf("receiver %d: element attributed to another source", ri)
				}
				delete(expect[ri], match)
			case <-time.After(20 * time.Second):
				stats.For("C09").Count("inconclusive:transfer-did-not-arrive", 1)
				return nil
			}
		}
		select {
		case el := <-r.Queue:
			return fmt.Errorf("receiver %d was handed a surplus element of %d items", ri, len(el.Contents))
		case <-time.After(30 * time.Millisecond):
		}
	}
	c.NT(fmt.Sprintf("concurrent-offers:%d", min(len(p.Offers), 4)))
	distinctSizes := map[int]bool{}
	for _, o := range p.Offers {
		t := 0
		for _, l := range o.Items {
			t += l
		}
		distinctSizes[t] = true
	}
	if len(distinctSizes) > 1 {
		c.Class("concurrent-offers-of-different-sizes")
	}
	return nil
}

func keyOf(el *portalwire.ContentElement) []byte {
	if len(el.ContentKeys) == 0 {
		return nil
	}
	return el.ContentKeys[0]
}

func TestC09_ConcurrentOffers(t *testing.T) {
	pbt.Run(t, "C09", "concurrent", genC09Conc, runC09Conc)
}
