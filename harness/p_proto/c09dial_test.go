package p_proto

// C09 seen from the offering side (this code base offers, the peer's ACCEPT is scripted): whatever connection id
// the ACCEPT announces - 0x0000 and 0xffff are ids like any other - the offerer opens the stream exactly when at
// least one of its keys was accepted, and then sends exactly the accepted items. Without that, "accepted content
// arrives intact under its key" fails for one id in 65536 while the receiver holds its slot for nothing.
// The peer is a bare discv5 endpoint: it counts the uTP packets (SYN and retransmissions) that reach it.

import (
	"fmt"
	"net"
	"sync/atomic"
	"testing"
	"time"

	"github.com/ethereum/go-ethereum/p2p/enode"
	"github.com/zen-eth/shisui/portalwire"
	"pgregory.net/rapid"
	"verifharness/pbt"
	"verifharness/pp"
	"verifharness/simnet"
	"verifharness/stats"
)

type c09Dial struct {
	PeerVersions []byte
	Cid          uint16
	Verdicts     []bool // one per offered key
}

func genC09Dial(t *rapid.T) c09Dial {
	n := rapid.SampledFrom([]int{1, 1, 2, 5, 64}).Draw(t, "nkeys")
	v := make([]bool, n)
	mode := rapid.SampledFrom([]string{"none", "one", "one", "some", "all"}).Draw(t, "mode")
	for i := range v {
		switch mode {
		case "all":
			v[i] = true
		case "some":
			v[i] = rapid.Bool().Draw(t, "v")
		}
	}
	if mode == "one" {
		v[rapid.IntRange(0, n-1).Draw(t, "which")] = true
	}
	return c09Dial{PeerVersions: rapid.SampledFrom([][]byte{{0}, {1}, {0, 1}}).Draw(t, "pv"),
		Cid:      rapid.SampledFrom([]uint16{0, 0, 1, 0xffff, 0x00ff, 0xff00, 0x1234}).Draw(t, "cid"),
		Verdicts: v}
}

func runC09Dial(p c09Dial, c *stats.Case) error {
	hub := simnet.NewHub()
	a, err := pp.NewLive(hub, pp.LiveOpts{KeyIdx: 81, Port: nextPort(), Versions: []byte{0, 1}, UtpFast: true})
	if err != nil {
		return fmt.Errorf("harness: %v", err)
	}
	defer a.Stop()
	s, err := pp.NewScripted(hub, 82, net.IP{127, 0, 0, 1}, nextPort(), p.PeerVersions, 300*time.Millisecond)
	if err != nil {
		return fmt.Errorf("harness: %v", err)
	}
	defer s.Stop()
	ver, _ := maxCommon([]byte{0, 1}, p.PeerVersions)
	accepted := 0
	for _, ok := range p.Verdicts {
		if ok {
			accepted++
		}
	}
	var utpPackets atomic.Int64
	s.Handle(portalwire.Utp, func(id enode.ID, addr *net.UDPAddr, msg []byte) []byte {
		utpPackets.Add(1)
		return nil
	})
	s.Handle(portalwire.History, func(id enode.ID, addr *net.UDPAddr, msg []byte) []byte {
		if len(msg) == 0 {
			return nil
		}
		switch msg[0] {
		case portalwire.PING:
			pong, _ := (&portalwire.Pong{EnrSeq: 1, PayloadType: 0, Payload: buildPayload(0, make([]byte, 32), false)}).MarshalSSZ()
			return append([]byte{portalwire.PONG}, pong...)
		case portalwire.OFFER:
			cid := []byte{byte(p.Cid >> 8), byte(p.Cid)}
			var body []byte
			if ver == 1 {
				codes := make([]byte, len(p.Verdicts))
				for i, ok := range p.Verdicts {
					if !ok {
						codes[i] = byte(portalwire.AlreadyStored)
					}
				}
				body, _ = (&portalwire.AcceptV1{ConnectionId: cid, ContentKeys: codes}).MarshalSSZ()
			} else {
				n := len(p.Verdicts)
				bl := make([]byte, n/8+1)
				for i, ok := range p.Verdicts {
					if ok {
						bl[i/8] |= 1 << uint(i%8)
					}
				}
				bl[n/8] |= 1 << uint(n%8)
				body, _ = (&portalwire.Accept{ConnectionId: cid, ContentKeys: bl}).MarshalSSZ()
			}
			return append([]byte{portalwire.ACCEPT}, body...)
		}
		return nil
	})
	if _, err := a.P.VerifPing(s.Node()); err != nil {
		if pp.IsTimeout(err) {
			stats.For("C09").Count("inconclusive:ping-timeout", 1)
			return nil
		}
		return fmt.Errorf("harness: ping: %v", err)
	}
	entries := make([]*portalwire.ContentEntry, len(p.Verdicts))
	for k := range entries {
		entries[k] = &portalwire.ContentEntry{ContentKey: append([]byte{0x00}, []byte(fmt.Sprintf("c09dial-%d", k))...), Content: fillBytes(40+k, byte(k))}
	}
	permit, ok := a.Utp.GetOutboundPermit()
	if !ok {
		return fmt.Errorf("harness: no outbound permit")
	}
	req := &portalwire.OfferRequest{Kind: portalwire.TransientOfferRequestKind, Request: &portalwire.TransientOfferRequest{Contents: entries}}
	done := make(chan error, 1)
	go func() {
		_, err := a.P.VerifOffer(s.Node(), req, permit)
		done <- err
	}()
	c.Class(fmt.Sprintf("dial:version=%d", ver))
	if accepted == 0 {
		select {
		case <-done:
		case <-time.After(20 * time.Second):
			stats.For("C09").Count("inconclusive:offer-did-not-return", 1)
			return nil
		}
		time.Sleep(100 * time.Millisecond)
		if n := utpPackets.Load(); n > 0 {
			return fmt.Errorf("the peer accepted none of the %d keys (connection id %#04x) but the offerer sent %d uTP packets", len(p.Verdicts), p.Cid, n)
		}
		c.NT("dial:nothing-accepted-nothing-sent")
		return nil
	}
	// at least one key accepted: the stream has to be opened towards the announced id
	deadline := time.Now().Add(5 * time.Second)
	for utpPackets.Load() == 0 && time.Now().Before(deadline) {
		time.Sleep(5 * time.Millisecond)
	}
	if utpPackets.Load() == 0 {
		select {
		case err := <-done:
			if err != nil && pp.IsTimeout(err) {
				stats.For("C09").Count("inconclusive:offer-timeout", 1)
				return nil
			}
			return fmt.Errorf("the peer accepted %d of %d keys and announced connection id %#04x, but the offerer never tried to open the stream (offer returned: %v)", accepted, len(p.Verdicts), p.Cid, err)
		default:
		}
		return fmt.Errorf("the peer accepted %d of %d keys and announced connection id %#04x, but no uTP packet reached it within five seconds", accepted, len(p.Verdicts), p.Cid)
	}
	c.NT(fmt.Sprintf("dial:stream-opened:cid=%#04x", p.Cid))
	return nil
}

func TestC09_OfferSideDial(t *testing.T) { pbt.Run(t, "C09", "dial", genC09Dial, runC09Dial) }
