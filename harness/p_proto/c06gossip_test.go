package p_proto

// C06, last clause, third call site: "the in-range test used ... to pick gossip targets applies this same
// rule". One to six table nodes report a radius chosen relative to their own XOR distance from the content
// (just below, just above, the byte-reversed distance, powers of two ...); with at most eight candidates
// gossip offers to every covered one, so the chosen set must be exactly {peer : radius > XOR distance}.
// (Who is chosen among more than eight candidates, the source and the unknown radii belong to C20.)

import (
	"fmt"
	"math/big"
	"testing"
	"time"

	"github.com/ethereum/go-ethereum/p2p/enode"
	"github.com/zen-eth/shisui/portalwire"
	"pgregory.net/rapid"
	"verifharness/pbt"
	"verifharness/pp"
	"verifharness/simnet"
	"verifharness/stats"
)

type c06GossipPeer struct {
	Dist   int // log-distance of the peer from the local node
	Fill   uint32
	RClass string
	RParam int
}

type c06Gossip struct {
	Network string
	KeySeed uint32
	Peers   []c06GossipPeer
}

func genC06Gossip(t *rapid.T) c06Gossip {
	p := c06Gossip{Network: rapid.SampledFrom([]string{"history", "state", "beacon"}).Draw(t, "net"), KeySeed: rapid.Uint32().Draw(t, "key")}
	n := rapid.IntRange(1, 6).Draw(t, "npeers")
	for i := 0; i < n; i++ {
		p.Peers = append(p.Peers, c06GossipPeer{Dist: rapid.IntRange(240, 256).Draw(t, "dist"), Fill: rapid.Uint32().Draw(t, "fill"),
			RClass: rapid.SampledFrom([]string{"dist-1", "dist+1", "dist+1", "small", "pow2", "max", "between-256-and-dist", "half", "reversed-dist", "reversed-dist"}).Draw(t, "rclass"),
			RParam: rapid.IntRange(0, 255).Draw(t, "rparam")})
	}
	return p
}

func runC06Gossip(p c06Gossip, c *stats.Case) error {
	proto, typ := portalwire.History, "history"
	switch p.Network {
	case "state":
		proto, typ = portalwire.State, "basic"
	case "beacon":
		proto, typ = portalwire.Beacon, "basic"
	}
	hub := simnet.NewHub()
	l, err := pp.NewLive(hub, pp.LiveOpts{KeyIdx: 62, Port: nextPort(), Versions: []byte{0, 1}, NoWorkers: true, RespTimeout: 20 * time.Second, Proto: proto})
	if err != nil {
		return fmt.Errorf("harness: %v", err)
	}
	defer func() {
		for _, o := range l.P.VerifOfferQueueTake(2000) {
			o.VerifPermit().Release()
		}
		l.Stop()
	}()
	self := l.Node().ID()
	key := []byte{0x00, byte(p.KeySeed), byte(p.KeySeed >> 8), byte(p.KeySeed >> 16), byte(p.KeySeed >> 24), 0xC6}
	contentID := l.P.ToContentId(key)
	tab := l.P.VerifTable()
	ptype, _ := supportedType(p.Network, typ)
	want := map[enode.ID]bool{}
	edge := map[enode.ID]bool{}
	seen := map[enode.ID]bool{}
	for i, s := range p.Peers {
		n := specNode(self, i, tableNodeSpec{Dist: s.Dist, Fill: s.Fill, IPClass: "public"})
		id := n.ID()
		if seen[id] {
			continue
		}
		seen[id] = true
		if !tab.VerifAddFoundNode(n, true) {
			continue
		}
		x := make([]byte, 32)
		for k := range x {
			x[k] = id[k] ^ contentID[k]
		}
		dist := xorDist(id[:], contentID)
		r := radiusFor(s.RClass, s.RParam, dist, x)
		msg, _ := (&portalwire.Pong{EnrSeq: 1, PayloadType: ptype, Payload: buildPayload(ptype, leBytes(r), false)}).MarshalSSZ()
		if _, _, err := l.P.VerifProcessPong(n, append([]byte{portalwire.PONG}, msg...)); err != nil {
			return fmt.Errorf("harness: pong of peer %d not processed: %v", i, err)
		}
		switch r.Cmp(dist) {
		case 1:
			want[id] = true
		case 0:
			edge[id] = true
		}
		// classes: does the byte order of the radius matter for this peer?
		rev := new(big.Int).SetBytes(leBytes(r)) // the payload bytes read in the other order
		if (rev.Cmp(dist) > 0) != (r.Cmp(dist) > 0) {
			c.NT("gossip-site:byte-order-of-radius-matters")
		}
		if enode.LogDist(id, enode.ID(contentID)) < r.BitLen() && r.Cmp(dist) < 0 {
			c.NT("gossip-site:log-distance-below-radius-bits-but-not-covered")
		}
		c.Class("gossip-site:rclass:" + s.RClass)
	}
	got, gerr := l.P.GossipAndReturnPeers(nil, [][]byte{key}, [][]byte{[]byte("content")})
	if gerr != nil {
		return fmt.Errorf("gossip returned an error: %v", gerr)
	}
	chosen := map[enode.ID]bool{}
	for _, n := range got {
		chosen[n.ID()] = true
	}
	for id := range seen {
		if edge[id] {
			continue // distance == radius is judged by the boundary check against the store
		}
		if chosen[id] != want[id] {
			return fmt.Errorf("gossip target choice: peer %x at XOR distance %s from the content, reported radius covers it: %v, chosen: %v (%d candidates, so every covered one must be chosen)",
				id[:4], xorDist(id[:], contentID).Text(16), want[id], chosen[id], len(seen))
		}
	}
	if len(want) > 0 {
		c.NT("gossip-site:covered-peer-chosen")
	}
	if len(want) < len(seen) {
		c.NT("gossip-site:uncovered-peer-skipped")
	}
	return nil
}

func TestC06_GossipSite(t *testing.T) { pbt.Run(t, "C06", "gossipsite", genC06Gossip, runC06Gossip) }
