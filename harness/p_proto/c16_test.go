package p_proto

import (
	"context"
	"fmt"
	"net"
	"runtime"
	"strings"
	"sync"
	"testing"
	"time"

	"github.com/ethereum/go-ethereum/p2p/enode"
	"github.com/zen-eth/shisui/portalwire"
	utp "github.com/zen-eth/utp-go"
	"pgregory.net/rapid"
	"verifharness/gen"
	"verifharness/pbt"
	"verifharness/pp"
	"verifharness/simnet"
	"verifharness/stats"
)

// ---------------------------------------------------------------------------
// C16 outbound: every slot taken for an offer we send comes back

type outOffer struct {
	Target string // "fake" (no such endpoint: time-out), "script", "live"
	Reply  string // for "script": "empty", "wrongcode", "undecodable", "wrongcount", "declined", "accept-nodial", "silent"
	NKeys  int
	Bad    string // "", "toomany" (65 keys), "hugekey" (2049-byte key): the OFFER cannot be encoded; "oversize": it encodes (<= 64 keys of <= 2048 bytes) but is larger than a discv5 packet
}

type c16Out struct {
	Limit     int // -1 => 0
	Offers    []outOffer
	Serial    bool // issue the offers one after another instead of concurrently
	StopAfter int  // >=0: Stop() the instance after that many offers were issued
	Gossip    int  // extra gossip rounds (each takes up to 8 slots and queues offers)
	NoWorkers bool // queued offers are never picked up (gossip into a filling queue)
}

func genC16Out(t *rapid.T) c16Out {
	n := rapid.IntRange(1, 24).Draw(t, "n")
	offers := make([]outOffer, n)
	for i := range offers {
		o := outOffer{Target: rapid.SampledFrom([]string{"fake", "script", "script", "script", "live", "live"}).Draw(t, "target"),
			Reply: rapid.SampledFrom([]string{"empty", "wrongcode", "undecodable", "wrongcount", "declined", "accept-nodial", "silent"}).Draw(t, "reply"),
			NKeys: rapid.SampledFrom([]int{1, 1, 2, 5, 64}).Draw(t, "nkeys")}
		if rapid.IntRange(0, 9).Draw(t, "bad") == 0 {
			o.Bad = rapid.SampledFrom([]string{"toomany", "hugekey", "oversize", "oversize"}).Draw(t, "badkind")
		}
		offers[i] = o
	}
	stop := -1
	if rapid.IntRange(0, 3).Draw(t, "stop") == 0 {
		stop = rapid.IntRange(0, n).Draw(t, "stopAfter")
	}
	return c16Out{Limit: rapid.SampledFrom([]int{-1, 1, 2, 50, 50}).Draw(t, "limit"), Offers: offers, Serial: rapid.Bool().Draw(t, "serial"),
		StopAfter: stop, Gossip: rapid.SampledFrom([]int{0, 0, 1, 3, 10}).Draw(t, "gossip"), NoWorkers: rapid.IntRange(0, 3).Draw(t, "noworkers") == 0}
}

func scriptedReply(kind string, nkeys int) []byte {
	switch kind {
	case "empty":
		return nil
	case "wrongcode":
		return []byte{portalwire.PONG, 0, 0, 0}
	case "undecodable":
		return []byte{portalwire.ACCEPT, 0xff}
	case "wrongcount":
		a := &portalwire.AcceptV1{ConnectionId: []byte{0x12, 0x34}, ContentKeys: make([]byte, nkeys+1)}
		b, _ := a.MarshalSSZ()
		return append([]byte{portalwire.ACCEPT}, b...)
	case "declined":
		codes := make([]byte, nkeys)
		for i := range codes {
			codes[i] = byte(portalwire.AlreadyStored)
		}
		a := &portalwire.AcceptV1{ConnectionId: []byte{0, 0}, ContentKeys: codes}
		b, _ := a.MarshalSSZ()
		return append([]byte{portalwire.ACCEPT}, b...)
	case "accept-nodial":
		a := &portalwire.AcceptV1{ConnectionId: []byte{0x43, 0x21}, ContentKeys: make([]byte, nkeys)} // all Accepted, nobody listens for uTP
		b, _ := a.MarshalSSZ()
		return append([]byte{portalwire.ACCEPT}, b...)
	}
	return nil
}

func waitFreeOutbound(l *pp.Live, want int, d time.Duration) int {
	deadline := time.Now().Add(d)
	for {
		_, out := l.Utp.VerifFreeSlots()
		if out == want || time.Now().After(deadline) {
			return out
		}
		time.Sleep(5 * time.Millisecond)
	}
}

// stuckDials counts goroutines of processOffer that are blocked inside the uTP library's
// ConnectWithCid, which waits on a channel without watching its context (known finding D20).
func stuckDials() int {
	buf := make([]byte, 1<<22)
	n := runtime.Stack(buf, true)
	cnt := 0
	for _, g := range strings.Split(string(buf[:n]), "\n\n") {
		if strings.Contains(g, "utp-go.(*UtpSocket).ConnectWithCid") && strings.Contains(g, "PortalProtocol).processOffer") {
			cnt++
		}
	}
	return cnt
}

func runC16Out(p c16Out, c *stats.Case) error {
	limit := p.Limit
	if limit < 0 {
		limit = 0
	}
	stuckBefore := stuckDials()
	hub := simnet.NewHub()
	a, err := pp.NewLive(hub, pp.LiveOpts{KeyIdx: 81, Port: nextPort(), Versions: []byte{1}, MaxUtp: p.Limit, UtpFast: true, RespTimeout: 150 * time.Millisecond, NoWorkers: p.NoWorkers})
	if err != nil {
		return fmt.Errorf("harness: %v", err)
	}
	defer a.Stop()
	// scripted peer: the reply kind travels in the first content key
	s, err := pp.NewScripted(hub, 82, net.IP{127, 0, 0, 1}, nextPort(), []byte{1}, time.Second)
	if err != nil {
		return fmt.Errorf("harness: %v", err)
	}
	defer s.Stop()
	s.Handle(portalwire.History, func(id enode.ID, addr *net.UDPAddr, msg []byte) []byte {
		if len(msg) == 0 || msg[0] != portalwire.OFFER {
			return nil
		}
		var off portalwire.Offer
		if off.UnmarshalSSZ(msg[1:]) != nil || len(off.ContentKeys) == 0 {
			return nil
		}
		kind := string(off.ContentKeys[0][1:])
		if kind == "silent" {
			time.Sleep(400 * time.Millisecond) // longer than the asker's request time-out
			return nil
		}
		return scriptedReply(kind, len(off.ContentKeys))
	})
	b, err := pp.NewLive(hub, pp.LiveOpts{KeyIdx: 83, Port: nextPort(), Versions: []byte{1}, UtpFast: true})
	if err != nil {
		return fmt.Errorf("harness: %v", err)
	}
	defer b.Stop()
	done := make(chan struct{})
	defer close(done)
	go func() { // the receiving side drains its validation queue
		for {
			select {
			case <-b.Queue:
			case <-done:
				return
			}
		}
	}()
	fake := gen.SignedNode(gen.NodeOpts{KeyIdx: 84, Seq: 1, IP: net.IP{127, 0, 0, 1}, UDP: nextPort(), Versions: []byte{1}})
	if _, err := a.P.VerifPing(b.Node()); err != nil {
		return fmt.Errorf("harness: ping: %v", err)
	}

	var wg sync.WaitGroup
	var mu sync.Mutex
	sent, refused := 0, 0
	issue := func(i int, o outOffer) {
		defer wg.Done()
		permit, ok := a.Utp.GetOutboundPermit()
		if !ok {
			mu.Lock()
			refused++
			mu.Unlock()
			return
		}
		mu.Lock()
		sent++
		mu.Unlock()
		var target *enode.Node
		switch o.Target {
		case "fake":
			target = fake
		case "script":
			target = s.Node()
		default:
			target = b.Node()
		}
		n := o.NKeys
		if o.Bad == "toomany" {
			n = 65
		}
		if o.Bad == "oversize" && n < 40 {
			n = 40
		}
		entries := make([]*portalwire.ContentEntry, n)
		for k := range entries {
			key := append([]byte{0x00}, []byte(o.Reply)...)
			if k > 0 || o.Target != "script" {
				key = append([]byte{0x00}, []byte(fmt.Sprintf("c16-%d-%d", i, k))...)
			}
			if o.Bad == "hugekey" && k == n-1 {
				key = make([]byte, 2049)
			}
			if o.Bad == "oversize" {
				key = append(key, make([]byte, 40)...)
			}
			entries[k] = &portalwire.ContentEntry{ContentKey: key, Content: fillBytes(30+k, byte(i))}
		}
		req := &portalwire.OfferRequest{Kind: portalwire.TransientOfferRequestKind, Request: &portalwire.TransientOfferRequest{Contents: entries}}
		_, _ = a.P.VerifOffer(target, req, permit)
	}
	unhappy := false
	for i, o := range p.Offers {
		if p.StopAfter == i {
			a.Stop()
			c.NT("stop-mid-way")
		}
		if o.Target != "live" || o.Bad != "" {
			unhappy = true
		}
		wg.Add(1)
		if p.Serial {
			issue(i, o)
		} else {
			go issue(i, o)
		}
	}
	// gossip rounds: the instance's own way of taking slots and queueing offers
	stopped := p.StopAfter >= 0 && p.StopAfter < len(p.Offers)
	if p.Gossip > 0 && !stopped { // no real caller gossips through an instance it has already stopped
		a.P.VerifTable().VerifAddFoundNode(s.Node(), true)
		a.P.VerifTable().VerifAddFoundNode(b.Node(), true)
		a.P.VerifRadiusCacheSet(s.Node().ID(), portalwire.MaxDistance)
		a.P.VerifRadiusCacheSet(b.Node().ID(), portalwire.MaxDistance)
		for g := 0; g < p.Gossip; g++ {
			_, _ = a.P.Gossip(nil, [][]byte{append([]byte{0x00}, []byte(fmt.Sprintf("declined-g%d", g))...)}, [][]byte{[]byte("gossip payload")})
		}
		c.Class("gossip-rounds")
	}
	wg.Wait()
	if p.StopAfter == len(p.Offers) {
		a.Stop()
		c.NT("stop-at-end")
	}
	if unhappy {
		c.NT("unhappy-path")
	}
	if refused > 0 {
		c.NT("limit-reached")
	}
	if p.NoWorkers {
		// nobody will ever send the queued offers: what a shutdown or an idle period must give back
		if p.StopAfter < 0 {
			// without a stop the queued offers legitimately keep their slots; take them out as the workers would
			for _, q := range a.P.VerifOfferQueueTake(5000) {
				_, _ = a.P.VerifOffer(q.Node, q.Request, q.VerifPermit())
			}
		}
		c.Class("no-workers")
	}
	// quiescence: every dial / write attempt ends within seconds with the shortened uTP timers
	if out := waitFreeOutbound(a, limit, 20*time.Second); out != limit {
		_, now := a.Utp.VerifFreeSlots()
		if p.StopAfter >= 0 && pbt.KnownOpen("D20-dial-ignores-shutdown") {
			// known finding D20: a dial that was in progress at Stop() never returns (the library call ignores its
			// cancelled context once the socket is closed), so exactly those transfers keep their slot
			if stuck := stuckDials() - stuckBefore; stuck > 0 && stuck == limit-now {
				pbt.HitKnown("C16", "D20-dial-ignores-shutdown")
				c.NT("stop-during-dial")
				return nil
			}
		}
		return fmt.Errorf("after all %d offers (%d refused for lack of a slot) and %d gossip rounds ended, %d of %d outbound slots are free (stop after %d, workers %v, queue %d)",
			sent, refused, p.Gossip, now, limit, p.StopAfter, !p.NoWorkers, a.P.VerifOfferQueueLen())
	}
	if in, _ := a.Utp.VerifFreeSlots(); in != limit {
		return fmt.Errorf("inbound slots of the offering side changed: %d of %d free", in, limit)
	}
	return nil
}

func TestC16_Outbound(t *testing.T) { pbt.Run(t, "C16", "outbound", genC16Out, runC16Out) }

// ---------------------------------------------------------------------------
// C16 inbound: every slot taken for an offer we accept comes back, never more than the limit at once

type inOffer struct {
	NKeys  int
	Stream string // "valid", "fewer", "garbage", "nodial", "dial-silent"
}

type c16In struct {
	Limit    int
	Offers   []inOffer
	QueueCap int
	Finish   string // "stop": Stop() the instance, "wait": let the 15 s accept time-outs run
	Second   int    // offers of a second wave, issued while the granted transfers of the first are connected and have not sent their data yet
}

func genC16In(t *rapid.T) c16In {
	n := rapid.IntRange(1, 12).Draw(t, "n")
	offers := make([]inOffer, n)
	for i := range offers {
		offers[i] = inOffer{NKeys: rapid.SampledFrom([]int{1, 2, 8}).Draw(t, "nkeys"),
			Stream: rapid.SampledFrom([]string{"valid", "valid", "fewer", "garbage", "nodial", "nodial", "dial-silent"}).Draw(t, "stream")}
	}
	finish := rapid.SampledFrom([]string{"stop", "stop", "stop", "stop", "wait"}).Draw(t, "finish")
	if finish == "wait" {
		// a connection that was opened and closed without data keeps the receiver reading until the 60 s read
		// time-out; that outcome is only used where the run ends with Stop()
		for i := range offers {
			if offers[i].Stream == "dial-silent" {
				offers[i].Stream = "nodial"
			}
		}
	}
	return c16In{Limit: rapid.SampledFrom([]int{-1, 1, 2, 3, 50}).Draw(t, "limit"), Offers: offers,
		QueueCap: rapid.SampledFrom([]int{1, 50}).Draw(t, "qcap"), Finish: finish, Second: rapid.SampledFrom([]int{0, 1, 3, 6}).Draw(t, "second")}
}

func runC16In(p c16In, c *stats.Case) error {
	limit := p.Limit
	if limit < 0 {
		limit = 0
	}
	hub := simnet.NewHub()
	b, err := pp.NewLive(hub, pp.LiveOpts{KeyIdx: 91, Port: nextPort(), Versions: []byte{1}, MaxUtp: p.Limit, QueueCap: p.QueueCap, UtpFast: true, RespTimeout: 20 * time.Second})
	if err != nil {
		return fmt.Errorf("harness: %v", err)
	}
	defer b.Stop()
	a, err := pp.NewLive(hub, pp.LiveOpts{KeyIdx: 92, Port: nextPort(), Versions: []byte{1}, UtpFast: true})
	if err != nil {
		return fmt.Errorf("harness: %v", err)
	}
	defer a.Stop()
	if _, err := a.P.VerifPing(b.Node()); err != nil {
		return fmt.Errorf("harness: ping: %v", err)
	}
	addrA := &net.UDPAddr{IP: net.IP{127, 0, 0, 1}, Port: a.Opts.Port}

	type granted struct {
		connID   uint16
		contents [][]byte
		stream   string
	}
	var mu sync.Mutex
	var grants []granted
	var wg sync.WaitGroup
	var firstErr error
	for i, o := range p.Offers {
		wg.Add(1)
		go func(i int, o inOffer) {
			defer wg.Done()
			keys := make([][]byte, o.NKeys)
			contents := make([][]byte, o.NKeys)
			for k := range keys {
				keys[k] = append([]byte{0x00}, []byte(fmt.Sprintf("c16in-%d-%d", i, k))...)
				contents[k] = fillBytes(20+k, byte(i))
			}
			reply, err := b.P.VerifHandleOffer(a.Node(), addrA, &portalwire.Offer{ContentKeys: keys})
			if err != nil {
				return
			}
			connID, accepted, _, perr := parseAccept(reply, 1, len(keys))
			mu.Lock()
			defer mu.Unlock()
			if perr != nil {
				if firstErr == nil {
					firstErr = perr
				}
				return
			}
			var acc [][]byte
			for k, ok := range accepted {
				if ok {
					acc = append(acc, contents[k])
				}
			}
			if len(acc) > 0 {
				grants = append(grants, granted{connID, acc, o.Stream})
			}
		}(i, o)
	}
	wg.Wait()
	if firstErr != nil {
		return firstErr
	}
	// all offers were answered before any transfer started or timed out: every granted one holds a slot now
	if len(grants) > limit {
		return fmt.Errorf("%d concurrent offers were granted a transfer with a limit of %d inbound slots", len(grants), limit)
	}
	if in, _ := b.Utp.VerifFreeSlots(); in != limit-len(grants) {
		return fmt.Errorf("%d transfers granted but %d of %d inbound slots are free", len(grants), in, limit)
	}
	if len(grants) == limit && limit > 0 && len(p.Offers) > limit {
		c.NT("peak-equals-limit")
	}
	// play the outcomes concurrently: first every granted transfer that dials at all connects ...
	type dialled struct {
		conn   *utp.UtpStream
		ctx    context.Context
		cancel context.CancelFunc
	}
	conns := make([]*dialled, len(grants))
	var wgd sync.WaitGroup
	for gi, g := range grants {
		if g.stream == "nodial" {
			continue
		}
		wgd.Add(1)
		go func(gi int, g granted) {
			defer wgd.Done()
			ctx, cancel := context.WithTimeout(context.Background(), 8*time.Second)
			conn, err := a.Utp.DialWithCid(ctx, b.Node(), g.connID)
			if err != nil {
				cancel()
				return
			}
			conns[gi] = &dialled{conn, ctx, cancel}
		}(gi, g)
	}
	wgd.Wait()
	// ... then, while all of them are still under way (connected and silent, or not yet dialled: the receiver waits
	// 15 s for those), a second wave of offers arrives. Transfers in progress never exceed the limit: the second wave
	// can only be granted what the first left over.
	if p.Second > 0 && p.Finish == "stop" {
		connected := 0
		for _, d := range conns {
			if d != nil {
				connected++
			}
		}
		time.Sleep(150 * time.Millisecond) // the receiver's accept calls have returned
		second := 0
		for i := 0; i < p.Second; i++ {
			keys := [][]byte{append([]byte{0x00}, []byte(fmt.Sprintf("c16in-second-%d", i))...)}
			reply, err := b.P.VerifHandleOffer(a.Node(), addrA, &portalwire.Offer{ContentKeys: keys})
			if err != nil {
				continue
			}
			connID, accepted, _, perr := parseAccept(reply, 1, 1)
			if perr != nil {
				return perr
			}
			if accepted[0] {
				second++
				grants = append(grants, granted{connID, [][]byte{[]byte("second wave")}, "nodial"})
				conns = append(conns, nil)
			}
		}
		if len(grants) > limit {
			return fmt.Errorf("%d inbound transfers are in progress with a limit of %d: %d granted earlier (%d of them connected and waiting to send, none finished) and %d more granted to a second wave of %d offers",
				len(grants), limit, len(grants)-second, connected, second, p.Second)
		}
		if connected > 0 && len(grants)-second == limit {
			c.NT("second-wave-while-limit-transfers-are-in-their-data-phase")
		}
	}
	var wg2 sync.WaitGroup
	unhappy := false
	for gi, g := range grants {
		if g.stream != "valid" {
			unhappy = true
		}
		wg2.Add(1)
		go func(gi int, g granted) {
			defer wg2.Done()
			if g.stream == "nodial" || conns[gi] == nil {
				return
			}
			conn, ctx := conns[gi].conn, conns[gi].ctx
			defer conns[gi].cancel()
			switch g.stream {
			case "valid":
				_, _ = conn.Write(ctx, portalwire.VerifEncodeContents(g.contents))
			case "fewer":
				if len(g.contents) > 1 {
					_, _ = conn.Write(ctx, portalwire.VerifEncodeContents(g.contents[1:]))
				} else {
					// one accepted item: "wrong count" has to be one more (a connection closed without any data would
					// keep the receiver reading until its 60 s read time-out, which is the dial-silent outcome)
					_, _ = conn.Write(ctx, portalwire.VerifEncodeContents(append(append([][]byte{}, g.contents...), []byte("surplus"))))
				}
			case "garbage":
				_, _ = conn.Write(ctx, []byte{0xff, 0xff, 0xff, 0xff, 0xff, 0x01})
			case "dial-silent":
				time.Sleep(300 * time.Millisecond) // connected, sends nothing, then closes
			}
			conn.Close()
		}(gi, g)
	}
	wg2.Wait()
	if unhappy {
		c.NT("unhappy-path")
	}
	wait := 8 * time.Second
	if p.Finish == "stop" {
		b.Stop()
		c.Class("finish:stop")
	} else {
		wait = 25 * time.Second // accept time-out is 15 s
		c.Class("finish:wait")
	}
	if in := waitFreeInbound(b, limit, wait); in != limit {
		return fmt.Errorf("after all %d granted transfers ended (%s), %d of %d inbound slots are free", len(grants), p.Finish, in, limit)
	}
	if _, out := b.Utp.VerifFreeSlots(); out != limit {
		return fmt.Errorf("outbound slots of the receiving side changed: %d of %d free", out, limit)
	}
	return nil
}

func TestC16_Inbound(t *testing.T) { pbt.Run(t, "C16", "inbound", genC16In, runC16In) }

// ---------------------------------------------------------------------------
// C16 history: a finished inbound transfer must not give back the slot of a later one. The receiving
// goroutine of a completed transfer lingers until its second accept times out (15 s) and releases its
// permit once more; that late release must stay a no-op while other transfers hold their slots.

type c16Reuse struct {
	Limit int // 1..3
	N1    int // transfers completed in phase 1
	N2    int // transfers granted (and left waiting) in phase 2
}

func genC16Reuse(t *rapid.T) c16Reuse {
	l := rapid.IntRange(1, 3).Draw(t, "limit")
	return c16Reuse{Limit: l, N1: rapid.IntRange(1, l).Draw(t, "n1"), N2: rapid.IntRange(1, l).Draw(t, "n2")}
}

func runC16Reuse(p c16Reuse, c *stats.Case) error {
	hub := simnet.NewHub()
	b, err := pp.NewLive(hub, pp.LiveOpts{KeyIdx: 93, Port: nextPort(), Versions: []byte{1}, MaxUtp: p.Limit, UtpFast: true, RespTimeout: 20 * time.Second})
	if err != nil {
		return fmt.Errorf("harness: %v", err)
	}
	defer b.Stop()
	a, err := pp.NewLive(hub, pp.LiveOpts{KeyIdx: 94, Port: nextPort(), Versions: []byte{1}, UtpFast: true})
	if err != nil {
		return fmt.Errorf("harness: %v", err)
	}
	defer a.Stop()
	if _, err := a.P.VerifPing(b.Node()); err != nil {
		return fmt.Errorf("harness: ping: %v", err)
	}
	addrA := &net.UDPAddr{IP: net.IP{127, 0, 0, 1}, Port: a.Opts.Port}
	offer := func(tag string, i int) (uint16, [][]byte, bool, error) {
		key := append([]byte{0x00}, []byte(fmt.Sprintf("c16reuse-%s-%d", tag, i))...)
		content := fillBytes(40, byte(i))
		reply, err := b.P.VerifHandleOffer(a.Node(), addrA, &portalwire.Offer{ContentKeys: [][]byte{key}})
		if err != nil {
			return 0, nil, false, err
		}
		cid, acc, _, perr := parseAccept(reply, 1, 1)
		if perr != nil {
			return 0, nil, false, perr
		}
		return cid, [][]byte{content}, acc[0], nil
	}
	// phase 1: complete N1 transfers
	for i := 0; i < p.N1; i++ {
		cid, contents, ok, err := offer("one", i)
		if err != nil {
			return err
		}
		if !ok {
			return fmt.Errorf("phase 1: offer %d not accepted although slots are free", i)
		}
		ctx, cancel := context.WithTimeout(context.Background(), 8*time.Second)
		conn, derr := a.Utp.DialWithCid(ctx, b.Node(), cid)
		if derr != nil {
			cancel()
			stats.For("C16").Count("inconclusive:reuse-dial-failed", 1)
			return nil
		}
		_, _ = conn.Write(ctx, portalwire.VerifEncodeContents(contents))
		conn.Close()
		cancel()
	}
	if in := waitFreeInbound(b, p.Limit, 8*time.Second); in != p.Limit {
		stats.For("C16").Count("inconclusive:reuse-phase1-not-finished", 1)
		return nil
	}
	t1 := time.Now()
	go func() { // drain the validation queue
		for i := 0; i < p.N1; i++ {
			select {
			case <-b.Queue:
			case <-time.After(5 * time.Second):
				return
			}
		}
	}()
	// phase 2, six seconds later: N2 offers are granted a transfer and left waiting for a dial
	time.Sleep(6 * time.Second)
	grants := 0
	for i := 0; i < p.N2; i++ {
		_, _, ok, err := offer("two", i)
		if err != nil {
			return err
		}
		if ok {
			grants++
		}
	}
	if grants != p.N2 {
		return fmt.Errorf("phase 2: %d of %d offers accepted although %d slots were free", grants, p.N2, p.Limit)
	}
	// 18 s after phase 1 its lingering goroutines have given up (15 s accept time-out) and released again;
	// phase 2 keeps its slots until 21 s
	time.Sleep(time.Until(t1.Add(18 * time.Second)))
	in, _ := b.Utp.VerifFreeSlots()
	c.NT("late-release-of-finished-transfer")
	if in != p.Limit-grants {
		return fmt.Errorf("%d transfers are waiting for their dial with a limit of %d, but %d inbound slots are obtainable: the late release of a finished transfer gave back the slot of a running one", grants, p.Limit, in)
	}
	return nil
}

func TestC16_Reuse(t *testing.T) { pbt.Run(t, "C16", "reuse", genC16Reuse, runC16Reuse) }
