package p_proto

import (
	"bytes"
	"fmt"
	"net"
	"net/netip"
	"testing"
	"time"

	"github.com/ethereum/go-ethereum/p2p/enode"
	"github.com/ethereum/go-ethereum/p2p/enr"
	"github.com/ethereum/go-ethereum/rlp"
	"github.com/zen-eth/shisui/portalwire"
	"pgregory.net/rapid"
	"verifharness/pbt"
	"verifharness/pp"
	"verifharness/simnet"
	"verifharness/stats"
)

const inlineThreshold = portalwire.VerifMaxPacketSize - portalwire.VerifTalkRespOverhead - 2 // 1175

type c08Plan struct {
	VA, VB      []byte // version sets of asker and responder
	Held        bool
	Size        int
	Seed        byte
	KeySeed     uint32
	Table       []tableNodeSpec
	AskerInTab  bool
	Policy      simnet.Policy
	Direct      bool   // observe the raw reply through the handler wrapper instead of end to end
	SecondAsker bool   // a second asker fetches the same key concurrently
	FramedLook  bool   // the stored value begins with the LEB128 of its own remaining length
	Unopened    int    // FINDCONTENT requests of another peer for the same key whose announced uTP stream is never opened, before the judged request
	Limit       int    // 0: default number of transfer slots of the responder, else 1 or 2
	Prior       []byte // non-empty: the asker ran with this version set before (same identity and endpoint), contacted the responder, and restarted
}

func genSize(t *rapid.T) int {
	switch rapid.IntRange(0, 9).Draw(t, "sizeClass") {
	case 0:
		return rapid.SampledFrom([]int{0, 1, 2}).Draw(t, "tiny")
	case 1, 2, 3, 4:
		return rapid.IntRange(inlineThreshold-12, inlineThreshold+12).Draw(t, "near")
	case 5:
		return rapid.IntRange(3, inlineThreshold-13).Draw(t, "small")
	case 6:
		return rapid.SampledFrom([]int{2047, 2048, 2049, 4096, 16383, 16384, 16384, 16385, 127, 128}).Draw(t, "ssz") // SSZ limits and the boundaries of the stream's length prefix
	default:
		return rapid.IntRange(inlineThreshold+13, 65536).Draw(t, "large")
	}
}

func genPolicy(t *rapid.T) simnet.Policy {
	switch rapid.IntRange(0, 7).Draw(t, "policy") {
	case 0:
		return simnet.Policy{DropEvery: rapid.IntRange(3, 9).Draw(t, "drop"), SkipFirst: 4}
	case 1:
		return simnet.Policy{DupEvery: rapid.IntRange(2, 5).Draw(t, "dup"), SkipFirst: 2}
	case 2:
		return simnet.Policy{SwapEvery: rapid.IntRange(2, 6).Draw(t, "swap"), SkipFirst: 4}
	}
	return simnet.Policy{}
}

func genC08(t *rapid.T) c08Plan {
	sets := [][]byte{{0}, {1}, {0, 1}, {1, 0}} // the order in which a record lists its versions must not matter
	var prior []byte
	if rapid.IntRange(0, 3).Draw(t, "hasprior") == 0 {
		prior = rapid.SampledFrom([][]byte{{0}, {1}, {0, 1}}).Draw(t, "prior")
	}
	return c08Plan{Prior: prior, FramedLook: rapid.IntRange(0, 3).Draw(t, "framedLook") == 0, Unopened: rapid.SampledFrom([]int{0, 0, 1, 2, 3}).Draw(t, "unopened"), Limit: rapid.SampledFrom([]int{0, 1, 1, 2}).Draw(t, "limit"), VA: rapid.SampledFrom(sets).Draw(t, "va"), VB: rapid.SampledFrom(sets).Draw(t, "vb"),
		Held: rapid.IntRange(0, 3).Draw(t, "held") != 0, Size: genSize(t), Seed: rapid.Byte().Draw(t, "seed"),
		KeySeed: rapid.Uint32().Draw(t, "key"), Table: genTableNodes(t, rapid.SampledFrom([]int{0, 6, 40, 272}).Draw(t, "maxN")),
		AskerInTab: rapid.Bool().Draw(t, "askerInTab"), Policy: genPolicy(t), Direct: rapid.IntRange(0, 2).Draw(t, "direct") == 0,
		SecondAsker: rapid.IntRange(0, 5).Draw(t, "second") == 0}
}

// checkEnrsReply judges a "not held" reply body (after the CONTENT id and selector bytes).
func checkEnrsReply(body []byte, tableRecs map[string]enode.ID, asker enode.ID, contentID []byte, c *stats.Case) error {
	var msg portalwire.Enrs
	if err := msg.UnmarshalSSZ(body); err != nil {
		return fmt.Errorf("ENRs reply does not decode: %v", err)
	}
	last := -1
	for i, raw := range msg.Enrs {
		id, ok := tableRecs[string(raw)]
		if !ok {
			return fmt.Errorf("record %d of the ENRs reply is not a record of the responder's routing table", i)
		}
		if id == asker {
			return fmt.Errorf("the ENRs reply contains the asker's own record (position %d)", i)
		}
		d := enode.LogDist(id, enode.ID(contentID))
		if d < last {
			return fmt.Errorf("ENRs reply not ordered by log-distance to the content id: %d after %d at position %d", d, last, i)
		}
		last = d
	}
	if len(msg.Enrs) > 0 {
		c.NT("enrs-non-empty")
	}
	if len(msg.Enrs) < len(tableRecs) && len(msg.Enrs) < 32 && len(tableRecs) > len(msg.Enrs)+1 {
		c.NT("enrs-truncated-by-size")
	}
	return nil
}

func tableRecords(l *pp.Live) map[string]enode.ID {
	out := map[string]enode.ID{}
	for _, n := range l.P.VerifTable().VerifNodeList() {
		out[string(mustRLP(n.Record()))] = n.ID()
	}
	return out
}

func runC08(p c08Plan, c *stats.Case) error {
	hub := simnet.NewHub()
	store := pp.NewMemStore()
	b, err := pp.NewLive(hub, pp.LiveOpts{KeyIdx: 51, Port: nextPort(), Versions: p.VB, Storage: store, UtpFast: true, RespTimeout: 20 * time.Second, MaxUtp: p.Limit})
	if err != nil {
		return fmt.Errorf("harness: %v", err)
	}
	defer b.Stop()
	portA := nextPort()
	var priorSeq uint64
	var apA netip.AddrPort
	var sentA0 int
	if len(p.Prior) > 0 {
		// the responder holds the asker's record from an earlier life in which it advertised other versions; after
		// the restart the asker's record is newer and the responder learns it in the handshake
		a0, err := pp.NewLive(hub, pp.LiveOpts{KeyIdx: 52, Port: portA, Versions: p.Prior, UtpFast: true, RespTimeout: 400 * time.Millisecond})
		if err != nil {
			return fmt.Errorf("harness: %v", err)
		}
		_, perr := a0.P.VerifPing(b.Node())
		priorSeq = a0.Node().Seq()
		a0.Stop()
		apA = a0.Conn.AddrPort()
		sentA0 = hub.Sent(apA)
		if perr == nil && !bytes.Equal(p.Prior, p.VA) {
			c.Class("asker-restarted-with-other-version-set")
		}
		time.Sleep(40 * time.Millisecond) // sequence numbers start from the millisecond clock: the new record is newer
	}
	a, err := pp.NewLive(hub, pp.LiveOpts{KeyIdx: 52, Port: portA, Versions: p.VA, UtpFast: true, RespTimeout: 400 * time.Millisecond})
	if err != nil {
		return fmt.Errorf("harness: %v", err)
	}
	defer a.Stop()
	if len(p.Prior) > 0 && hub.Sent(apA) != sentA0 {
		// The restarted node has already answered a packet of the responder (a liveness check of its routing table
		// under the old session keys): the responder then opened the new session itself, with the record it had. A
		// stale record in that case is how the discovery protocol works, not what this history is about.
		c.Class("discarded:responder-contacted-the-restarted-node-first")
		return nil
	}
	if len(p.Prior) > 0 && a.Node().Seq() <= priorSeq {
		c.Class("harness:restarted-record-not-newer")
		return nil
	}

	key := append([]byte{0x00}, byte(p.KeySeed), byte(p.KeySeed>>8), byte(p.KeySeed>>16), byte(p.KeySeed>>24))
	contentID := b.P.ToContentId(key)
	want := fillBytes(p.Size, p.Seed)
	if p.FramedLook && p.Size > 2 {
		want = selfDescribing(want) // read as a version-1 stream it would be one framed item; version 0 sends it as it is
		c.Class("stored-value-looks-like-a-framed-stream")
	}
	if p.Held {
		_ = store.Put(key, contentID, want)
	}
	fillTable(b, p.Table)
	if p.AskerInTab {
		b.P.VerifTable().VerifAddFoundNode(a.Node(), true)
		c.Class("asker-in-table")
	}
	_, common := maxCommon(p.VA, p.VB)
	if p.Size >= inlineThreshold-12 && p.Size <= inlineThreshold+12 {
		c.NT("size-near-threshold")
	}
	if !p.Policy.Clean() {
		c.Class("lossy-link")
	}

	if !common && p.Held && p.Size > inlineThreshold {
		// no common protocol version: the uTP leg is expected to fail (C19 owns that) and only
		// ends after the 15 s connect time-out; observe the reply directly instead
		p.Direct = true
		c.Class("no-common-version-direct")
	}
	if p.Direct {
		c.Class("direct")
		recs := tableRecords(b)
		reply, err := b.P.VerifHandleFindContent(a.Node(), &net.UDPAddr{IP: net.IP{127, 0, 0, 1}, Port: a.Opts.Port}, &portalwire.FindContent{ContentKey: key})
		if err != nil {
			return fmt.Errorf("handleFindContent: %v", err)
		}
		if len(reply) > maxTalkRespBody {
			return fmt.Errorf("CONTENT reply body is %d bytes, more than the %d that fit one discv5 packet (stored %d bytes)", len(reply), maxTalkRespBody, p.Size)
		}
		if len(reply) < 2 || reply[0] != portalwire.CONTENT {
			return fmt.Errorf("reply is not a CONTENT message: %x", clip(reply))
		}
		switch {
		case !p.Held:
			if reply[1] != portalwire.ContentEnrsSelector {
				return fmt.Errorf("key not held but reply selector is %d, not the ENRs list", reply[1])
			}
			return checkEnrsReply(reply[2:], recs, a.Node().ID(), contentID, c)
		case reply[1] == portalwire.ContentRawSelector:
			var m portalwire.Content
			if err := m.UnmarshalSSZ(reply[2:]); err != nil {
				return fmt.Errorf("inline CONTENT does not decode: %v", err)
			}
			if !bytes.Equal(m.Content, want) {
				return fmt.Errorf("inline CONTENT differs from the %d stored bytes (got %d bytes)", len(want), len(m.Content))
			}
			c.NT("inline")
		case reply[1] == portalwire.ContentConnIdSelector:
			if p.Size <= 2 {
				return fmt.Errorf("%d stored bytes announced over uTP", p.Size)
			}
			c.NT("utp-announced")
		default:
			return fmt.Errorf("key held but reply selector is %d", reply[1])
		}
		return nil
	}

	// ---- end to end over the simulated link
	hub.SetPolicy(p.Policy)
	if !p.Held {
		// raw reply through a scripted asker so that the records are seen unfiltered
		s, err := pp.NewScripted(hub, 53, net.IP{127, 0, 0, 1}, nextPort(), p.VA, 400*time.Millisecond)
		if err != nil {
			return fmt.Errorf("harness: %v", err)
		}
		defer s.Stop()
		body, _ := (&portalwire.FindContent{ContentKey: key}).MarshalSSZ()
		resp, err := s.Disc.TalkRequest(b.Node(), string(portalwire.History), append([]byte{portalwire.FINDCONTENT}, body...))
		if sz := hub.MaxDatagram(b.Conn.AddrPort()); sz > portalwire.VerifMaxPacketSize {
			return fmt.Errorf("responder emitted a datagram of %d bytes (> %d)", sz, portalwire.VerifMaxPacketSize)
		}
		if err != nil {
			c.Class("e2e-error-tolerated")
			return nil
		}
		if len(resp) < 2 || resp[0] != portalwire.CONTENT || resp[1] != portalwire.ContentEnrsSelector {
			return fmt.Errorf("key not held but the reply is %x", clip(resp))
		}
		c.NT("e2e-enrs")
		return checkEnrsReply(resp[2:], tableRecords(b), s.Node().ID(), contentID, c)
	}

	type res struct {
		flag byte
		v    interface{}
		err  error
	}
	fetch := func(l *pp.Live) chan res {
		ch := make(chan res, 1)
		go func() {
			f, v, e := l.P.VerifFindContent(b.Node(), key)
			ch <- res{f, v, e}
		}()
		return ch
	}
	if p.Unopened > 0 && p.Size > inlineThreshold && p.Policy.Clean() {
		// another peer asked for the same item before and never opened the streams it was offered: whatever the
		// responder keeps for those (a waiting accept, a slot) must not stand in the way of the next asker
		s, err := pp.NewScripted(hub, 55, net.IP{127, 0, 0, 1}, nextPort(), p.VA, 400*time.Millisecond)
		if err != nil {
			return fmt.Errorf("harness: %v", err)
		}
		defer s.Stop()
		body, _ := (&portalwire.FindContent{ContentKey: key}).MarshalSSZ()
		announced := 0
		for i := 0; i < p.Unopened; i++ {
			resp, err := s.Disc.TalkRequest(b.Node(), string(portalwire.History), append([]byte{portalwire.FINDCONTENT}, body...))
			if err == nil && len(resp) >= 2 && resp[0] == portalwire.CONTENT && resp[1] == portalwire.ContentConnIdSelector {
				announced++
			}
		}
		if announced > 0 {
			c.NT(fmt.Sprintf("after-unopened-streams:limit=%d", p.Limit))
		}
	}
	if len(p.Prior) > 0 && hub.Sent(apA) != sentA0 {
		c.Class("discarded:responder-contacted-the-restarted-node-first") // see above; checked again right before the request
		return nil
	}
	chans := []chan res{fetch(a)}
	if p.SecondAsker {
		a2, err := pp.NewLive(hub, pp.LiveOpts{KeyIdx: 54, Port: nextPort(), Versions: p.VA, UtpFast: true, RespTimeout: 400 * time.Millisecond})
		if err == nil {
			defer a2.Stop()
			chans = append(chans, fetch(a2))
			c.Class("two-askers")
		}
	}
	for _, ch := range chans {
		select {
		case r := <-ch:
			if sz := hub.MaxDatagram(b.Conn.AddrPort()); sz > portalwire.VerifMaxPacketSize {
				return fmt.Errorf("responder emitted a datagram of %d bytes (> %d) for %d stored bytes", sz, portalwire.VerifMaxPacketSize, p.Size)
			}
			if r.err != nil {
				if pp.IsTimeout(r.err) {
					stats.For("C08").Count("inconclusive:e2e-timeout", 1)
					continue
				}
				if p.Policy.Clean() && (common || p.Size <= inlineThreshold) {
					return fmt.Errorf("clean link, %d stored bytes, versions %v/%v: FINDCONTENT failed: %v", p.Size, p.VA, p.VB, r.err)
				}
				c.Class("e2e-error-tolerated")
				continue
			}
			got, isBytes := r.v.([]byte)
			if !isBytes {
				return fmt.Errorf("key held (%d bytes) but the asker ended up with selector %d", p.Size, r.flag)
			}
			if !bytes.Equal(got, want) {
				return fmt.Errorf("asker ended up with %d bytes that differ from the %d stored bytes (selector %d, versions %v/%v)", len(got), len(want), r.flag, p.VA, p.VB)
			}
			if r.flag == portalwire.ContentConnIdSelector {
				c.NT("e2e-utp")
			} else {
				c.NT("e2e-inline")
			}
		case <-time.After(25 * time.Second):
			stats.For("C08").Count("inconclusive:e2e-timeout", 1)
		}
	}
	return nil
}

func TestC08_FindContent(t *testing.T) { pbt.Run(t, "C08", "findcontent", genC08, runC08) }

var _ = enr.Record{}
var _ = rlp.EncodeToBytes

// ---------------------------------------------------------------------------
// C08 sub-scenario: the three real storage adapters as the responder's store.
// Nothing is stored, so no key is held: the answer must be the ENRs list (or an
// error / empty reply for a key the adapter cannot read), never content.

type c08Adapter struct {
	Network string
	Key     []byte
}

func genC08Adapter(t *rapid.T) c08Adapter {
	network := rapid.SampledFrom([]string{"history", "beacon", "state"}).Draw(t, "network")
	return c08Adapter{Network: network, Key: genKeyBytes(t, network)}
}

func runC08Adapter(p c08Adapter, c *stats.Case) error {
	env, err := newC01Env(p.Network, simnet.NewHub())
	if err != nil {
		return fmt.Errorf("harness: %v", err)
	}
	defer env.close()
	c.Class("adapter:" + p.Network)
	asker := env.senders[2]
	reply, herr := env.live.P.VerifHandleFindContent(asker, &net.UDPAddr{IP: asker.IP(), Port: asker.UDP()}, &portalwire.FindContent{ContentKey: p.Key})
	if herr != nil || len(reply) == 0 {
		c.Class("adapter:error-reply")
		return nil
	}
	if len(reply) < 2 || reply[0] != portalwire.CONTENT {
		return fmt.Errorf("reply is not a CONTENT message: %x", clip(reply))
	}
	if reply[1] != portalwire.ContentEnrsSelector {
		return fmt.Errorf("%s adapter holds nothing, but FINDCONTENT for key %x was answered with selector %d (%d body bytes) instead of the ENRs list", p.Network, clip(p.Key), reply[1], len(reply)-2)
	}
	c.NT("adapter:enrs-for-unheld-key")
	if len(p.Key) > 0 {
		known := false
		for _, s := range selectors[p.Network] {
			if p.Key[0] == s {
				known = true
			}
		}
		if !known {
			c.NT("adapter:unknown-selector")
		}
	}
	return nil
}

func TestC08_Adapters(t *testing.T) { pbt.Run(t, "C08", "adapters", genC08Adapter, runC08Adapter) }
