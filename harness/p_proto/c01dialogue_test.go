package p_proto

// C01, "a TALKRESP to one of our own requests" over the real request paths.
//
// TestC01_Surfaces hands response bytes to the process* functions directly. The node
// also issues requests on its own, from goroutines no caller waits for: a PING or
// PONG that announces a higher ENR sequence number makes it ask the peer for its
// record (FINDNODES [0]) - from the goroutine handlePing starts, or from the one
// that issued the ping - and whatever the peer answers to *that* request is remote
// input as well. Here a scripted discv5 peer answers every request of the node from
// a generated script (per message type: well-formed but useless, malformed, empty,
// honest), and the plan drives the node into making requests: its own
// ping/findnodes/findcontent/offer/ENR request, and pings from the peer that
// announce a newer record. A panic in a goroutine kills the process; the driver
// turns that into a violation with the write-ahead copy of the plan.

import (
	"encoding/json"
	"fmt"
	"net"
	"os"
	"path/filepath"
	"sync"
	"testing"
	"time"

	"github.com/ethereum/go-ethereum/p2p/enode"
	"github.com/zen-eth/shisui/portalwire"
	"pgregory.net/rapid"
	"verifharness/gen"
	"verifharness/pbt"
	"verifharness/pp"
	"verifharness/simnet"
	"verifharness/stats"
)

type dlgAction struct {
	Kind    string // ping, peerping, findnodes, findcontent, offer, requestenr
	Seq     uint64 // peerping: announced ENR sequence number
	PType   uint16 // peerping: payload type
	Corrupt bool
	Dist    []uint // findnodes
	Key     []byte // findcontent
	NKeys   int    // offer
}

type c01Dialogue struct {
	Network string
	Warm    bool // an honest ping/pong first, so the peer sits in the node's table
	Pongs   [][]byte
	Nodes   [][]byte
	Content [][]byte
	Accepts [][]byte
	Actions []dlgAction
}

const dlgPeerKey = 131

// genNodesReply: NODES replies a peer can give to FINDNODES, the ones asked with distance 0 included.
func genNodesReply(t *rapid.T, port int) []byte {
	shape := rapid.SampledFrom([]string{"empty", "empty", "self", "self-newer", "self-lowport", "other", "two", "generic", "generic"}).Draw(t, "nshape")
	self := func(seq uint64, udp int) []byte {
		return mustRLP(gen.SignedNode(gen.NodeOpts{KeyIdx: dlgPeerKey, Seq: seq, IP: net.IP{127, 0, 0, 1}, UDP: udp, Versions: []byte{0, 1}}).Record())
	}
	var enrs [][]byte
	switch shape {
	case "empty":
	case "self":
		enrs = [][]byte{self(1, port)}
	case "self-newer":
		enrs = [][]byte{self(7, port)}
	case "self-lowport":
		enrs = [][]byte{self(7, rapid.SampledFrom([]int{0, 1, 80, 1024}).Draw(t, "lowport"))}
	case "other":
		enrs = [][]byte{mustRLP(gen.SignedNode(gen.NodeOpts{KeyIdx: 230, Seq: 1, IP: net.IP{127, 0, 0, 1}, UDP: 9000}).Record())}
	case "two":
		enrs = [][]byte{self(7, port), self(7, port)}
	default:
		return genResp(t, "history", "nodes")
	}
	body := sszOr((&portalwire.Nodes{Total: rapid.SampledFrom([]byte{0, 1, 2, 255}).Draw(t, "total"), Enrs: enrs}).MarshalSSZ())
	return append([]byte{portalwire.NODES}, body...)
}

func genC01Dialogue(t *rapid.T) c01Dialogue {
	network := rapid.SampledFrom([]string{"history", "beacon", "state"}).Draw(t, "network")
	p := c01Dialogue{Network: network, Warm: rapid.IntRange(0, 4).Draw(t, "warm") > 0}
	port := 30131
	for i, n := 0, rapid.IntRange(1, 3).Draw(t, "npong"); i < n; i++ {
		p.Pongs = append(p.Pongs, genResp(t, network, "pong"))
	}
	for i, n := 0, rapid.IntRange(1, 3).Draw(t, "nnodes"); i < n; i++ {
		p.Nodes = append(p.Nodes, genNodesReply(t, port))
	}
	for i, n := 0, rapid.IntRange(1, 2).Draw(t, "ncontent"); i < n; i++ {
		r := genResp(t, network, "content")
		if len(r) > 1 && r[0] == portalwire.CONTENT && r[1] == 0 {
			r[1] = 2 // no connection ids here: the peer has no uTP side, the dial outcomes belong to C16
		}
		p.Content = append(p.Content, r)
	}
	for i, n := 0, rapid.IntRange(1, 2).Draw(t, "naccept"); i < n; i++ {
		switch rapid.IntRange(0, 3).Draw(t, "ashape") {
		case 0:
			p.Accepts = append(p.Accepts, []byte{})
		case 1:
			p.Accepts = append(p.Accepts, append([]byte{portalwire.ACCEPT}, rapid.SliceOfN(rapid.Byte(), 0, 20).Draw(t, "agarbage")...))
		default: // everything declined, right or wrong number of verdicts, either encoding
			n := rapid.SampledFrom([]int{0, 1, 2, 5, 64}).Draw(t, "averdicts")
			if rapid.Bool().Draw(t, "av1") {
				codes := make([]byte, n)
				for k := range codes {
					codes[k] = byte(rapid.IntRange(1, 5).Draw(t, "code"))
				}
				p.Accepts = append(p.Accepts, append([]byte{portalwire.ACCEPT}, sszOr((&portalwire.AcceptV1{ConnectionId: []byte{0, 0}, ContentKeys: codes}).MarshalSSZ())...))
			} else {
				bl := make([]byte, n/8+1)
				bl[n/8] |= 1 << uint(n%8)
				p.Accepts = append(p.Accepts, append([]byte{portalwire.ACCEPT}, sszOr((&portalwire.Accept{ConnectionId: []byte{0, 0}, ContentKeys: bl}).MarshalSSZ())...))
			}
		}
	}
	na := rapid.IntRange(1, 8).Draw(t, "nactions")
	for i := 0; i < na; i++ {
		a := dlgAction{Kind: rapid.SampledFrom([]string{"ping", "peerping", "peerping", "findnodes", "findcontent", "offer", "requestenr", "requestenr"}).Draw(t, "akind")}
		switch a.Kind {
		case "peerping":
			a.Seq = rapid.SampledFrom([]uint64{0, 1, 2, 7, 1 << 63}).Draw(t, "pseq")
			a.PType = rapid.SampledFrom([]uint16{0, 0, 1, 2, 65535, 9}).Draw(t, "ptype")
			a.Corrupt = rapid.IntRange(0, 5).Draw(t, "pcorrupt") == 0
		case "findnodes":
			a.Dist = rapid.SampledFrom([][]uint{{0}, {}, {256}, {0, 256, 255}, {257}}).Draw(t, "dist")
		case "findcontent":
			a.Key = genKeyBytes(t, network)
		case "offer":
			a.NKeys = rapid.SampledFrom([]int{1, 2, 5, 64}).Draw(t, "nkeys")
		}
		p.Actions = append(p.Actions, a)
	}
	return p
}

func runC01Dialogue(p c01Dialogue, c *stats.Case) error {
	if dir := os.Getenv("VERIF_WORK"); dir != "" {
		b, _ := json.Marshal(map[string]any{"property": "C01", "check": "dialogue", "error": "process died while this plan was executing", "plan": p})
		_ = os.WriteFile(filepath.Join(dir, fmt.Sprintf("wal-%d.json", os.Getpid())), b, 0o644)
	}
	hub := simnet.NewHub()
	env, err := newC01Env(p.Network, hub)
	if err != nil {
		return fmt.Errorf("harness: %v", err)
	}
	defer env.close()
	s, err := pp.NewScripted(hub, dlgPeerKey, net.IP{127, 0, 0, 1}, 30131, []byte{0, 1}, 300*time.Millisecond)
	if err != nil {
		return fmt.Errorf("harness: %v", err)
	}
	defer s.Stop()
	proto := portalwire.History
	switch p.Network {
	case "beacon":
		proto = portalwire.Beacon
	case "state":
		proto = portalwire.State
	}
	c.Class("net:" + p.Network)

	var mu sync.Mutex
	honest := p.Warm
	idx := map[byte]int{}
	asked := map[byte]int{}
	s.Handle(proto, func(id enode.ID, addr *net.UDPAddr, msg []byte) []byte {
		if len(msg) == 0 {
			return nil
		}
		mu.Lock()
		defer mu.Unlock()
		asked[msg[0]]++
		pick := func(list [][]byte) []byte {
			if len(list) == 0 {
				return nil
			}
			r := list[idx[msg[0]]%len(list)]
			idx[msg[0]]++
			return r
		}
		switch msg[0] {
		case portalwire.PING:
			if honest {
				honest = false
				pong, _ := (&portalwire.Pong{EnrSeq: 1, PayloadType: 0, Payload: buildPayload(0, make([]byte, 32), false)}).MarshalSSZ()
				return append([]byte{portalwire.PONG}, pong...)
			}
			return pick(p.Pongs)
		case portalwire.FINDNODES:
			return pick(p.Nodes)
		case portalwire.FINDCONTENT:
			return pick(p.Content)
		case portalwire.OFFER:
			return pick(p.Accepts)
		}
		return nil
	})

	l := env.live
	if p.Warm {
		_, _ = l.P.VerifPing(s.Node())
	}
	for i, a := range p.Actions {
		done := make(chan error, 1)
		go func() {
			done <- pbt.SafeCall(func() error {
				switch a.Kind {
				case "ping":
					_, _ = l.P.VerifPing(s.Node())
				case "peerping":
					msg, _ := (&portalwire.Ping{EnrSeq: a.Seq, PayloadType: a.PType, Payload: buildPayload(a.PType, make([]byte, 32), a.Corrupt)}).MarshalSSZ()
					_, _ = s.Disc.TalkRequest(l.Node(), string(proto), append([]byte{portalwire.PING}, msg...))
				case "findnodes":
					_, _ = l.P.VerifFindNodes(s.Node(), a.Dist)
				case "findcontent":
					_, _, _ = l.P.VerifFindContent(s.Node(), a.Key)
				case "requestenr":
					_, _ = l.P.RequestENR(s.Node())
				case "offer":
					entries := make([]*portalwire.ContentEntry, a.NKeys)
					for k := range entries {
						entries[k] = &portalwire.ContentEntry{ContentKey: contentKey(k), Content: []byte("x")}
					}
					req := &portalwire.OfferRequest{Kind: portalwire.TransientOfferRequestKind, Request: &portalwire.TransientOfferRequest{Contents: entries}}
					_, _ = l.P.VerifOffer(s.Node(), req, &portalwire.NoPermit{})
				}
				return nil
			})
		}()
		select {
		case err := <-done:
			if err != nil {
				return fmt.Errorf("action %d (%s, network %s): %v", i, a.Kind, p.Network, err)
			}
		case <-time.After(60 * time.Second):
			stats.For("C01").Count("inconclusive:dialogue-action-did-not-return-in-60s:"+a.Kind, 1)
			return nil
		}
	}
	// requests the node makes on its own (ENR refresh after a ping that announced a newer record) run in
	// goroutines nobody waits for: give them the time of one request round trip
	deadline := time.Now().Add(400 * time.Millisecond)
	for time.Now().Before(deadline) {
		time.Sleep(20 * time.Millisecond)
	}
	mu.Lock()
	for code, n := range asked {
		if n > 0 {
			c.NT(fmt.Sprintf("node-asked:%d", code))
		}
	}
	if asked[portalwire.FINDNODES] > 0 {
		c.Class("enr-or-nodes-request-answered-from-script")
	}
	mu.Unlock()
	typ, pl := uint16(0), buildPayload(0, make([]byte, 32), false)
	msg, _ := (&portalwire.Ping{EnrSeq: 1, PayloadType: typ, Payload: pl}).MarshalSSZ()
	reply := l.P.VerifHandleTalkRequest(env.senders[2], &net.UDPAddr{IP: env.senders[2].IP(), Port: env.senders[2].UDP()}, append([]byte{portalwire.PING}, msg...))
	if len(reply) == 0 || reply[0] != portalwire.PONG {
		return fmt.Errorf("after the dialogue the node no longer answers a well-formed PING (reply %x)", clip(reply))
	}
	return nil
}

func TestC01_Dialogue(t *testing.T) {
	pbt.Run(t, "C01", "dialogue", genC01Dialogue, runC01Dialogue)
}
