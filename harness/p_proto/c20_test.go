package p_proto

import (
	"bytes"
	"fmt"
	"github.com/holiman/uint256"
	"math/big"
	"net"
	"runtime"
	"sort"
	"testing"
	"time"

	"github.com/ethereum/go-ethereum/p2p/enode"
	"github.com/protolambda/zrnt/eth2/beacon/common"
	"github.com/protolambda/ztyp/view"
	"github.com/zen-eth/shisui/portalwire"
	pingext "github.com/zen-eth/shisui/portalwire/ping_ext"
	"pgregory.net/rapid"
	"verifharness/pbt"
	"verifharness/pp"
	"verifharness/simnet"
	"verifharness/stats"
)

type radiusOp struct {
	NodeIdx  int
	Via      string // "ping" (through the talk handler) or "pong" (through the pong processor)
	Type     string // "clientinfo", "basic", "history", "error", "unknown"
	RClass   string // "max", "zero", "cover", "nocover", "random"
	RSeed    uint32
	Corrupt  bool   // payload truncated: must be ignored
	NoWait   bool   // do not wait for the asynchronous ping processing before the next op (back-to-back pings)
	AddEnr   bool   // instead of a radius report: the operator adds the node's record by hand again (RPC AddEnr); a node that is in the table keeps the radius it reported, or none
	SetLocal uint32 // != 0: before this op the local store's radius changes to this value (shifted left by 200 bits)
	SeqBump  bool   // (scripted peers only) the message announces a newer record than the table holds; the node's request for it fails
}

type c20Plan struct {
	Network     string // "history", "state", "beacon"
	Table       []tableNodeSpec
	Ops         []radiusOp
	Source      string // "none", "intable", "notintable"
	SrcIdx      int
	KeySeed     uint32
	Batch       int
	Scripted    int    // 0..2 extra table nodes that are real discv5 endpoints (node indices behind the table specs); they answer FINDNODES with an empty list
	LocalRadius uint32 // != 0: the local store advertises a radius that is no byte palindrome (the pongs the node sends must carry it as is)
	NearKey     bool   // the content id shares its first ten bits with the local id: table nodes in the far buckets then lie at *different* log-distances from the content
}

// genC20Near: plans in which "the 32 nearest" and "the 4 closest covered" are decided by log-distance and not by
// ties. For a content id close to the local id, a table node in bucket d >= 247 lies at log-distance d from the
// content as well. "window": two full buckets and 1..3 nodes in the next one (the 33rd-nearest and beyond), few
// covered nodes, the source mostly among the nearest 32. "ladder": 1..3 nodes in each of many buckets, most of
// them covered, so that more than twelve covered candidates exist and the four closest are determined.
func genC20Near(t *rapid.T) c20Plan {
	mode := rapid.SampledFrom([]string{"window", "ladder"}).Draw(t, "nearMode")
	var table []tableNodeSpec
	var ops []radiusOp
	node := func(d int) tableNodeSpec {
		return tableNodeSpec{Dist: d, Fill: rapid.Uint32().Draw(t, "fill"), IPClass: "public", Live: true}
	}
	cover := func(idx int, class string) radiusOp {
		return radiusOp{NodeIdx: idx, Via: "pong", Type: "clientinfo", RClass: class, RSeed: rapid.Uint32().Draw(t, "rseed")}
	}
	src, srcIdx := "none", 0
	if mode == "window" {
		a := rapid.IntRange(247, 254).Draw(t, "a")
		for i := 0; i < 16; i++ {
			table = append(table, node(a))
		}
		for i := 0; i < 16; i++ {
			table = append(table, node(a+1))
		}
		outer := rapid.IntRange(1, 3).Draw(t, "outer")
		for i := 0; i < outer; i++ {
			table = append(table, node(a+2))
			ops = append(ops, cover(32+i, "cover"))
		}
		for i, n := 0, rapid.IntRange(0, 6).Draw(t, "innerCovered"); i < n; i++ {
			ops = append(ops, cover(rapid.IntRange(0, 31).Draw(t, "inner"), rapid.SampledFrom([]string{"cover", "cover", "max", "nocover"}).Draw(t, "rc")))
		}
		if rapid.IntRange(0, 4).Draw(t, "hasSrc") > 0 {
			src, srcIdx = "intable", rapid.IntRange(0, 34).Draw(t, "srcidx")
		}
	} else {
		for d := 247; d <= 256; d++ {
			for i, n := 0, rapid.IntRange(0, 3).Draw(t, "perBucket"); i < n; i++ {
				table = append(table, node(d))
			}
		}
		for i := range table {
			if rapid.IntRange(0, 9).Draw(t, "cov") < 8 {
				ops = append(ops, cover(i, rapid.SampledFrom([]string{"cover", "cover", "cover", "max", "nocover"}).Draw(t, "rc")))
			}
		}
		src = rapid.SampledFrom([]string{"none", "covered", "intable"}).Draw(t, "src")
		srcIdx = rapid.IntRange(0, 300).Draw(t, "srcidx")
	}
	return c20Plan{Network: rapid.SampledFrom([]string{"history", "state", "beacon"}).Draw(t, "net"), Table: table, Ops: ops, Source: src, SrcIdx: srcIdx,
		KeySeed: rapid.Uint32().Draw(t, "key"), Batch: rapid.SampledFrom([]int{1, 2}).Draw(t, "batch"), NearKey: true, LocalRadius: genLocalRadius(t)}
}

func genLocalRadius(t *rapid.T) uint32 {
	if rapid.Bool().Draw(t, "localRadiusMax") {
		return 0
	}
	return rapid.Uint32Range(1, 1<<31).Draw(t, "localRadius")
}

func genC20(t *rapid.T) c20Plan {
	if rapid.IntRange(0, 9).Draw(t, "near") < 4 {
		return genC20Near(t)
	}
	table := genTableNodes(t, rapid.SampledFrom([]int{3, 12, 50, 272}).Draw(t, "maxN"))
	scripted := rapid.SampledFrom([]int{0, 0, 1, 2}).Draw(t, "scripted")
	nn := len(table) + scripted
	nops := 0
	if nn > 0 {
		nops = rapid.IntRange(0, 3*nn).Draw(t, "nops")
		if nops > 400 {
			nops = 400
		}
	}
	ops := make([]radiusOp, nops)
	for i := range ops {
		ops[i] = radiusOp{NodeIdx: rapid.IntRange(0, nn-1).Draw(t, "node"),
			Via:     rapid.SampledFrom([]string{"ping", "pong"}).Draw(t, "via"),
			Type:    rapid.SampledFrom([]string{"clientinfo", "clientinfo", "basic", "history", "basic", "history", "error", "unknown"}).Draw(t, "ptype"),
			RClass:  rapid.SampledFrom([]string{"max", "zero", "cover", "cover", "cover", "nocover", "random"}).Draw(t, "rclass"),
			RSeed:   rapid.Uint32().Draw(t, "rseed"),
			Corrupt: rapid.IntRange(0, 11).Draw(t, "corrupt") == 0,
			NoWait:  rapid.IntRange(0, 9).Draw(t, "nowait") == 0}
		if rapid.IntRange(0, 11).Draw(t, "addenr") == 0 {
			ops[i].AddEnr = true
		}
		if rapid.IntRange(0, 9).Draw(t, "setlocal") == 0 {
			ops[i].SetLocal = rapid.Uint32Range(1, 1<<31).Draw(t, "newLocalRadius")
		}
		if scripted > 0 && rapid.IntRange(0, 2).Draw(t, "toScripted") == 0 {
			ops[i].NodeIdx = len(table) + rapid.IntRange(0, scripted-1).Draw(t, "snode")
		}
		if ops[i].NodeIdx >= len(table) {
			ops[i].SeqBump = rapid.Bool().Draw(t, "seqbump")
		}
	}
	return c20Plan{Network: rapid.SampledFrom([]string{"history", "state", "beacon"}).Draw(t, "net"), Table: table, Ops: ops,
		Source: rapid.SampledFrom([]string{"none", "intable", "covered", "covered", "notintable"}).Draw(t, "src"), SrcIdx: rapid.IntRange(0, 300).Draw(t, "srcidx"),
		KeySeed: rapid.Uint32().Draw(t, "key"), Batch: rapid.SampledFrom([]int{1, 1, 2, 5, 64}).Draw(t, "batch"), LocalRadius: genLocalRadius(t), Scripted: scripted}
}

func leBytes(v *big.Int) []byte {
	b := v.Bytes() // big-endian
	out := make([]byte, 32)
	for i := 0; i < len(b) && i < 32; i++ {
		out[i] = b[len(b)-1-i]
	}
	return out
}

func leToBig(b []byte) *big.Int { return new(big.Int).SetBytes(reverse32(b)) }

func supportedType(network, typ string) (uint16, bool) {
	switch typ {
	case "clientinfo":
		return pingext.ClientInfo, true
	case "basic":
		return pingext.BasicRadius, network != "history"
	case "history":
		return pingext.HistoryRadius, network == "history"
	case "error":
		return pingext.Error, false // supported as a type, carries no radius
	}
	return 7777, false
}

func buildPayload(typ uint16, radius []byte, corrupt bool) []byte {
	var b []byte
	switch typ {
	case pingext.ClientInfo:
		p := pingext.ClientInfoAndCapabilitiesPayload{ClientInfo: []byte("verif/1"), DataRadius: common.Root(radius), Capabilities: []view.Uint16View{0, 1, 2, 65535}}
		b, _ = p.MarshalSSZ()
	case pingext.BasicRadius:
		b, _ = pingext.BasicRadiusPayload{DataRadius: common.Root(radius)}.MarshalSSZ()
	case pingext.HistoryRadius:
		b, _ = pingext.HistoryRadiusPayload{DataRadius: common.Root(radius), EphemeralHeaderCount: 3}.MarshalSSZ()
	case pingext.Error:
		b = pingext.GetErrorPayloadBytes(pingext.ErrorSystemError)
	default:
		b = radius
	}
	if corrupt && len(b) > 3 {
		b = b[:len(b)-3]
	}
	return b
}

func waitRadius(p *portalwire.PortalProtocol, id enode.ID, want []byte, known bool) ([]byte, bool) {
	deadline := time.Now().Add(5 * time.Second)
	for {
		got, ok := p.VerifRadiusCacheGet(id)
		if ok == known && (!known || bytes.Equal(got, want)) {
			return got, ok
		}
		if time.Now().After(deadline) {
			return got, ok
		}
		time.Sleep(200 * time.Microsecond)
	}
}

// pingQuiescent waits until no asynchronous ping processing goroutine is left.
func pingQuiescent() {
	buf := make([]byte, 1<<20)
	for i := 0; i < 50000; i++ {
		n := runtime.Stack(buf, true)
		// a goroutine that has not run yet only shows its creator (handlePing.gowrapN)
		if !bytes.Contains(buf[:n], []byte("PortalProtocol).processPing")) && !bytes.Contains(buf[:n], []byte("PortalProtocol).handlePing")) {
			return
		}
		time.Sleep(100 * time.Microsecond)
	}
}

func runC20(p c20Plan, c *stats.Case) error {
	proto := portalwire.History
	switch p.Network {
	case "state":
		proto = portalwire.State
	case "beacon":
		proto = portalwire.Beacon
	}
	hub := simnet.NewHub()
	l, err := pp.NewLive(hub, pp.LiveOpts{KeyIdx: 61, Port: nextPort(), Versions: []byte{0, 1}, NoWorkers: true, RespTimeout: 20 * time.Second, Proto: proto})
	if err != nil {
		return fmt.Errorf("harness: %v", err)
	}
	defer func() {
		for _, o := range l.P.VerifOfferQueueTake(2000) {
			o.VerifPermit().Release()
		}
		l.Stop()
	}()
	if p.LocalRadius != 0 {
		// the node's own radius as after a prune: high bits from the plan, low bits zero, not a byte palindrome
		r := new(uint256.Int).Lsh(uint256.NewInt(uint64(p.LocalRadius)), 200)
		if ms, ok := l.Store.(*pp.MemStore); ok {
			ms.SetRadius(r)
			c.Class("local-radius-not-a-palindrome")
		}
	}
	self := l.Node().ID()
	nodes := make([]*enode.Node, len(p.Table))
	tab := l.P.VerifTable()
	for i, s := range p.Table {
		nodes[i] = specNode(self, i, s)
		tab.VerifAddFoundNode(nodes[i], s.Live)
	}
	for i := 0; i < p.Scripted && i < 2; i++ {
		// a table node that really exists: it answers the node's request for its record with an empty NODES list,
		// so a record refresh triggered by a higher announced sequence number fails at once
		sp, err := pp.NewScripted(hub, 141+i, net.IP{127, 0, 0, 1}, nextPort(), []byte{0, 1}, 300*time.Millisecond)
		if err != nil {
			return fmt.Errorf("harness: %v", err)
		}
		defer sp.Stop()
		release := make(chan struct{})
		defer close(release)
		sp.Handle(proto, func(id enode.ID, addr *net.UDPAddr, msg []byte) []byte {
			if len(msg) > 0 && msg[0] == portalwire.FINDNODES {
				b, _ := (&portalwire.Nodes{Total: 1}).MarshalSSZ()
				return append([]byte{portalwire.NODES}, b...)
			}
			// anything else (a liveness ping of the table) stays unanswered for the rest of the case, as with the
			// table nodes that do not exist: an answer would be a radius report of its own, a refusal would evict the node
			<-release
			return nil
		})
		nodes = append(nodes, sp.Node())
		tab.VerifAddFoundNode(sp.Node(), true)
	}
	c.Class("net:" + p.Network)

	keys := make([][]byte, p.Batch)
	contents := make([][]byte, p.Batch)
	for i := range keys {
		keys[i] = []byte{0x00, byte(p.KeySeed), byte(p.KeySeed >> 8), byte(p.KeySeed >> 16), byte(p.KeySeed >> 24), byte(i)}
		contents[i] = fillBytes(10+i, byte(i))
	}
	if p.NearKey {
		// search a key whose content id lies within log-distance 246 of the local id (about a thousand hashes)
		found := false
		for ctr := 0; ctr < 1<<20 && !found; ctr++ {
			k := append(append([]byte{}, keys[0]...), byte(ctr), byte(ctr>>8), byte(ctr>>16))
			if enode.LogDist(self, enode.ID(l.P.ToContentId(k))) <= 246 {
				keys[0], found = k, true
			}
		}
		if !found {
			return fmt.Errorf("harness: no content key near the local id found")
		}
		c.Class("content-id-near-local-id")
	}
	contentID := l.P.ToContentId(keys[0])

	// ---- deliver radii
	model := map[enode.ID][]byte{}
	pendingPing := map[enode.ID][][]byte{} // radii of pings whose asynchronous processing was not awaited
	present := map[enode.ID]bool{}         // ids in the table (entries or replacements); harness nodes never leave during a case
	refreshPresent := func() {
		for id := range present {
			delete(present, id) // membership as it is now: on a loaded machine a long case can outlast the table's liveness timers
		}
		for _, b := range tab.VerifSnapshot().Buckets {
			for _, e := range b.Entries {
				present[e.ID] = true
			}
			for _, e := range b.Replacements {
				present[e.ID] = true
			}
		}
	}
	refreshPresent()
	outstanding := false
	twice := false
	for k, op := range p.Ops {
		if op.NodeIdx >= len(nodes) {
			continue
		}
		n := nodes[op.NodeIdx]
		id := n.ID()
		refreshPresent()
		enrSeq := uint64(1)
		if op.SeqBump && op.NodeIdx >= len(p.Table) {
			enrSeq = n.Seq() + 5
		}
		if op.SetLocal != 0 {
			if ms, ok := l.Store.(*pp.MemStore); ok {
				ms.SetRadius(new(uint256.Int).Lsh(uint256.NewInt(uint64(op.SetLocal)), 200))
				c.NT("local-radius-changed-between-two-pongs")
			}
		}
		if op.AddEnr {
			if !present[id] {
				continue // a record that is new to the table gets the default radius from AddEnr: outside the statement
			}
			if outstanding || len(pendingPing[id]) > 0 {
				continue // ping processing still under way: judged by the ops around it
			}
			// (on a loaded machine a long case can outlast the liveness timers of the table: a node that has been
			// dropped meanwhile is new to the table again and rightly gets the default radius)
			stillThere := false
			for _, bk := range tab.VerifSnapshot().Buckets {
				for _, e := range bk.Entries {
					if e.ID == id {
						stillThere = true
					}
				}
				for _, e := range bk.Replacements {
					if e.ID == id {
						stillThere = true
					}
				}
			}
			if !stillThere {
				c.Class("discarded:node-left-the-table-before-it-was-added-by-hand")
				continue
			}
			l.P.AddEnr(n)
			want, known := model[id]
			got, ok := waitRadius(l.P, id, want, known)
			if ok != known || (known && !bytes.Equal(got, want)) {
				return fmt.Errorf("op %d: the record of table node %x was added by hand again: radius cache now holds %x (present %v), the node's last reported radius is %x (reported at all: %v)", k, id[:4], got, ok, want, known)
			}
			c.NT("record-of-a-table-node-added-by-hand-again")
			continue
		}
		typ, carries := supportedType(p.Network, op.Type)
		dist := xorDist(id[:], contentID)
		var r *big.Int
		switch op.RClass {
		case "max":
			r = new(big.Int).Sub(new(big.Int).Lsh(big.NewInt(1), 256), big.NewInt(1))
		case "zero":
			r = big.NewInt(0)
		case "cover":
			r = new(big.Int).Add(dist, big.NewInt(1+int64(op.RSeed%1000)))
		case "nocover":
			r = new(big.Int).Sub(dist, big.NewInt(1+int64(op.RSeed%1000)))
			if r.Sign() < 0 {
				r = big.NewInt(0)
			}
		default:
			r = new(big.Int).Lsh(big.NewInt(int64(op.RSeed)+1), uint(op.RSeed%224))
		}
		if r.BitLen() > 256 {
			r = new(big.Int).Sub(new(big.Int).Lsh(big.NewInt(1), 256), big.NewInt(1))
		}
		radius := leBytes(r)
		payload := buildPayload(typ, radius, op.Corrupt)
		inTable := present[id]
		switch op.Via {
		case "ping":
			msg, _ := (&portalwire.Ping{EnrSeq: enrSeq, PayloadType: typ, Payload: payload}).MarshalSSZ()
			resp := l.P.VerifHandleTalkRequest(n, &net.UDPAddr{IP: n.IP(), Port: n.UDP()}, append([]byte{portalwire.PING}, msg...))
			if len(resp) > 0 {
				if resp[0] != portalwire.PONG {
					return fmt.Errorf("op %d: reply to a PING is not a PONG: %x", k, clip(resp))
				}
				var pong portalwire.Pong
				if err := pong.UnmarshalSSZ(resp[1:]); err != nil {
					return fmt.Errorf("op %d: PONG does not decode: %v", k, err)
				}
				if pong.EnrSeq != l.Node().Seq() {
					return fmt.Errorf("op %d: PONG carries enr seq %d, local record has %d", k, pong.EnrSeq, l.Node().Seq())
				}
				// the pong must carry the store's current radius in the answered extension
				if carries && !op.Corrupt {
					gotR, err := pingext.GetDataRadiusByType(pong.PayloadType, pong.Payload)
					if pong.PayloadType != typ || err != nil || !bytes.Equal(gotR, leBytes(l.Store.Radius().ToBig())) {
						return fmt.Errorf("op %d: PONG type %d radius %x (err %v), want type %d and the store radius", k, pong.PayloadType, gotR, err, typ)
					}
				}
			}
			// an inbound contact may have added the node to the table before its payload was processed
			if !inTable {
				refreshPresent()
				inTable = present[id]
			}
		case "pong":
			msg, _ := (&portalwire.Pong{EnrSeq: enrSeq, PayloadType: typ, Payload: payload}).MarshalSSZ()
			_, _, _ = l.P.VerifProcessPong(n, append([]byte{portalwire.PONG}, msg...))
			if !inTable {
				refreshPresent()
				inTable = present[id]
			}
		}
		if carries && !op.Corrupt && inTable {
			if _, had := model[id]; had {
				twice = true
				if enrSeq > 1 {
					c.NT("radius-updated-by-message-announcing-newer-record")
				}
			}
			model[id] = radius
		}
		if op.Via == "ping" {
			outstanding = true
			if op.NoWait {
				c.Class("back-to-back-ping")
				if carries && !op.Corrupt {
					pendingPing[id] = append(pendingPing[id], radius)
				}
				continue // the cache is judged after the next awaited op
			}
		}
		if outstanding {
			pingQuiescent() // every ping processing goroutine (also un-awaited earlier ones) has finished
			outstanding = false
		}
		want, known := model[id]
		got, ok := waitRadius(l.P, id, want, known)
		if (ok != known || (known && !bytes.Equal(got, want))) && ok {
			// known finding D19: pings are processed in un-ordered goroutines, so an earlier ping whose
			// processing was still pending can overwrite a later report
			for _, old := range pendingPing[id] {
				if bytes.Equal(old, got) && pbt.KnownOpen("D19-async-ping-reorder") {
					pbt.HitKnown("C20", "D19-async-ping-reorder")
					model[id] = got // follow the implementation
					want, known = got, true
				}
			}
		}
		delete(pendingPing, id)
		if ok != known || (known && !bytes.Equal(got, want)) {
			return fmt.Errorf("op %d (%s %s radius class %s, node in table: %v): radius cache holds %x (present %v), the last reported radius is %x (present %v)",
				k, op.Via, op.Type, op.RClass, inTable, got, ok, want, known)
		}
	}
	pingQuiescent()
	for id := range pendingPing {
		// un-awaited trailing pings: take whatever the cache settled on if it is one of the reported values
		if got, ok := l.P.VerifRadiusCacheGet(id); ok && !bytes.Equal(got, model[id]) {
			for _, old := range pendingPing[id] {
				if bytes.Equal(old, got) && pbt.KnownOpen("D19-async-ping-reorder") {
					pbt.HitKnown("C20", "D19-async-ping-reorder")
					model[id] = got
				}
			}
			if !bytes.Equal(got, model[id]) {
				return fmt.Errorf("after all pings: radius cache of %x holds %x, the last reported radius is %x", id[:4], got, model[id])
			}
		}
	}
	if twice {
		c.NT("radius-updated-twice")
	}

	// ---- gossip
	var src *enode.ID
	switch p.Source {
	case "intable":
		if len(nodes) > 0 {
			id := nodes[p.SrcIdx%len(nodes)].ID()
			src = &id
		}
	case "notintable":
		id := specNode(self, 9000+p.SrcIdx, tableNodeSpec{Dist: 256, Fill: uint32(p.SrcIdx), IPClass: "public"}).ID()
		src = &id
	case "covered":
		// the content came from a node that would itself be a gossip candidate: a covered table node, at any rank
		var cov []enode.ID
		for _, n := range tab.VerifNodeList() {
			id := n.ID()
			if r, ok := model[id]; ok && leToBig(r).Cmp(xorDist(id[:], contentID)) > 0 {
				cov = append(cov, id)
			}
		}
		sort.Slice(cov, func(i, j int) bool {
			di, dj := enode.LogDist(cov[i], enode.ID(contentID)), enode.LogDist(cov[j], enode.ID(contentID))
			if di != dj {
				return di < dj
			}
			return bytes.Compare(cov[i][:], cov[j][:]) < 0
		})
		if len(cov) > 0 {
			k := p.SrcIdx % len(cov)
			if len(cov) >= 5 && p.SrcIdx%4 != 0 {
				k = 4 + p.SrcIdx%(min(len(cov), 12)-4) // mostly a candidate behind the four closest
			}
			if k < 12 && len(cov) > k {
				id := cov[k]
				src = &id
				if k >= 4 {
					c.NT("source-is-covered-candidate-beyond-the-closest-four")
				}
			}
		}
	}
	before := tab.VerifNodeList()
	got, gerr := l.P.GossipAndReturnPeers(src, keys, contents)
	after := tab.VerifNodeList()
	if len(before) != len(after) {
		stats.For("C20").Count("discarded:table-changed-during-gossip", 1)
		return nil
	}
	if gerr != nil {
		return fmt.Errorf("gossip returned an error: %v", gerr)
	}
	// reference sets
	type cand struct {
		id   enode.ID
		ld   int
		cov  bool
		edge bool // distance == radius: either verdict tolerated
	}
	all := make([]cand, 0, len(before))
	for _, n := range before {
		id := n.ID()
		cd := cand{id: id, ld: enode.LogDist(id, enode.ID(contentID))}
		if r, ok := model[id]; ok {
			switch leToBig(r).Cmp(xorDist(id[:], contentID)) {
			case 1:
				cd.cov = true
			case 0:
				cd.edge = true
			}
		}
		all = append(all, cd)
	}
	lower := func(ld int) int { // nodes strictly closer
		n := 0
		for _, x := range all {
			if x.ld < ld {
				n++
			}
		}
		return n
	}
	upto := func(ld int) int { // nodes at most as far
		n := 0
		for _, x := range all {
			if x.ld <= ld {
				n++
			}
		}
		return n
	}
	possible := map[enode.ID]cand{}
	certain := map[enode.ID]cand{}
	unknownNear := false
	for _, x := range all {
		if lower(x.ld) >= 32 {
			continue
		}
		if _, ok := model[x.id]; !ok {
			unknownNear = true
		}
		if src != nil && x.id == *src {
			continue
		}
		if x.cov || x.edge {
			possible[x.id] = x
		}
		if x.cov && upto(x.ld) <= 32 {
			certain[x.id] = x
		}
	}
	if unknownNear {
		c.NT("unknown-radius-among-nearest-32")
	}
	if len(got) > 8 {
		return fmt.Errorf("gossip went to %d peers, more than 8", len(got))
	}
	inR := map[enode.ID]bool{}
	for _, n := range got {
		id := n.ID()
		if inR[id] {
			return fmt.Errorf("gossip target %x chosen twice", id[:4])
		}
		inR[id] = true
		if src != nil && id == *src {
			return fmt.Errorf("gossip went back to the source %x", id[:4])
		}
		if _, ok := model[id]; !ok {
			return fmt.Errorf("gossip target %x never reported a radius", id[:4])
		}
		if _, ok := possible[id]; !ok {
			return fmt.Errorf("gossip target %x is not a covered node among the 32 nearest (log-distance %d, %d nodes strictly closer)", id[:4],
				enode.LogDist(id, enode.ID(contentID)), lower(enode.LogDist(id, enode.ID(contentID))))
		}
	}
	if len(got) < min(8, len(certain)) {
		return fmt.Errorf("gossip went to %d peers although %d covered nodes are certainly among the 32 nearest", len(got), len(certain))
	}
	// the four closest covered nodes: a certain candidate that at most three possible candidates can precede must be chosen
	for id, y := range certain {
		n := 0
		for _, x := range possible {
			if x.ld <= y.ld {
				n++
			}
		}
		if n <= 4 && !inR[id] {
			return fmt.Errorf("covered node %x (log-distance %d) is among the four closest covered nodes but was not chosen", id[:4], y.ld)
		}
	}
	if len(possible) > 8 {
		c.NT(">8-covered-candidates")
	}
	if len(possible) > 12 && p.NearKey {
		c.NT(">12-covered-candidates-at-distinct-log-distances")
	}
	if p.NearKey {
		for _, x := range all {
			if x.cov && lower(x.ld) >= 32 && (src == nil || x.id != *src) {
				c.NT("covered-node-just-outside-the-32-nearest")
				break
			}
		}
	}
	if src != nil && (p.Source == "intable" || p.Source == "covered") {
		for _, x := range all {
			if x.id == *src && x.cov && lower(x.ld) < 4 {
				c.NT("source-among-closest")
			}
		}
	}
	if len(got) > 0 {
		c.NT("gossip-sent")
	}
	// ---- one queued offer per chosen peer, each with the whole batch
	queued := l.P.VerifOfferQueueTake(2000)
	seenQ := map[enode.ID]bool{}
	for _, o := range queued {
		id := o.Node.ID()
		if !inR[id] || seenQ[id] {
			return fmt.Errorf("queued offer for %x which is not a (distinct) returned gossip target", id[:4])
		}
		seenQ[id] = true
		req, ok := o.Request.Request.(*portalwire.TransientOfferRequest)
		if !ok || o.Request.Kind != portalwire.TransientOfferRequestKind || len(req.Contents) != p.Batch {
			return fmt.Errorf("queued offer does not carry the whole batch of %d items", p.Batch)
		}
		for i := range req.Contents {
			if !bytes.Equal(req.Contents[i].ContentKey, keys[i]) || !bytes.Equal(req.Contents[i].Content, contents[i]) {
				return fmt.Errorf("queued offer item %d differs from the gossiped batch", i)
			}
		}
		o.VerifPermit().Release()
	}
	if len(queued) != len(got) {
		return fmt.Errorf("%d offers queued for %d gossip targets (50 slots, queue capacity %d)", len(queued), len(got), l.P.VerifOfferQueueCap())
	}
	return nil
}

func TestC20_Gossip(t *testing.T) { pbt.Run(t, "C20", "gossip", genC20, runC20) }
