package p_proto

import (
	"encoding/binary"
	"encoding/json"
	"errors"
	"fmt"
	"net"
	"os"
	"path/filepath"
	"strings"
	"sync"
	"testing"
	"time"

	cpebble "github.com/cockroachdb/pebble"
	"github.com/cockroachdb/pebble/vfs"
	"github.com/ethereum/go-ethereum/core/types"
	"github.com/ethereum/go-ethereum/p2p/enode"
	"github.com/ethereum/go-ethereum/rlp"
	"github.com/protolambda/zrnt/eth2/beacon/capella"
	"github.com/protolambda/zrnt/eth2/configs"
	"github.com/zen-eth/shisui/beacon"
	"github.com/zen-eth/shisui/history"
	"github.com/zen-eth/shisui/portalwire"
	"github.com/zen-eth/shisui/state"
	"github.com/zen-eth/shisui/storage"
	"github.com/zen-eth/shisui/storage/pebble"
	thistory "github.com/zen-eth/shisui/types/history"
	"github.com/zen-eth/shisui/validation"
	"pgregory.net/rapid"
	"verifharness/gen"
	"verifharness/model/vmodel"
	"verifharness/pbt"
	"verifharness/pp"
	"verifharness/simnet"
	"verifharness/stats"
)

// ---------------------------------------------------------------------------
// genuine vectors (key, content) per network: seeds for structured mutation

type kv struct{ Key, Value []byte }

var (
	vecOnce sync.Once
	vecs    map[string][]kv
	headers map[string]*types.Header // by block hash
)

func loadVectors() {
	vecs = map[string][]kv{}
	headers = map[string]*types.Header{}
	if hv, err := vmodel.LoadHistoryVectors(); err == nil {
		for _, v := range hv {
			vecs["history"] = append(vecs["history"], kv{v.Key, v.Value})
			if len(v.Key) == 33 && v.Key[0] == 0x00 {
				if hwp, err := thistory.DecodeBlockHeaderWithProof(v.Value); err == nil {
					if h, err := thistory.DecodeBlockHeader(hwp.Header); err == nil {
						headers[string(v.Key[1:])] = h
					}
				}
			}
		}
	}
	if sv, err := vmodel.LoadStateVectors(); err == nil {
		for _, v := range sv {
			vecs["state"] = append(vecs["state"], kv{v.Key, v.Offer}, kv{v.Key, v.Retrieval})
			var h types.Header
			if rlp.DecodeBytes(v.BlockHeader, &h) == nil {
				headers[string(h.Hash().Bytes())] = &h
			}
		}
	}
	files, _ := filepath.Glob(filepath.Join(vmodel.RepoDir(), "beacon/testdata/types/*.json"))
	for _, f := range files {
		b, err := os.ReadFile(f)
		if err != nil {
			continue
		}
		var m map[string]struct {
			ContentKey   string `json:"content_key"`
			ContentValue string `json:"content_value"`
		}
		if json.Unmarshal(b, &m) != nil {
			continue
		}
		for _, e := range m {
			vecs["beacon"] = append(vecs["beacon"], kv{vmodel.MustHex(e.ContentKey), vmodel.MustHex(e.ContentValue)})
		}
	}
}

func vectors(network string) []kv {
	vecOnce.Do(loadVectors)
	return vecs[network]
}

// mockOracle serves the genuine headers; everything else is an error.
type mockOracle struct{}

func (mockOracle) GetHistoricalSummaries(epoch uint64) (capella.HistoricalSummaries, error) {
	return nil, errors.New("no summaries")
}
func (mockOracle) GetBlockHeaderByHash(hash []byte) (*types.Header, error) {
	vecOnce.Do(loadVectors)
	if h, ok := headers[string(hash)]; ok {
		return h, nil
	}
	return nil, errors.New("unknown header")
}
func (mockOracle) GetFinalizedStateRoot() ([]byte, error) { return make([]byte, 32), nil }

// ---------------------------------------------------------------------------
// plan

type c01Step struct {
	Kind    string   // talk, pong, nodes, content, offerresp, stream, utpcontent, validate, put, get
	Sender  int      // index into the sender pool
	Msg     []byte   // talk request / response bytes / stream payload / content
	Key     []byte   // validate / put / get
	Keys    [][]byte // stream: accepted keys
	ReqKind int      // offerresp: 1 transient, 2 persist, 3 transient-with-result
	NKeys   int      // offerresp: keys in our request
}

type c01Plan struct {
	Network string
	Steps   []c01Step
}

var selectors = map[string][]byte{"history": {0, 1, 2, 3, 4, 5}, "beacon": {0x10, 0x11, 0x12, 0x13, 0x14}, "state": {0x20, 0x21, 0x22}}

func genKeyBytes(t *rapid.T, network string) []byte {
	vs := vectors(network)
	sel := selectors[network]
	switch rapid.IntRange(0, 11).Draw(t, "keyClass") {
	case 0:
		return []byte{}
	case 1:
		return []byte{rapid.SampledFrom(sel).Draw(t, "sel")}
	case 2:
		return append([]byte{rapid.SampledFrom(sel).Draw(t, "sel")}, rapid.SliceOfN(rapid.Byte(), 1, 9).Draw(t, "short")...)
	case 3:
		return append([]byte{rapid.Byte().Draw(t, "anysel")}, rapid.SliceOfN(rapid.Byte(), 0, 40).Draw(t, "body")...)
	case 4:
		return append([]byte{rapid.SampledFrom(sel).Draw(t, "sel")}, rapid.SliceOfN(rapid.Byte(), 32, 32).Draw(t, "h32")...)
	case 5:
		n := rapid.SampledFrom([]int{8, 16, 33, 64, 65, 98, 2047}).Draw(t, "klen")
		return append([]byte{rapid.SampledFrom(sel).Draw(t, "sel")}, rapid.SliceOfN(rapid.Byte(), n, n).Draw(t, "kbody")...)
	case 6: // genuine key with another selector of the same network
		if len(vs) > 0 {
			k := append([]byte{}, vs[rapid.IntRange(0, len(vs)-1).Draw(t, "vk")].Key...)
			if len(k) > 0 {
				k[0] = rapid.SampledFrom(sel).Draw(t, "sel")
			}
			return k
		}
	case 7: // mutated genuine key
		if len(vs) > 0 {
			k := append([]byte{}, vs[rapid.IntRange(0, len(vs)-1).Draw(t, "vk")].Key...)
			return mutateBytes(t, k)
		}
	}
	if len(vs) > 0 {
		return append([]byte{}, vs[rapid.IntRange(0, len(vs)-1).Draw(t, "vk")].Key...)
	}
	return append([]byte{sel[0]}, rapid.SliceOfN(rapid.Byte(), 32, 32).Draw(t, "h32")...)
}

func mutateBytes(t *rapid.T, b []byte) []byte {
	d := append([]byte{}, b...)
	switch rapid.IntRange(0, 7).Draw(t, "mut") {
	case 0:
		if len(d) > 0 {
			d[rapid.IntRange(0, len(d)-1).Draw(t, "pos")] ^= 1 << uint(rapid.IntRange(0, 7).Draw(t, "bit"))
		}
	case 1:
		if len(d) > 0 {
			d = d[:rapid.IntRange(0, len(d)-1).Draw(t, "cut")]
		}
	case 2:
		d = append(d, rapid.SliceOfN(rapid.Byte(), 1, 9).Draw(t, "tail")...)
	case 3:
		if len(d) >= 4 {
			hi := len(d) - 4
			if hi > 200 {
				hi = 200
			}
			i := rapid.IntRange(0, hi).Draw(t, "opos")
			v := binary.LittleEndian.Uint32(d[i:])
			v += uint32(rapid.SampledFrom([]int{1, -1, 4, -4, 0x100, 1 << 20}).Draw(t, "delta"))
			if rapid.IntRange(0, 3).Draw(t, "zero") == 0 {
				v = uint32(rapid.SampledFrom([]int{0, len(d), len(d) + 1, 0xffffffff}).Draw(t, "abs"))
			}
			binary.LittleEndian.PutUint32(d[i:], v)
		}
	case 4:
		if len(d) >= 8 { // a 64-bit field (slot, period, count): boundary values
			hi := len(d) - 8
			if hi > 300 {
				hi = 300
			}
			i := rapid.IntRange(0, hi).Draw(t, "fpos")
			binary.LittleEndian.PutUint64(d[i:], rapid.SampledFrom([]uint64{0, 1, 8191, 8192, 6209536 - 1, 6209536, 1 << 40, 1<<63 - 1, 1<<64 - 1}).Draw(t, "fval"))
		}
	case 5:
		if len(d) > 0 {
			i := rapid.IntRange(0, len(d)-1).Draw(t, "pos")
			d[i] = rapid.SampledFrom([]byte{0, 0xff, 0x80, 1}).Draw(t, "val")
		}
	}
	return d
}

func genContentBytes(t *rapid.T, network string) []byte {
	vs := vectors(network)
	switch rapid.IntRange(0, 6).Draw(t, "contentClass") {
	case 0:
		return []byte{}
	case 1:
		n := rapid.SampledFrom([]int{1, 2, 3, 4, 5, 8, 33, 100}).Draw(t, "clen")
		return rapid.SliceOfN(rapid.Byte(), n, n).Draw(t, "craw")
	case 2, 3, 4:
		if len(vs) > 0 {
			return mutateBytes(t, vs[rapid.IntRange(0, len(vs)-1).Draw(t, "vc")].Value)
		}
	}
	if len(vs) > 0 {
		return append([]byte{}, vs[rapid.IntRange(0, len(vs)-1).Draw(t, "vc")].Value...)
	}
	return rapid.SliceOfN(rapid.Byte(), 0, 64).Draw(t, "craw")
}

// hostilePrefix is a length prefix at the edges of 32-bit arithmetic followed by a few bytes.
func hostilePrefix(t *rapid.T) []byte {
	p := rapid.SampledFrom([][]byte{
		{0xff, 0xff, 0xff, 0xff, 0x0f}, {0xfe, 0xff, 0xff, 0xff, 0x0f}, {0xfb, 0xff, 0xff, 0xff, 0x0f}, {0xfa, 0xff, 0xff, 0xff, 0x0f},
		{0xff, 0xff, 0xff, 0xff, 0x07}, {0x80, 0x80, 0x80, 0x80, 0x08}, {0x83, 0x80, 0x80, 0x80, 0x10}, {0x80, 0x80, 0x80, 0x80, 0x10},
		{0xff, 0xff, 0xff, 0xff, 0x7f}, {0x83, 0x80, 0x80, 0x80, 0x80, 0x00}, {0x80, 0x80, 0x80, 0x80, 0x80, 0x80, 0x80, 0x80, 0x80, 0x01},
		{0x80}, {0xff, 0xff}, {0x05}, {0x80, 0x00},
	}).Draw(t, "prefix")
	return append(append([]byte{}, p...), rapid.SliceOfN(rapid.Byte(), 0, 12).Draw(t, "after")...)
}

func genKV(t *rapid.T, network string) ([]byte, []byte) {
	vs := vectors(network)
	if len(vs) > 0 && rapid.IntRange(0, 2).Draw(t, "paired") != 0 {
		v := vs[rapid.IntRange(0, len(vs)-1).Draw(t, "pair")]
		k, c := append([]byte{}, v.Key...), append([]byte{}, v.Value...)
		switch rapid.IntRange(0, 3).Draw(t, "which") {
		case 0:
			k = mutateBytes(t, k)
		case 1, 2:
			c = mutateBytes(t, c)
		}
		return k, c
	}
	return genKeyBytes(t, network), genContentBytes(t, network)
}

func sszOr(b []byte, err error) []byte {
	if err != nil {
		return nil
	}
	return b
}

func genRadiusPayload(t *rapid.T) (uint16, []byte) {
	typ := rapid.SampledFrom([]uint16{0, 1, 2, 65535, 3, 7777}).Draw(t, "ptype")
	r := rapid.SliceOfN(rapid.Byte(), 32, 32).Draw(t, "radius")
	return typ, buildPayload(typ, r, rapid.IntRange(0, 5).Draw(t, "corrupt") == 0)
}

func genTalk(t *rapid.T, network string) []byte {
	code := rapid.SampledFrom([]byte{portalwire.PING, portalwire.FINDNODES, portalwire.FINDCONTENT, portalwire.OFFER,
		portalwire.PING, portalwire.FINDNODES, portalwire.FINDCONTENT, portalwire.OFFER, portalwire.PONG, portalwire.NODES, portalwire.CONTENT, portalwire.ACCEPT, 8, 0xff}).Draw(t, "code")
	var body []byte
	switch code {
	case portalwire.PING, portalwire.PONG:
		typ, pl := genRadiusPayload(t)
		if rapid.IntRange(0, 9).Draw(t, "bigpl") == 0 {
			pl = make([]byte, rapid.SampledFrom([]int{1100, 1101, 1200}).Draw(t, "pllen"))
		}
		body = sszOr((&portalwire.Ping{EnrSeq: rapid.SampledFrom([]uint64{0, 1, 2, 1 << 63}).Draw(t, "seq"), PayloadType: typ, Payload: pl}).MarshalSSZ())
	case portalwire.FINDNODES:
		body = sszOr(encodeFindNodes(genDistances(t)).MarshalSSZ())
	case portalwire.FINDCONTENT:
		body = sszOr((&portalwire.FindContent{ContentKey: genKeyBytes(t, network)}).MarshalSSZ())
	case portalwire.OFFER:
		n := rapid.SampledFrom([]int{0, 1, 1, 2, 5, 64}).Draw(t, "nk")
		keys := make([][]byte, n)
		for i := range keys {
			keys[i] = genKeyBytes(t, network)
		}
		body = sszOr((&portalwire.Offer{ContentKeys: keys}).MarshalSSZ())
	default:
		body = rapid.SliceOfN(rapid.Byte(), 0, 40).Draw(t, "body")
	}
	switch rapid.IntRange(0, 9).Draw(t, "shape") {
	case 0:
		return []byte{} // zero-length TALKREQ
	case 1:
		return []byte{code}
	case 2:
		return append([]byte{code}, rapid.SliceOfN(rapid.Byte(), 1, 3).Draw(t, "tiny")...)
	case 3, 4:
		return append([]byte{code}, mutateBytes(t, body)...)
	case 5:
		n := rapid.SampledFrom([]int{4, 5, 13, 14, 15, 1180, 1279}).Draw(t, "rawn")
		return append([]byte{code}, rapid.SliceOfN(rapid.Byte(), n, n).Draw(t, "raw")...)
	}
	return append([]byte{code}, body...)
}

func genResp(t *rapid.T, network, kind string) []byte {
	var code byte
	var body []byte
	switch kind {
	case "pong":
		code = portalwire.PONG
		typ, pl := genRadiusPayload(t)
		body = sszOr((&portalwire.Pong{EnrSeq: rapid.SampledFrom([]uint64{0, 1, 5}).Draw(t, "seq"), PayloadType: typ, Payload: pl}).MarshalSSZ())
	case "nodes":
		code = portalwire.NODES
		n := rapid.IntRange(0, 5).Draw(t, "nenr")
		enrs := make([][]byte, n)
		for i := range enrs {
			if rapid.Bool().Draw(t, "validenr") {
				enrs[i] = mustRLP(gen.SignedNode(gen.NodeOpts{KeyIdx: 200 + i, Seq: 1, IP: net.IP{33, 1, 2, byte(i + 1)}, UDP: 9000}).Record())
			} else {
				enrs[i] = rapid.SliceOfN(rapid.Byte(), 0, 30).Draw(t, "garbage")
			}
		}
		body = sszOr((&portalwire.Nodes{Total: rapid.Byte().Draw(t, "total"), Enrs: enrs}).MarshalSSZ())
	case "content":
		code = portalwire.CONTENT
		sel := rapid.SampledFrom([]byte{0, 1, 2, 3, 0xff}).Draw(t, "csel")
		switch sel {
		case 0:
			body = append([]byte{sel}, rapid.SliceOfN(rapid.Byte(), 0, 4).Draw(t, "cid")...)
		case 1:
			body = append([]byte{sel}, genContentBytes(t, network)...)
			if len(body) > 1200 {
				body = body[:1200]
			}
		default:
			body = append([]byte{sel}, rapid.SliceOfN(rapid.Byte(), 0, 40).Draw(t, "cbody")...)
		}
		if rapid.IntRange(0, 5).Draw(t, "nosel") == 0 {
			body = nil // a CONTENT reply without even the selector byte
		}
	case "offerresp":
		code = portalwire.ACCEPT
		nbits := rapid.SampledFrom([]int{0, 1, 2, 5, 8, 64, 65}).Draw(t, "nbits")
		if rapid.Bool().Draw(t, "v1") {
			codes := rapid.SliceOfN(rapid.ByteRange(0, 7), nbits, nbits).Draw(t, "codes")
			body = sszOr((&portalwire.AcceptV1{ConnectionId: []byte{1, 2}, ContentKeys: codes}).MarshalSSZ())
		} else {
			bl := make([]byte, nbits/8+1)
			for i := 0; i < nbits; i++ {
				if rapid.Bool().Draw(t, "bit") {
					bl[i/8] |= 1 << uint(i%8)
				}
			}
			bl[nbits/8] |= 1 << uint(nbits%8)
			body = sszOr((&portalwire.Accept{ConnectionId: []byte{1, 2}, ContentKeys: bl}).MarshalSSZ())
		}
	}
	switch rapid.IntRange(0, 9).Draw(t, "rshape") {
	case 0:
		return []byte{}
	case 1:
		return []byte{code}
	case 2:
		return []byte{rapid.Byte().Draw(t, "othercode")}
	case 3, 4:
		return append([]byte{code}, mutateBytes(t, body)...)
	}
	return append([]byte{code}, body...)
}

func genC01(t *rapid.T) c01Plan {
	network := rapid.SampledFrom([]string{"history", "beacon", "state"}).Draw(t, "network")
	n := rapid.IntRange(1, 30).Draw(t, "steps")
	steps := make([]c01Step, n)
	for i := range steps {
		kind := rapid.SampledFrom([]string{"talk", "talk", "talk", "talk", "pong", "nodes", "content", "offerresp", "stream", "utpcontent", "validate", "validate", "put", "put", "get", "ephemeral"}).Draw(t, "kind")
		s := c01Step{Kind: kind, Sender: rapid.IntRange(0, 4).Draw(t, "sender")}
		switch kind {
		case "talk":
			s.Msg = genTalk(t, network)
		case "pong", "nodes", "content":
			s.Msg = genResp(t, network, kind)
		case "offerresp":
			s.Msg = genResp(t, network, kind)
			s.ReqKind = rapid.IntRange(1, 3).Draw(t, "reqkind")
			s.NKeys = rapid.SampledFrom([]int{1, 2, 5, 8, 64}).Draw(t, "reqkeys")
		case "stream":
			nk := rapid.IntRange(0, 4).Draw(t, "sk")
			var items [][]byte
			for k := 0; k < nk; k++ {
				s.Keys = append(s.Keys, genKeyBytes(t, network))
				items = append(items, genContentBytes(t, network))
			}
			s.Msg = portalwire.VerifEncodeContents(items)
			switch rapid.IntRange(0, 3).Draw(t, "smut") {
			case 0:
				s.Msg = mutateBytes(t, s.Msg)
			case 1:
				s.Msg = append(s.Msg, hostilePrefix(t)...)
			}
		case "utpcontent":
			if rapid.Bool().Draw(t, "hostile") {
				s.Msg = hostilePrefix(t)
			} else {
				s.Msg = mutateBytes(t, portalwire.VerifEncodeSingleContent(genContentBytes(t, network)))
			}
		case "validate", "put":
			s.Key, s.Msg = genKV(t, network)
		case "get":
			s.Key = genKeyBytes(t, network)
		case "ephemeral":
			// two steps that belong together (history network): something is stored under a 32-byte key of the
			// ephemeral-header kind - the store RPC writes whatever it is given - and then a peer asks for the
			// ephemeral headers of the "block hash" that those 32 bytes are
			s.Key = append([]byte{0x05}, rapid.SliceOfN(rapid.Byte(), 31, 31).Draw(t, "ehash")...)
			s.Msg = rapid.SliceOfN(rapid.Byte(), 0, 9).Draw(t, "evalue")
			if rapid.IntRange(0, 3).Draw(t, "e8") == 0 {
				s.Msg = rapid.SliceOfN(rapid.Byte(), 8, 8).Draw(t, "evalue8")
			}
			s.NKeys = rapid.SampledFrom([]int{0, 0, 1, 5, 255}).Draw(t, "ancestors")
		}
		steps[i] = s
	}
	return c01Plan{Network: network, Steps: steps}
}

// ---------------------------------------------------------------------------
// execution

type c01Env struct {
	live      *pp.Live
	validator validation.Validator
	senders   []*enode.Node
	dbs       []*cpebble.DB
}

func memDB() *cpebble.DB {
	db, err := cpebble.Open("", &cpebble.Options{FS: vfs.NewMem()})
	if err != nil {
		panic(err)
	}
	return db
}

func newC01Env(network string, hub *simnet.Hub) (*c01Env, error) {
	env := &c01Env{}
	id := enode.PubkeyToIDV4(&gen.Key(101).PublicKey)
	cfg := storage.PortalStorageConfig{StorageCapacityMB: 100, NodeId: id, NetworkName: network, Spec: configs.Mainnet}
	var st storage.ContentStorage
	var proto portalwire.ProtocolId
	switch network {
	case "history":
		proto = portalwire.History
		db1, db2 := memDB(), memDB()
		env.dbs = []*cpebble.DB{db1, db2}
		eternal, err := pebble.NewStorage(cfg, db1)
		if err != nil {
			return nil, err
		}
		st, err = history.NewHistoryStorage(eternal, history.NewEphemeralStorage(cfg, db2))
		if err != nil {
			return nil, err
		}
		env.validator = history.NewHistoryValidator(mockOracle{})
	case "beacon":
		proto = portalwire.Beacon
		db := memDB()
		env.dbs = []*cpebble.DB{db}
		var err error
		st, err = beacon.NewBeaconStorage(cfg, db)
		if err != nil {
			return nil, err
		}
		env.validator = beacon.NewBeaconValidator(mockOracle{}, configs.Mainnet)
	default:
		proto = portalwire.State
		db := memDB()
		env.dbs = []*cpebble.DB{db}
		inner, err := pebble.NewStorage(cfg, db)
		if err != nil {
			return nil, err
		}
		st = state.NewStateStorage(inner, db)
		env.validator = state.NewStateValidator(mockOracle{})
	}
	l, err := pp.NewLive(hub, pp.LiveOpts{KeyIdx: 101, Port: nextPort(), Versions: []byte{0, 1}, Storage: st, UtpFast: true, RespTimeout: 80 * time.Millisecond, Proto: proto})
	if err != nil {
		return nil, err
	}
	env.live = l
	env.senders = []*enode.Node{
		gen.SignedNode(gen.NodeOpts{KeyIdx: 111, Seq: 1, IP: net.IP{127, 0, 0, 1}, UDP: 30111, Versions: []byte{0}}),
		gen.SignedNode(gen.NodeOpts{KeyIdx: 112, Seq: 1, IP: net.IP{10, 1, 1, 1}, UDP: 30112, Versions: []byte{1}}),
		gen.SignedNode(gen.NodeOpts{KeyIdx: 113, Seq: 1, IP: net.IP{44, 3, 2, 1}, UDP: 30113, Versions: []byte{0, 1}}),
		gen.SignedNode(gen.NodeOpts{KeyIdx: 114, Seq: 1, IP: net.IP{44, 3, 2, 2}, UDP: 30114}), // no version entry
		l.Node(), // the node itself as claimed sender
	}
	return env, nil
}

func (e *c01Env) close() {
	e.live.Stop()
}

var respCode = map[byte]byte{portalwire.PING: portalwire.PONG, portalwire.FINDNODES: portalwire.NODES, portalwire.FINDCONTENT: portalwire.CONTENT, portalwire.OFFER: portalwire.ACCEPT}

// wellFormedReply: a non-empty reply must be the matching response message and decode.
func wellFormedReply(req, reply []byte) error {
	if len(reply) == 0 {
		return nil
	}
	if len(req) == 0 {
		return fmt.Errorf("reply %x to an empty request", clip(reply))
	}
	want, ok := respCode[req[0]]
	if !ok {
		return fmt.Errorf("non-empty reply %x to message code %d which is not a request", clip(reply), req[0])
	}
	if reply[0] != want {
		return fmt.Errorf("reply code %d to request code %d", reply[0], req[0])
	}
	var err error
	switch want {
	case portalwire.PONG:
		err = (&portalwire.Pong{}).UnmarshalSSZ(reply[1:])
	case portalwire.NODES:
		err = (&portalwire.Nodes{}).UnmarshalSSZ(reply[1:])
	case portalwire.CONTENT:
		if len(reply) < 2 {
			return fmt.Errorf("CONTENT reply without selector")
		}
		switch reply[1] {
		case portalwire.ContentConnIdSelector:
			err = (&portalwire.ConnectionId{}).UnmarshalSSZ(reply[2:])
		case portalwire.ContentRawSelector:
			err = (&portalwire.Content{}).UnmarshalSSZ(reply[2:])
		case portalwire.ContentEnrsSelector:
			err = (&portalwire.Enrs{}).UnmarshalSSZ(reply[2:])
		default:
			err = fmt.Errorf("unknown selector %d", reply[1])
		}
	case portalwire.ACCEPT:
		if (&portalwire.Accept{}).UnmarshalSSZ(reply[1:]) != nil && (&portalwire.AcceptV1{}).UnmarshalSSZ(reply[1:]) != nil {
			err = fmt.Errorf("neither accept encoding decodes")
		}
	}
	if err != nil {
		return fmt.Errorf("reply to request code %d is malformed: %v (%x)", req[0], err, clip(reply))
	}
	if len(reply) > maxTalkRespBody {
		return fmt.Errorf("reply of %d bytes does not fit one packet", len(reply))
	}
	return nil
}

func (e *c01Env) step(s c01Step, c *stats.Case) error {
	p := e.live.P
	sender := e.senders[s.Sender%len(e.senders)]
	addr := &net.UDPAddr{IP: sender.IP(), Port: sender.UDP()}
	switch s.Kind {
	case "talk":
		reply := p.VerifHandleTalkRequest(sender, addr, s.Msg)
		if len(s.Msg) <= 2 {
			c.NT("talk:len<=2")
		}
		if len(reply) > 0 {
			c.NT("talk:answered")
		}
		return wellFormedReply(s.Msg, reply)
	case "pong":
		_, _, err := p.VerifProcessPong(sender, s.Msg)
		markResp(c, "pong", s.Msg, err)
	case "nodes":
		_, err := p.VerifProcessNodes(sender, s.Msg, []uint{256, 255, 254})
		markResp(c, "nodes", s.Msg, err)
	case "content":
		_, _, err := p.VerifProcessContent(sender, s.Msg)
		markResp(c, "content", s.Msg, err)
	case "offerresp":
		entries := make([]*portalwire.ContentEntry, s.NKeys)
		keys := make([][]byte, s.NKeys)
		for i := range entries {
			keys[i] = contentKey(i)
			entries[i] = &portalwire.ContentEntry{ContentKey: keys[i], Content: []byte("x")}
		}
		var req *portalwire.OfferRequest
		switch s.ReqKind {
		case 1:
			req = &portalwire.OfferRequest{Kind: portalwire.TransientOfferRequestKind, Request: &portalwire.TransientOfferRequest{Contents: entries}}
		case 2:
			req = &portalwire.OfferRequest{Kind: portalwire.PersistOfferRequestKind, Request: &portalwire.PersistOfferRequest{ContentKeys: keys}}
		default:
			req = &portalwire.OfferRequest{Kind: portalwire.TransientOfferRequestWithResultKind,
				Request: &portalwire.TransientOfferRequestWithResult{Content: entries[0], Result: make(chan *portalwire.OfferTrace, 4)}}
		}
		_, err := p.VerifProcessOffer(sender, s.Msg, req, &portalwire.NoPermit{})
		markResp(c, "offerresp", s.Msg, err)
	case "stream":
		err := p.VerifHandleOfferedContents(sender.ID(), s.Keys, s.Msg)
		if err == nil {
			c.NT("stream:queued")
			select {
			case <-e.live.Queue:
			default:
			}
		} else {
			c.Class("stream:rejected")
		}
	case "utpcontent":
		_, err := p.VerifDecodeUtpContent(sender, s.Msg)
		if err == nil {
			c.Class("utpcontent:ok")
		}
	case "validate":
		err := e.validator.ValidateContent(s.Key, s.Msg)
		if err == nil {
			c.NT("validate:accepted")
		} else {
			c.Class("validate:rejected")
		}
		if len(s.Key) <= 1 {
			c.NT("validate:key-len<=1")
		}
	case "put":
		err := e.live.Store.Put(s.Key, p.ToContentId(s.Key), s.Msg)
		if err == nil {
			c.NT("put:ok")
		} else {
			c.Class("put:error")
		}
	case "ephemeral":
		_ = e.live.Store.Put(s.Key, p.ToContentId(s.Key), s.Msg)
		ask := append(append([]byte{0x05}, s.Key...), byte(s.NKeys))
		if _, err := e.live.Store.Get(ask, p.ToContentId(ask)); err == nil {
			c.Class("ephemeral:found")
		}
		body, _ := (&portalwire.FindContent{ContentKey: ask}).MarshalSSZ()
		req := append([]byte{portalwire.FINDCONTENT}, body...)
		reply := p.VerifHandleTalkRequest(sender, addr, req)
		c.NT("ephemeral:stored-then-asked")
		return wellFormedReply(req, reply)
	case "get":
		v, err := e.live.Store.Get(s.Key, p.ToContentId(s.Key))
		if err == nil {
			c.Class("get:found")
			if v == nil {
				c.Class("get:nil-without-error")
			}
		}
		if len(s.Key) <= 1 {
			c.NT("get:key-len<=1")
		}
	}
	return nil
}

func markResp(c *stats.Case, kind string, msg []byte, err error) {
	if len(msg) <= 2 {
		c.NT(kind + ":len<=2")
	}
	if err == nil {
		c.NT(kind + ":processed")
	} else {
		c.Class(kind + ":error")
	}
}

// walWrite saves the plan before it runs: if a goroutine nobody recovers panics, the process dies and the
// driver turns this file into the replay.
func walWrite(p c01Plan) {
	dir := os.Getenv("VERIF_WORK")
	if dir == "" {
		return
	}
	b, err := json.Marshal(map[string]any{"property": "C01", "check": "surfaces", "error": "process died while this plan was executing", "plan": p})
	if err != nil {
		return
	}
	_ = os.WriteFile(filepath.Join(dir, fmt.Sprintf("wal-%d.json", os.Getpid())), b, 0o644)
}

func runC01(p c01Plan, c *stats.Case) error {
	walWrite(p)
	hub := simnet.NewHub()
	env, err := newC01Env(p.Network, hub)
	if err != nil {
		return fmt.Errorf("harness: %v", err)
	}
	defer env.close()
	c.Class("net:" + p.Network)
	for i, s := range p.Steps {
		done := make(chan error, 1)
		go func() {
			done <- pbt.SafeCall(func() error { return env.step(s, c) })
		}()
		select {
		case err := <-done:
			if err != nil {
				if os.Getenv("VERIF_C01_COLLECT") != "" { // diagnosis aid: list every distinct crash site instead of stopping at the first
					collectSite(s.Kind, p.Network, err.Error())
					continue
				}
				return fmt.Errorf("step %d (%s, network %s): %v", i, s.Kind, p.Network, err)
			}
		case <-time.After(60 * time.Second):
			stats.For("C01").Count("inconclusive:step-did-not-return-in-60s:"+s.Kind, 1)
			return nil
		}
	}
	// the node must still answer a well-formed PING
	typ, pl := uint16(0), buildPayload(0, make([]byte, 32), false)
	msg, _ := (&portalwire.Ping{EnrSeq: 1, PayloadType: typ, Payload: pl}).MarshalSSZ()
	reply := env.live.P.VerifHandleTalkRequest(env.senders[2], &net.UDPAddr{IP: env.senders[2].IP(), Port: env.senders[2].UDP()}, append([]byte{portalwire.PING}, msg...))
	if len(reply) == 0 || reply[0] != portalwire.PONG {
		return fmt.Errorf("after the sequence the node no longer answers a well-formed PING (reply %x)", clip(reply))
	}
	return nil
}

func TestC01_Surfaces(t *testing.T) { pbt.Run(t, "C01", "surfaces", genC01, runC01) }

var (
	siteMu sync.Mutex
	sites  = map[string]int{}
)

func collectSite(kind, network, msg string) {
	site := "?"
	for _, line := range strings.Split(msg, "\n") {
		line = strings.TrimSpace(line)
		if strings.HasPrefix(line, vmodel.RepoDir()+"/") && !strings.Contains(line, "verif_export.go") {
			site = strings.Fields(line)[0]
			break
		}
	}
	first := msg
	if i := strings.IndexByte(first, '\n'); i >= 0 {
		first = first[:i]
	}
	siteMu.Lock()
	defer siteMu.Unlock()
	key := kind + " " + network + " " + site + " " + first
	if sites[key] == 0 {
		fmt.Println("CRASH-SITE", key)
	}
	sites[key]++
}

// ---------------------------------------------------------------------------
// C01 black box: the same kinds of bytes as real TALKREQ packets over the simulated network, on the
// portal protocol id and on the uTP channel; afterwards the node must still answer a PING sent the same way.

type wirePacket struct {
	Utp bool
	Msg []byte
}

type c01Wire struct {
	Network string
	Packets []wirePacket
}

func genUtpPacket(t *rapid.T) []byte {
	switch rapid.IntRange(0, 5).Draw(t, "utpClass") {
	case 0:
		return rapid.SliceOfN(rapid.Byte(), 0, 19).Draw(t, "short")
	case 1:
		return rapid.SliceOfN(rapid.Byte(), 20, 60).Draw(t, "rand")
	}
	h := make([]byte, 20)
	typ := rapid.SampledFrom([]byte{0, 1, 2, 3, 4, 5, 15}).Draw(t, "ptype")
	ver := rapid.SampledFrom([]byte{1, 1, 1, 0, 2}).Draw(t, "ver")
	h[0] = typ<<4 | ver
	h[1] = rapid.SampledFrom([]byte{0, 0, 1, 1, 2, 0xff}).Draw(t, "ext")
	binary.BigEndian.PutUint16(h[2:], rapid.Uint16().Draw(t, "cid"))
	binary.BigEndian.PutUint32(h[4:], rapid.Uint32().Draw(t, "ts"))
	binary.BigEndian.PutUint32(h[8:], rapid.Uint32().Draw(t, "tsd"))
	binary.BigEndian.PutUint32(h[12:], rapid.SampledFrom([]uint32{0, 1, 1 << 20, 0xffffffff}).Draw(t, "wnd"))
	binary.BigEndian.PutUint16(h[16:], rapid.Uint16().Draw(t, "seq"))
	binary.BigEndian.PutUint16(h[18:], rapid.Uint16().Draw(t, "ack"))
	if h[1] != 0 { // extension header: next extension, length, bitmask
		l := rapid.SampledFrom([]byte{0, 1, 3, 4, 8, 32, 255}).Draw(t, "extlen")
		have := rapid.IntRange(0, 40).Draw(t, "exthave")
		h = append(h, rapid.SampledFrom([]byte{0, 1, 7}).Draw(t, "nextext"), l)
		h = append(h, rapid.SliceOfN(rapid.Byte(), have, have).Draw(t, "extbody")...)
	}
	return append(h, rapid.SliceOfN(rapid.Byte(), 0, 64).Draw(t, "payload")...)
}

func genC01Wire(t *rapid.T) c01Wire {
	network := rapid.SampledFrom([]string{"history", "beacon", "state"}).Draw(t, "network")
	n := rapid.IntRange(1, 25).Draw(t, "npk")
	pk := make([]wirePacket, n)
	for i := range pk {
		if rapid.Bool().Draw(t, "utp") {
			pk[i] = wirePacket{Utp: true, Msg: genUtpPacket(t)}
		} else {
			pk[i] = wirePacket{Msg: genTalk(t, network)}
		}
	}
	return c01Wire{Network: network, Packets: pk}
}

func runC01Wire(p c01Wire, c *stats.Case) error {
	b, _ := json.Marshal(map[string]any{"property": "C01", "check": "wire", "error": "process died while this plan was executing", "plan": p})
	if dir := os.Getenv("VERIF_WORK"); dir != "" {
		_ = os.WriteFile(filepath.Join(dir, fmt.Sprintf("wal-%d.json", os.Getpid())), b, 0o644)
	}
	hub := simnet.NewHub()
	env, err := newC01Env(p.Network, hub)
	if err != nil {
		return fmt.Errorf("harness: %v", err)
	}
	defer env.close()
	s, err := pp.NewScripted(hub, 121, net.IP{127, 0, 0, 1}, nextPort(), []byte{0, 1}, 300*time.Millisecond)
	if err != nil {
		return fmt.Errorf("harness: %v", err)
	}
	defer s.Stop()
	proto := string(portalwire.History)
	switch p.Network {
	case "beacon":
		proto = string(portalwire.Beacon)
	case "state":
		proto = string(portalwire.State)
	}
	c.Class("net:" + p.Network)
	for _, pk := range p.Packets {
		if pk.Utp {
			_, _ = s.Disc.TalkRequest(env.live.Node(), string(portalwire.Utp), pk.Msg)
			c.NT("wire:utp-packet")
		} else {
			resp, err := s.Disc.TalkRequest(env.live.Node(), proto, pk.Msg)
			if err == nil {
				if werr := wellFormedReply(pk.Msg, resp); werr != nil {
					return fmt.Errorf("over the wire: %v", werr)
				}
				c.NT("wire:portal-packet")
			}
		}
	}
	msg, _ := (&portalwire.Ping{EnrSeq: 1, PayloadType: 0, Payload: buildPayload(0, make([]byte, 32), false)}).MarshalSSZ()
	for attempt := 0; attempt < 3; attempt++ {
		resp, err := s.Disc.TalkRequest(env.live.Node(), proto, append([]byte{portalwire.PING}, msg...))
		if err == nil && len(resp) > 0 && resp[0] == portalwire.PONG {
			return nil
		}
	}
	return fmt.Errorf("after %d packets the node no longer answers a well-formed PING over the network", len(p.Packets))
}

func TestC01_Wire(t *testing.T) { pbt.Run(t, "C01", "wire", genC01Wire, runC01Wire) }

// FuzzC01Talk: coverage-guided variant of the talk-handler surface (thorough tier). First byte: network and sender.
func FuzzC01Talk(f *testing.F) {
	for _, m := range [][]byte{{}, {0}, {4, 4, 0, 0, 0}, {6, 4, 0, 0, 0}, {2, 4, 0, 0, 0, 0, 1}, {0, 1, 0, 0, 0, 0, 0, 0, 0, 0, 0, 14, 0, 0, 0}} {
		for n := byte(0); n < 3; n++ {
			f.Add(append([]byte{n}, m...))
		}
	}
	envs := map[string]*c01Env{}
	f.Fuzz(func(t *testing.T, data []byte) {
		if len(data) == 0 {
			return
		}
		network := []string{"history", "beacon", "state"}[int(data[0])%3]
		env := envs[network]
		if env == nil {
			var err error
			env, err = newC01Env(network, simnet.NewHub())
			if err != nil {
				t.Skip()
			}
			envs[network] = env
		}
		sender := env.senders[int(data[0]/3)%len(env.senders)]
		msg := data[1:]
		reply := env.live.P.VerifHandleTalkRequest(sender, &net.UDPAddr{IP: sender.IP(), Port: sender.UDP()}, msg)
		if err := wellFormedReply(msg, reply); err != nil {
			t.Fatal(err)
		}
	})
}
