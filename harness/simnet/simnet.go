// Package simnet is an in-process replacement for UDP sockets: a hub that
// implements discover.UDPConn for any number of endpoints, records the size of
// every datagram (ground truth for "fits in one discv5 packet") and applies a
// deterministic, plan-driven fault policy per link (drop / duplicate / swap).
package simnet

import (
	"errors"
	"net"
	"net/netip"
	"sync"
	"sync/atomic"
)

type packet struct {
	data []byte
	from netip.AddrPort
}

// Policy describes deterministic link faults: every Nth datagram on a directed
// link is dropped / duplicated / swapped with its successor. 0 disables.
type Policy struct {
	DropEvery int
	DupEvery  int
	SwapEvery int
	// SkipFirst datagrams of every link are delivered untouched (lets the discv5
	// handshake through so that faults hit the payload traffic).
	SkipFirst int
}

func (p Policy) Clean() bool { return p.DropEvery == 0 && p.DupEvery == 0 && p.SwapEvery == 0 }

type linkState struct {
	n    int
	held *packet
}

type Hub struct {
	mu     sync.Mutex
	eps    map[netip.AddrPort]*Conn
	links  map[[2]netip.AddrPort]*linkState
	policy Policy
	// statistics
	maxSize  map[netip.AddrPort]int // largest datagram sent by an endpoint
	sent     map[netip.AddrPort]int
	dropped  atomic.Int64
	overflow atomic.Int64
}

func NewHub() *Hub {
	return &Hub{eps: map[netip.AddrPort]*Conn{}, links: map[[2]netip.AddrPort]*linkState{},
		maxSize: map[netip.AddrPort]int{}, sent: map[netip.AddrPort]int{}}
}

func (h *Hub) SetPolicy(p Policy) {
	h.mu.Lock()
	h.policy = p
	h.mu.Unlock()
}

// MaxDatagram returns the largest datagram the endpoint has sent so far.
func (h *Hub) MaxDatagram(ap netip.AddrPort) int {
	h.mu.Lock()
	defer h.mu.Unlock()
	return h.maxSize[ap]
}

func (h *Hub) ResetStats() {
	h.mu.Lock()
	h.maxSize = map[netip.AddrPort]int{}
	h.sent = map[netip.AddrPort]int{}
	h.mu.Unlock()
}

func (h *Hub) Sent(ap netip.AddrPort) int {
	h.mu.Lock()
	defer h.mu.Unlock()
	return h.sent[ap]
}

func (h *Hub) Dropped() int64 { return h.dropped.Load() }

// Listen creates an endpoint. The address may be any IP (nothing is bound).
func (h *Hub) Listen(ip net.IP, port int) *Conn {
	addr, ok := netip.AddrFromSlice(ip)
	if !ok {
		panic("simnet: bad ip")
	}
	ap := netip.AddrPortFrom(addr.Unmap(), uint16(port))
	c := &Conn{hub: h, ap: ap, udp: &net.UDPAddr{IP: ip, Port: port}, in: make(chan packet, 8192), closed: make(chan struct{})}
	h.mu.Lock()
	if _, dup := h.eps[ap]; dup {
		h.mu.Unlock()
		panic("simnet: address in use: " + ap.String())
	}
	h.eps[ap] = c
	h.mu.Unlock()
	return c
}

type Conn struct {
	hub       *Hub
	ap        netip.AddrPort
	udp       *net.UDPAddr
	in        chan packet
	closed    chan struct{}
	closeOnce sync.Once
}

func (c *Conn) AddrPort() netip.AddrPort { return c.ap }

func (c *Conn) ReadFromUDPAddrPort(b []byte) (int, netip.AddrPort, error) {
	select {
	case p := <-c.in:
		n := copy(b, p.data)
		return n, p.from, nil
	case <-c.closed:
		return 0, netip.AddrPort{}, errors.New("simnet: closed")
	}
}

func (c *Conn) WriteToUDPAddrPort(b []byte, to netip.AddrPort) (int, error) {
	select {
	case <-c.closed:
		return 0, errors.New("simnet: closed")
	default:
	}
	to = netip.AddrPortFrom(to.Addr().Unmap(), to.Port())
	h := c.hub
	h.mu.Lock()
	if len(b) > h.maxSize[c.ap] {
		h.maxSize[c.ap] = len(b)
	}
	h.sent[c.ap]++
	dst := h.eps[to]
	pol := h.policy
	var out []packet
	pk := packet{data: append([]byte(nil), b...), from: c.ap}
	if dst != nil {
		if pol.Clean() {
			out = append(out, pk)
		} else {
			key := [2]netip.AddrPort{c.ap, to}
			ls := h.links[key]
			if ls == nil {
				ls = &linkState{}
				h.links[key] = ls
			}
			ls.n++
			k := ls.n - pol.SkipFirst
			switch {
			case k <= 0:
				out = append(out, pk)
			case pol.DropEvery > 0 && k%pol.DropEvery == 0:
				h.dropped.Add(1)
			case pol.SwapEvery > 0 && k%pol.SwapEvery == 0 && ls.held == nil:
				held := pk
				ls.held = &held
			default:
				out = append(out, pk)
				if ls.held != nil {
					out = append(out, *ls.held)
					ls.held = nil
				}
				if pol.DupEvery > 0 && k%pol.DupEvery == 0 {
					out = append(out, pk)
				}
			}
		}
	}
	h.mu.Unlock()
	for _, p := range out {
		select {
		case dst.in <- p:
		case <-dst.closed:
		default:
			h.overflow.Add(1)
		}
	}
	return len(b), nil
}

func (c *Conn) Close() error {
	c.closeOnce.Do(func() {
		close(c.closed)
		c.hub.mu.Lock()
		delete(c.hub.eps, c.ap)
		c.hub.mu.Unlock()
	})
	return nil
}

func (c *Conn) LocalAddr() net.Addr { return c.udp }
