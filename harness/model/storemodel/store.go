package storemodel

// Reference model of the content store (properties C04, C05, C06, C17), written
// from the statements:
//
//   * the distance of a content id is id XOR node id read as a BIG-endian
//     256-bit number (C06); keys compare like their distances;
//   * a store is a map id -> bytes (C04);
//   * bytes held = sum over items of key length + value length (C05);
//   * a pruning pass drops a farthest-first prefix (C05).
//
// The little-endian functions at the end are NOT part of the oracle: they are the
// classifier ("second model") of the known finding D11, reproducing the
// defective decode so the search can continue past it.

import (
	"bytes"
	"math/big"
	"sort"
)

type ID = [32]byte

// Dist is id XOR node: the 32-byte distance key.
func Dist(node, id ID) ID {
	var d ID
	for i := range d {
		d[i] = node[i] ^ id[i]
	}
	return d
}

// BE reads a distance key as the statement says: big-endian.
func BE(key []byte) *big.Int { return new(big.Int).SetBytes(key) }

// LE reads a distance key little-endian (finding D11 classifier only).
func LE(key []byte) *big.Int {
	r := make([]byte, len(key))
	for i := range key {
		r[len(key)-1-i] = key[i]
	}
	return new(big.Int).SetBytes(r)
}

// MaxDist is 2^256-1.
var MaxDist = new(big.Int).Sub(new(big.Int).Lsh(big.NewInt(1), 256), big.NewInt(1))

// CmpKey orders two distance keys by big-endian value (== bytes.Compare for
// equal lengths).
func CmpKey(a, b ID) int { return bytes.Compare(a[:], b[:]) }

func IsZero(k ID) bool { return k == ID{} }

// Item is what ground truth knows about one stored item.
type Item struct {
	Len int    // value length
	Sum uint64 // digest of the value bytes
}

// Snapshot is ground truth read by scanning the database the harness owns.
type Snapshot struct {
	Items      map[ID]Item // by distance key, size record excluded
	Held       uint64      // sum of key+value lengths over Items
	Rec        uint64      // persisted usage record (0 when absent)
	RecPresent bool
	Odd        []string // keys that are not 32 bytes long, malformed size record ...
}

// Keys returns the distance keys in ascending big-endian order.
func (s *Snapshot) Keys() []ID {
	ks := make([]ID, 0, len(s.Items))
	for k := range s.Items {
		ks = append(ks, k)
	}
	sort.Slice(ks, func(i, j int) bool { return CmpKey(ks[i], ks[j]) < 0 })
	return ks
}

// Farthest returns the retained key with the largest big-endian distance.
func (s *Snapshot) Farthest() (ID, bool) {
	var best ID
	found := false
	for k := range s.Items {
		if !found || CmpKey(k, best) > 0 {
			best, found = k, true
		}
	}
	return best, found
}

// Equal reports whether two snapshots show the same observable content.
func (s *Snapshot) Equal(o *Snapshot) bool {
	if s.Rec != o.Rec || s.RecPresent != o.RecPresent || len(s.Items) != len(o.Items) {
		return false
	}
	for k, v := range s.Items {
		if w, ok := o.Items[k]; !ok || w != v {
			return false
		}
	}
	return true
}

// PrunePass judges one pruning pass from ground truth: `before` is the key set
// the pass started from (including the item just written), `after` the key set it
// left. It returns the dropped keys and whether they are a farthest-first
// prefix: every dropped key is at least as far as every kept key.
func PrunePass(before map[ID]struct{}, after map[ID]Item) (dropped []ID, farthestFirst bool, minDropped, maxKept ID) {
	haveKept := false
	for k := range before {
		if _, ok := after[k]; ok {
			if !haveKept || CmpKey(k, maxKept) > 0 {
				maxKept, haveKept = k, true
			}
		} else {
			dropped = append(dropped, k)
		}
	}
	sort.Slice(dropped, func(i, j int) bool { return CmpKey(dropped[i], dropped[j]) < 0 })
	if len(dropped) == 0 || !haveKept {
		return dropped, true, minDropped, maxKept
	}
	minDropped = dropped[0]
	return dropped, CmpKey(minDropped, maxKept) >= 0, minDropped, maxKept
}
