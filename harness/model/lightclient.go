package model

// Reference predicates for the beacon light client (property C12), written from
// the property statement and the altair light-client sync protocol
// (consensus-specs/specs/altair/light-client/sync-protocol.md). Nothing here
// imports the code under test or the SSZ library it uses: hashing, Merkle
// branches, signing roots and the fork schedule are re-implemented on sha256.

import (
	"crypto/sha256"
	"encoding/binary"
)

type Root = [32]byte

const (
	LCSlotsPerEpoch   = 32
	LCSlotsPerPeriod  = 32 * 256
	LCCommitteeSize   = 512
	LCFinalizedDepth  = 6 // FINALIZED_ROOT_GINDEX 105 = 2^6 + 41
	LCFinalizedIndex  = 41
	LCNextSyncDepth   = 5 // NEXT_SYNC_COMMITTEE_GINDEX 55 = 2^5 + 23
	LCNextSyncIndex   = 23
	LCCurSyncDepth    = 5 // CURRENT_SYNC_COMMITTEE_GINDEX 54 = 2^5 + 22
	LCCurSyncIndex    = 22
	LCCurSyncDepthElc = 6 // CURRENT_SYNC_COMMITTEE_GINDEX_ELECTRA 86 = 2^6 + 22
)

// LCPastLimit / LCFutureFloor: the harness keeps every slot it calls "past"
// below the first and every slot it calls "future" above the second, so that
// "not in the future" does not depend on the day the check runs.
const (
	LCPastLimit   = 5_000_000
	LCFutureFloor = 1_000_000_000
)

func HashPair(a, b Root) Root {
	var buf [64]byte
	copy(buf[:32], a[:])
	copy(buf[32:], b[:])
	return sha256.Sum256(buf[:])
}

func Uint64Leaf(v uint64) (r Root) {
	binary.LittleEndian.PutUint64(r[:8], v)
	return
}

// merkleize hashes a power-of-two number of leaves.
func merkleize(leaves []Root) Root {
	n := len(leaves)
	if n == 1 {
		return leaves[0]
	}
	layer := make([]Root, n)
	copy(layer, leaves)
	for n > 1 {
		for i := 0; i < n/2; i++ {
			layer[i] = HashPair(layer[2*i], layer[2*i+1])
		}
		n /= 2
	}
	return layer[0]
}

// LCHeader is a BeaconBlockHeader.
type LCHeader struct {
	Slot     uint64
	Proposer uint64
	Parent   Root
	State    Root
	Body     Root
}

func (h LCHeader) IsZero() bool { return h == LCHeader{} }

// Root is hash_tree_root(BeaconBlockHeader): five fields padded to eight leaves.
func (h LCHeader) Root() Root {
	return merkleize([]Root{Uint64Leaf(h.Slot), Uint64Leaf(h.Proposer), h.Parent, h.State, h.Body, {}, {}, {}})
}

// PubkeyRoot is hash_tree_root(BLSPubkey): 48 bytes packed in two chunks.
func PubkeyRoot(pk [48]byte) Root {
	var a, b Root
	copy(a[:], pk[:32])
	copy(b[:16], pk[32:])
	return HashPair(a, b)
}

// SyncCommitteeRoot is hash_tree_root(SyncCommittee) for 512 members.
func SyncCommitteeRoot(pubkeys [][48]byte, agg [48]byte) Root {
	if len(pubkeys) != LCCommitteeSize {
		panic("model: committee must have 512 keys")
	}
	leaves := make([]Root, LCCommitteeSize)
	for i := range pubkeys {
		leaves[i] = PubkeyRoot(pubkeys[i])
	}
	return HashPair(merkleize(leaves), PubkeyRoot(agg))
}

// ValidMerkleBranch is is_valid_merkle_branch of the phase0 spec.
func ValidMerkleBranch(leaf Root, branch []Root, depth int, index uint64, root Root) bool {
	if len(branch) < depth {
		return false
	}
	v := leaf
	for i := 0; i < depth; i++ {
		if (index>>uint(i))&1 == 1 {
			v = HashPair(branch[i], v)
		} else {
			v = HashPair(v, branch[i])
		}
	}
	return v == root
}

func allZero(branch []Root) bool {
	for _, b := range branch {
		if b != (Root{}) {
			return false
		}
	}
	return true
}

func LCPeriod(slot uint64) uint64 { return slot / LCSlotsPerPeriod }

// MainnetForkVersion is compute_fork_version for the mainnet schedule
// (consensus-specs configs/mainnet.yaml).
func MainnetForkVersion(epoch uint64) [4]byte {
	switch {
	case epoch >= 411392: // Fulu
		return [4]byte{6, 0, 0, 0}
	case epoch >= 364032: // Electra
		return [4]byte{5, 0, 0, 0}
	case epoch >= 269568: // Deneb
		return [4]byte{4, 0, 0, 0}
	case epoch >= 194048: // Capella
		return [4]byte{3, 0, 0, 0}
	case epoch >= 144896: // Bellatrix
		return [4]byte{2, 0, 0, 0}
	case epoch >= 74240: // Altair
		return [4]byte{1, 0, 0, 0}
	}
	return [4]byte{0, 0, 0, 0}
}

// Mainnet fork boundaries that lie inside the "past" slot range of the harness.
var LCForkBoundarySlots = []uint64{74240 * 32, 144896 * 32}

var DomainSyncCommittee = [4]byte{7, 0, 0, 0}

// ComputeDomain is compute_domain: type ++ hash_tree_root(ForkData)[:28].
func ComputeDomain(domainType [4]byte, forkVersion [4]byte, genesisValidatorsRoot Root) (d Root) {
	var v Root
	copy(v[:4], forkVersion[:])
	fdr := HashPair(v, genesisValidatorsRoot)
	copy(d[:4], domainType[:])
	copy(d[4:], fdr[:28])
	return
}

// SigningRoot is compute_signing_root: hash_tree_root(SigningData{root, domain}).
func SigningRoot(objectRoot, domain Root) Root { return HashPair(objectRoot, domain) }

// LCForkVersionSlot: the sync committee signs at signature_slot-1.
func LCForkVersionSlot(signatureSlot uint64) uint64 {
	if signatureSlot < 1 {
		signatureSlot = 1
	}
	return signatureSlot - 1
}

// LCSigningRoot is the message a sync committee signs for an update with the
// given attested header and signature slot (validate_light_client_update).
func LCSigningRoot(attested LCHeader, signatureSlot uint64, genesisValidatorsRoot Root) Root {
	fv := MainnetForkVersion(LCForkVersionSlot(signatureSlot) / LCSlotsPerEpoch)
	return SigningRoot(attested.Root(), ComputeDomain(DomainSyncCommittee, fv, genesisValidatorsRoot))
}

// ---------------------------------------------------------------------------
// synthetic beacon state: only the three generalized indices the light client
// proves are real, every other sibling on their paths is an arbitrary value.
//
//	    1
//	2       3
//	      6   7
//	   12  13
//	     26   27
//	   52 53 54 55         54 = current_sync_committee, 55 = next_sync_committee
//	104 105                105 = finalized_checkpoint.root
type LCState struct {
	FinalizedRoot    Root
	CurrentCommittee Root
	NextCommittee    Root
	G104, G53        Root // finalized_checkpoint.epoch leaf, inactivity_scores
	G12, G7, G2      Root
}

func (s LCState) g26() Root { return HashPair(HashPair(s.G104, s.FinalizedRoot), s.G53) }
func (s LCState) g27() Root { return HashPair(s.CurrentCommittee, s.NextCommittee) }

func (s LCState) Root() Root {
	g13 := HashPair(s.g26(), s.g27())
	g6 := HashPair(s.G12, g13)
	g3 := HashPair(g6, s.G7)
	return HashPair(s.G2, g3)
}

func (s LCState) FinalityBranch() []Root {
	return []Root{s.G104, s.G53, s.g27(), s.G12, s.G7, s.G2}
}

func (s LCState) NextCommitteeBranch() []Root {
	return []Root{s.CurrentCommittee, s.g26(), s.G12, s.G7, s.G2}
}

func (s LCState) CurrentCommitteeBranch() []Root {
	return []Root{s.NextCommittee, s.g26(), s.G12, s.G7, s.G2}
}

// ---------------------------------------------------------------------------
// verification: the conditions listed in the statement

type LCStoreView struct {
	FinSlot   uint64
	NextKnown bool
}

// LCUpdateView is what the statement talks about, already evaluated against the
// reference hashing / BLS by the harness.
type LCUpdateView struct {
	Participants int
	SigSlot      uint64
	AttSlot      uint64
	SigInFuture  bool // decided by the harness from the slot range, never from a clock

	HasFinality    bool // container carries finalized_header + finality_branch
	FinSlot        uint64
	FinHeaderZero  bool
	FinBranchZero  bool
	FinBranchValid bool // branch proves hash_tree_root(finalized_header) at gindex 105 of attested state root

	HasNextCommittee bool // container carries next_sync_committee + branch
	NextZero         bool
	NextBranchZero   bool
	NextBranchValid  bool // branch proves hash_tree_root(next_sync_committee) at gindex 55

	// aggregate signature valid for exactly the participating keys of the
	// committee the store holds for the signature period (false when the store
	// holds none for it)
	SigValid bool
}

const (
	CondParticipants = "participants"
	CondSlotOrder    = "slot-order"
	CondFuture       = "future"
	CondPeriod       = "period"
	CondRelevant     = "relevant"
	CondFinality     = "finality-branch"
	CondNextBranch   = "next-committee-branch"
	CondSignature    = "signature"
)

// LCVerifyFailures lists the conditions of the statement that do NOT hold.
// An accepted update must yield an empty list.
func LCVerifyFailures(st LCStoreView, u LCUpdateView) []string {
	var bad []string
	// A condition that is implied by an earlier failed one is not listed twice:
	// nobody can sign validly with zero participants, and there is no committee
	// to check the signature against when the period does not fit.
	sigApplies := true
	if u.Participants < 1 {
		bad = append(bad, CondParticipants)
		sigApplies = false
	}
	fin := uint64(0)
	if u.HasFinality {
		fin = u.FinSlot
	}
	if !(u.SigSlot > u.AttSlot && u.AttSlot >= fin) {
		bad = append(bad, CondSlotOrder)
	}
	if u.SigInFuture {
		bad = append(bad, CondFuture)
	}
	storePeriod := LCPeriod(st.FinSlot)
	sigPeriod := LCPeriod(u.SigSlot)
	if !(sigPeriod == storePeriod || (st.NextKnown && sigPeriod == storePeriod+1)) {
		bad = append(bad, CondPeriod)
		sigApplies = false
	}
	// is_sync_committee_update: a non-empty next-committee branch
	suppliesNext := !st.NextKnown && u.HasNextCommittee && !u.NextBranchZero && LCPeriod(u.AttSlot) == storePeriod
	if !(u.AttSlot > st.FinSlot || suppliesNext) {
		bad = append(bad, CondRelevant)
	}
	if u.HasFinality {
		if u.FinBranchZero {
			// not a finality update: the finalized header must be empty
			if !u.FinHeaderZero {
				bad = append(bad, CondFinality)
			}
		} else if !u.FinBranchValid {
			bad = append(bad, CondFinality)
		}
	}
	if u.HasNextCommittee {
		if u.NextBranchZero {
			if !u.NextZero {
				bad = append(bad, CondNextBranch)
			}
		} else if !u.NextBranchValid {
			bad = append(bad, CondNextBranch)
		}
	}
	if sigApplies && !u.SigValid {
		bad = append(bad, CondSignature)
	}
	return bad
}

// ---------------------------------------------------------------------------
// apply: the invariants listed in the statement

type LCStoreSnap struct {
	Set       bool // store bootstrapped
	FinSlot   uint64
	OptSlot   uint64
	FinRoot   Root
	OptRoot   Root
	Cur       Root // hash_tree_root(current committee)
	NextKnown bool
	Next      Root
}

// LCApplyViolations compares the store before and after one applied update
// signed by `participants` members.
func LCApplyViolations(before, after LCStoreSnap, participants int) []string {
	var bad []string
	if after.FinSlot < before.FinSlot {
		bad = append(bad, "finalized header moved backwards")
	}
	if after.OptSlot < before.OptSlot {
		bad = append(bad, "optimistic header moved backwards")
	}
	if after.OptSlot < after.FinSlot {
		bad = append(bad, "optimistic header behind finalized header")
	}
	finChanged := after.FinRoot != before.FinRoot
	curChanged := after.Cur != before.Cur
	nextChanged := after.NextKnown != before.NextKnown || (after.NextKnown && after.Next != before.Next)
	if (finChanged || curChanged || nextChanged) && participants*3 < LCCommitteeSize*2 {
		what := ""
		if finChanged {
			what += " finalized-header"
		}
		if curChanged {
			what += " current-committee"
		}
		if nextChanged {
			what += " next-committee"
		}
		bad = append(bad, "changed"+what+" with less than two-thirds participation")
	}
	if curChanged && !(before.NextKnown && after.Cur == before.Next) {
		bad = append(bad, "current committee rotated to something other than the previously stored next committee")
	}
	// "rotates the current committee only to the previously stored next committee": a stored next committee that is
	// replaced (or dropped) while the current one stays can never be rotated to - the rotation that follows installs
	// whatever overwrote it. (A conforming client only fills a MISSING next committee between rotations.)
	if !curChanged && before.NextKnown && (!after.NextKnown || after.Next != before.Next) {
		bad = append(bad, "the stored next committee was replaced without a rotation (the coming rotation cannot go to the previously stored next committee)")
	}
	return bad
}

// ---------------------------------------------------------------------------
// bootstrap (initialize_light_client_store)

// LCBootstrapBranchValid accepts every branch layout a conforming client may
// receive for the current sync committee: the altair layout (depth 5, gindex
// 54), the electra layout (depth 6, gindex 86) and, for a six-element branch
// carrying an altair-depth proof, both the normalized form of the electra spec
// (leading zero, then the five siblings) and the five siblings followed by one
// unused element.
func LCBootstrapBranchValid(committeeRoot Root, branch []Root, stateRoot Root) bool {
	switch len(branch) {
	case 5:
		return ValidMerkleBranch(committeeRoot, branch, LCCurSyncDepth, LCCurSyncIndex, stateRoot)
	case 6:
		if ValidMerkleBranch(committeeRoot, branch, LCCurSyncDepthElc, LCCurSyncIndex, stateRoot) {
			return true
		}
		if branch[0] == (Root{}) && ValidMerkleBranch(committeeRoot, branch[1:], LCCurSyncDepth, LCCurSyncIndex, stateRoot) {
			return true
		}
		return ValidMerkleBranch(committeeRoot, branch[:5], LCCurSyncDepth, LCCurSyncIndex, stateRoot)
	}
	return false
}

func LCBranchAllZero(branch []Root) bool { return allZero(branch) }
