package vmodel

// Reference Merkle-Patricia-trie machinery written from the yellow paper
// (appendix D) and the portal state-network spec:
//
//   * MPTRoot / OrderedTrieRoot: root of a trie given its key/value pairs
//   * VerifyMPTNodeProof: "the proof starts at the root, each following node is
//     the child the previous one references along the path, the path is fully
//     consumed, and the final node has the claimed hash"
//   * VerifyMPTAccountProof: the same walk down to an account leaf
//
// Nothing here is shared with state/trie or go-ethereum's trie package.

import (
	"bytes"
	"errors"
	"fmt"
	"sort"

	"golang.org/x/crypto/sha3"
)

func Keccak(b ...[]byte) H32 {
	h := sha3.NewLegacyKeccak256()
	for _, x := range b {
		h.Write(x)
	}
	var out H32
	h.Sum(out[:0])
	return out
}

// BytesToNibbles expands bytes to one nibble per element.
func BytesToNibbles(b []byte) []byte {
	out := make([]byte, 0, 2*len(b))
	for _, c := range b {
		out = append(out, c>>4, c&15)
	}
	return out
}

// HexPrefix is the yellow paper's HP function.
func HexPrefix(nibbles []byte, leaf bool) []byte {
	flag := byte(0)
	if leaf {
		flag = 2
	}
	var out []byte
	if len(nibbles)%2 == 1 {
		out = append(out, (flag|1)<<4|nibbles[0])
		nibbles = nibbles[1:]
	} else {
		out = append(out, flag<<4)
	}
	for i := 0; i < len(nibbles); i += 2 {
		out = append(out, nibbles[i]<<4|nibbles[i+1])
	}
	return out
}

// HexPrefixDecode inverts HexPrefix.
func HexPrefixDecode(b []byte) (nibbles []byte, leaf bool, err error) {
	if len(b) == 0 {
		return nil, false, errors.New("model: empty hex-prefix string")
	}
	flag := b[0] >> 4
	if flag > 3 {
		return nil, false, errors.New("model: bad hex-prefix flag")
	}
	leaf = flag&2 != 0
	if flag&1 == 1 {
		nibbles = append(nibbles, b[0]&15)
	} else if b[0]&15 != 0 {
		return nil, false, errors.New("model: bad hex-prefix padding")
	}
	for _, c := range b[1:] {
		nibbles = append(nibbles, c>>4, c&15)
	}
	return nibbles, leaf, nil
}

// ---------------------------------------------------------------------------
// root construction

type kv struct {
	k []byte // nibbles
	v []byte
}

// MPTRoot computes the root hash of the trie holding the given pairs (keys as
// nibble strings; values non-empty). Duplicate keys: the last one wins.
func MPTRoot(keys [][]byte, values [][]byte) H32 {
	m := map[string][]byte{}
	for i := range keys {
		m[string(keys[i])] = values[i]
	}
	pairs := make([]kv, 0, len(m))
	for k, v := range m {
		pairs = append(pairs, kv{[]byte(k), v})
	}
	sort.Slice(pairs, func(i, j int) bool { return bytes.Compare(pairs[i].k, pairs[j].k) < 0 })
	if len(pairs) == 0 {
		return Keccak([]byte{0x80})
	}
	return Keccak(mptBuild(pairs, 0))
}

func mptRef(enc []byte) []byte {
	if len(enc) < 32 {
		return enc
	}
	h := Keccak(enc)
	return RLPString(h[:])
}

func mptBuild(pairs []kv, depth int) []byte {
	if len(pairs) == 1 {
		return RLPList(RLPString(HexPrefix(pairs[0].k[depth:], true)), RLPString(pairs[0].v))
	}
	// common prefix below depth
	first, last := pairs[0].k, pairs[len(pairs)-1].k // sorted: extremes bound the common prefix
	cp := 0
	for depth+cp < len(first) && depth+cp < len(last) && first[depth+cp] == last[depth+cp] {
		cp++
	}
	if cp > 0 {
		child := mptBuildBranch(pairs, depth+cp)
		return RLPList(RLPString(HexPrefix(first[depth:depth+cp], false)), mptRef(child))
	}
	return mptBuildBranch(pairs, depth)
}

func mptBuildBranch(pairs []kv, depth int) []byte {
	members := make([][]byte, 17)
	val := []byte(nil)
	i := 0
	if len(pairs[0].k) == depth { // sorted: the key that ends here comes first
		val = pairs[0].v
		i = 1
	}
	for nib := 0; nib < 16; nib++ {
		j := i
		for j < len(pairs) && int(pairs[j].k[depth]) == nib {
			j++
		}
		if j == i {
			members[nib] = []byte{0x80}
		} else {
			members[nib] = mptRef(mptBuild(pairs[i:j], depth+1))
		}
		i = j
	}
	members[16] = RLPString(val)
	return RLPList(members...)
}

// OrderedTrieRoot is the root of the index trie used for transactions,
// receipts and withdrawals: key = rlp(index), value = the item's encoding.
func OrderedTrieRoot(items [][]byte) H32 {
	keys := make([][]byte, len(items))
	for i := range items {
		keys[i] = BytesToNibbles(RLPUint(uint64(i)))
	}
	return MPTRoot(keys, items)
}

// ---------------------------------------------------------------------------
// proof walking

type mptNode struct {
	items []RLPItem
}

func decodeMPTNode(raw []byte) (*mptNode, error) {
	it, _, err := RLPSplit(raw)
	if err != nil {
		return nil, err
	}
	if !it.IsList {
		return nil, errors.New("model: trie node is not a list")
	}
	items, err := RLPListItems(it.Payload)
	if err != nil {
		return nil, err
	}
	if len(items) != 2 && len(items) != 17 {
		return nil, fmt.Errorf("model: trie node with %d items", len(items))
	}
	return &mptNode{items}, nil
}

// mptFollow walks from node `raw` along `path` until a hash reference to a
// separately stored child is reached. It returns that hash and the unconsumed
// path. Embedded (inline) children are walked through, since they are part of
// their parent's encoding and never separate proof elements.
func mptFollow(raw []byte, path []byte) (ref []byte, rest []byte, err error) {
	n, err := decodeMPTNode(raw)
	if err != nil {
		return nil, nil, err
	}
	var child RLPItem
	if len(n.items) == 17 {
		if len(path) == 0 {
			return nil, nil, errors.New("path exhausted at a branch node")
		}
		if path[0] > 15 {
			return nil, nil, errors.New("nibble out of range")
		}
		child, path = n.items[path[0]], path[1:]
	} else {
		if n.items[0].IsList {
			return nil, nil, errors.New("short node key is a list")
		}
		key, leaf, err := HexPrefixDecode(n.items[0].Payload)
		if err != nil {
			return nil, nil, err
		}
		if leaf {
			return nil, nil, errors.New("a leaf references no child")
		}
		if len(key) == 0 {
			return nil, nil, errors.New("extension with empty key")
		}
		if len(path) < len(key) || !bytes.Equal(path[:len(key)], key) {
			return nil, nil, errors.New("extension key is not a prefix of the remaining path")
		}
		child, path = n.items[1], path[len(key):]
	}
	switch {
	case child.IsList:
		return mptFollow(child.Raw, path)
	case len(child.Payload) == 32:
		return child.Payload, path, nil
	case len(child.Payload) == 0:
		return nil, nil, errors.New("no child at this nibble")
	default:
		return nil, nil, errors.New("child reference is neither a hash nor an inline node")
	}
}

// mptWalkLinks checks proof[0] against root and every link proof[i] -> proof[i+1].
// It returns the path left over when the last proof element is reached.
func mptWalkLinks(root H32, path []byte, proof [][]byte) ([]byte, error) {
	if len(proof) == 0 {
		return nil, errors.New("empty proof")
	}
	if Keccak(proof[0]) != root {
		return nil, errors.New("first node does not hash to the root")
	}
	for i := 0; i+1 < len(proof); i++ {
		ref, rest, err := mptFollow(proof[i], path)
		if err != nil {
			return nil, fmt.Errorf("node %d: %w", i, err)
		}
		if h := Keccak(proof[i+1]); !bytes.Equal(ref, h[:]) {
			return nil, fmt.Errorf("node %d is not the child referenced by node %d", i+1, i)
		}
		path = rest
	}
	return path, nil
}

// VerifyMPTNodeProof: nil iff proof is a hash-linked chain from root along
// `path` (nibbles), consuming it completely, ending in a node hashing to nodeHash.
func VerifyMPTNodeProof(root H32, path []byte, nodeHash H32, proof [][]byte) error {
	rest, err := mptWalkLinks(root, path, proof)
	if err != nil {
		return err
	}
	if len(rest) != 0 {
		return errors.New("path not fully consumed")
	}
	if Keccak(proof[len(proof)-1]) != nodeHash {
		return errors.New("final node does not have the key's hash")
	}
	return nil
}

// mptValueAt resolves the value stored under `path` inside node raw, walking
// inline children only.
func mptValueAt(raw []byte, path []byte) ([]byte, error) {
	n, err := decodeMPTNode(raw)
	if err != nil {
		return nil, err
	}
	var child RLPItem
	if len(n.items) == 17 {
		if len(path) == 0 {
			if n.items[16].IsList || len(n.items[16].Payload) == 0 {
				return nil, errors.New("no value at branch")
			}
			return n.items[16].Payload, nil
		}
		if path[0] > 15 {
			return nil, errors.New("nibble out of range")
		}
		child, path = n.items[path[0]], path[1:]
	} else {
		if n.items[0].IsList {
			return nil, errors.New("short node key is a list")
		}
		key, leaf, err := HexPrefixDecode(n.items[0].Payload)
		if err != nil {
			return nil, err
		}
		if leaf {
			if !bytes.Equal(key, path) {
				return nil, errors.New("leaf key differs from the remaining path")
			}
			if n.items[1].IsList {
				return nil, errors.New("leaf value is a list")
			}
			return n.items[1].Payload, nil
		}
		if len(key) == 0 || len(path) < len(key) || !bytes.Equal(path[:len(key)], key) {
			return nil, errors.New("extension key is not a prefix of the remaining path")
		}
		child, path = n.items[1], path[len(key):]
	}
	if child.IsList {
		return mptValueAt(child.Raw, path)
	}
	return nil, errors.New("proof ends above the leaf")
}

// Account is the consensus encoding of an account: rlp([nonce, balance, storage root, code hash]).
type Account struct {
	StorageRoot H32
	CodeHash    H32
}

func DecodeAccount(b []byte) (*Account, error) {
	it, rest, err := RLPSplit(b)
	if err != nil || !it.IsList || len(rest) != 0 {
		return nil, errors.New("account is not a single rlp list")
	}
	items, err := RLPListItems(it.Payload)
	if err != nil || len(items) != 4 {
		return nil, errors.New("account does not have four fields")
	}
	if items[2].IsList || items[3].IsList || len(items[2].Payload) != 32 || len(items[3].Payload) != 32 {
		return nil, errors.New("account root/code hash are not 32 bytes")
	}
	a := &Account{}
	copy(a.StorageRoot[:], items[2].Payload)
	copy(a.CodeHash[:], items[3].Payload)
	return a, nil
}

// VerifyMPTAccountProof walks the whole 64-nibble path of addressHash and
// returns the account stored in the leaf the proof ends with.
func VerifyMPTAccountProof(root H32, addressHash H32, proof [][]byte) (*Account, error) {
	rest, err := mptWalkLinks(root, BytesToNibbles(addressHash[:]), proof)
	if err != nil {
		return nil, err
	}
	val, err := mptValueAt(proof[len(proof)-1], rest)
	if err != nil {
		return nil, err
	}
	return DecodeAccount(val)
}
