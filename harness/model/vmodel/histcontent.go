package vmodel

// SSZ readers for the history-network content containers, written from the
// portal history spec (independent of fastssz and of history/types_encoding.go),
// and the "bound to its header" predicates of property C02.

import (
	"bytes"
	"encoding/binary"
	"errors"
	"math/big"

	"github.com/ethereum/go-ethereum/core/types"
	"github.com/ethereum/go-ethereum/rlp"
)

var errSSZ = errors.New("model: malformed ssz")

func sszOffset(b []byte, at int) (int, error) {
	if at+4 > len(b) {
		return 0, errSSZ
	}
	return int(binary.LittleEndian.Uint32(b[at:])), nil
}

// sszVarFields splits a container of n variable-size fields.
func sszVarFields(b []byte, n int) ([][]byte, error) {
	offs := make([]int, n+1)
	for i := 0; i < n; i++ {
		o, err := sszOffset(b, 4*i)
		if err != nil {
			return nil, err
		}
		offs[i] = o
	}
	offs[n] = len(b)
	if offs[0] != 4*n {
		return nil, errSSZ
	}
	out := make([][]byte, n)
	for i := 0; i < n; i++ {
		if offs[i] > offs[i+1] || offs[i+1] > len(b) {
			return nil, errSSZ
		}
		out[i] = b[offs[i]:offs[i+1]]
	}
	return out, nil
}

// sszListOfByteLists splits List[ByteList, N].
func sszListOfByteLists(b []byte) ([][]byte, error) {
	if len(b) == 0 {
		return [][]byte{}, nil
	}
	first, err := sszOffset(b, 0)
	if err != nil {
		return nil, err
	}
	if first%4 != 0 || first == 0 || first > len(b) {
		return nil, errSSZ
	}
	return sszVarFields(b, first/4)
}

// SplitHeaderWithProof: BlockHeaderWithProof = Container(header: ByteList[8192], proof: ByteList[1024]).
func SplitHeaderWithProof(content []byte) (header, proof []byte, err error) {
	f, err := sszVarFields(content, 2)
	if err != nil {
		return nil, nil, err
	}
	if len(f[0]) > 8192 || len(f[1]) > 1024 {
		return nil, nil, errSSZ
	}
	return f[0], f[1], nil
}

// PortalBody is a decoded block body content value.
type PortalBody struct {
	Txs            [][]byte // encoded transactions as carried
	Uncles         []byte   // rlp(list of headers) as carried
	Withdrawals    [][]byte // rlp(withdrawal) as carried
	HasWithdrawals bool     // Shanghai container (three fields) vs legacy (two)
}

// SplitPortalBody reads BlockBodyLegacy (transactions, uncles) or
// BlockBodyShanghai (transactions, uncles, withdrawals). The two are told apart
// by the first offset (8 vs 12).
func SplitPortalBody(content []byte) (*PortalBody, error) {
	first, err := sszOffset(content, 0)
	if err != nil {
		return nil, err
	}
	n := 0
	switch first {
	case 8:
		n = 2
	case 12:
		n = 3
	default:
		return nil, errSSZ
	}
	f, err := sszVarFields(content, n)
	if err != nil {
		return nil, err
	}
	b := &PortalBody{Uncles: f[1], HasWithdrawals: n == 3}
	if b.Txs, err = sszListOfByteLists(f[0]); err != nil {
		return nil, err
	}
	if n == 3 {
		if b.Withdrawals, err = sszListOfByteLists(f[2]); err != nil {
			return nil, err
		}
	}
	return b, nil
}

// SplitPortalReceipts reads PortalReceipts = List[ByteList, N].
func SplitPortalReceipts(content []byte) ([][]byte, error) { return sszListOfByteLists(content) }

// ---------------------------------------------------------------------------
// bound-to-header predicates

var (
	EmptyTrieRoot  = Keccak([]byte{0x80})
	EmptyUncleHash = Keccak([]byte{0xc0})
)

// BodyBinding explains a verdict of BodyBound.
type BodyBinding struct {
	Bound  bool
	Reason string
}

// BodyBoundRaw: are the roots of the body *as carried* those of header h?
// Withdrawals reading (weakest the statement allows): a body that carries no
// withdrawals list is bound only to a header without a withdrawals root or with
// the empty-list root; a body that carries one only to a header having exactly
// that root.
func BodyBoundRaw(b *PortalBody, h *types.Header) BodyBinding {
	if OrderedTrieRoot(b.Txs) != H32(h.TxHash) {
		return BodyBinding{false, "tx-root"}
	}
	if Keccak(b.Uncles) != H32(h.UncleHash) {
		return BodyBinding{false, "uncle-hash"}
	}
	if !b.HasWithdrawals {
		if h.WithdrawalsHash != nil && H32(*h.WithdrawalsHash) != EmptyTrieRoot {
			return BodyBinding{false, "withdrawals-missing"}
		}
		return BodyBinding{true, "ok"}
	}
	if h.WithdrawalsHash == nil {
		return BodyBinding{false, "withdrawals-unexpected"}
	}
	if OrderedTrieRoot(b.Withdrawals) != H32(*h.WithdrawalsHash) {
		return BodyBinding{false, "withdrawals-root"}
	}
	return BodyBinding{true, "ok"}
}

// CanonicalBody re-encodes every element of a body through go-ethereum's
// (trusted library) decoders, so that a body carrying a non-canonical but
// equivalent encoding is judged by what it decodes to.
func CanonicalBody(b *PortalBody) (*PortalBody, error) {
	out := &PortalBody{HasWithdrawals: b.HasWithdrawals}
	for _, raw := range b.Txs {
		tx := new(types.Transaction)
		if err := tx.UnmarshalBinary(raw); err != nil {
			return nil, err
		}
		enc, err := tx.MarshalBinary()
		if err != nil {
			return nil, err
		}
		out.Txs = append(out.Txs, enc)
	}
	var uncles []*types.Header
	if err := rlp.DecodeBytes(b.Uncles, &uncles); err != nil {
		return nil, err
	}
	enc, err := rlp.EncodeToBytes(uncles)
	if err != nil {
		return nil, err
	}
	out.Uncles = enc
	for _, raw := range b.Withdrawals {
		w := new(types.Withdrawal)
		if err := rlp.DecodeBytes(raw, w); err != nil {
			return nil, err
		}
		enc, err := rlp.EncodeToBytes(w)
		if err != nil {
			return nil, err
		}
		out.Withdrawals = append(out.Withdrawals, enc)
	}
	return out, nil
}

// BodyFromTypes turns a go-ethereum body into the carried form (canonical
// encodings); withdrawals == nil means "no withdrawals list".
func BodyFromTypes(body *types.Body) (*PortalBody, error) {
	out := &PortalBody{HasWithdrawals: body.Withdrawals != nil}
	for _, tx := range body.Transactions {
		enc, err := tx.MarshalBinary()
		if err != nil {
			return nil, err
		}
		out.Txs = append(out.Txs, enc)
	}
	uncles := body.Uncles
	if uncles == nil {
		uncles = []*types.Header{}
	}
	enc, err := rlp.EncodeToBytes(uncles)
	if err != nil {
		return nil, err
	}
	out.Uncles = enc
	for _, w := range body.Withdrawals {
		enc, err := rlp.EncodeToBytes(w)
		if err != nil {
			return nil, err
		}
		out.Withdrawals = append(out.Withdrawals, enc)
	}
	return out, nil
}

// ReceiptsBoundRaw: is the root of the receipts *as carried* that of header h?
func ReceiptsBoundRaw(receipts [][]byte, h *types.Header) bool {
	return OrderedTrieRoot(receipts) == H32(h.ReceiptHash)
}

// CanonicalReceipts re-encodes receipts through go-ethereum's consensus codec.
func CanonicalReceipts(raws [][]byte) ([][]byte, error) {
	out := make([][]byte, 0, len(raws))
	for _, raw := range raws {
		r := new(types.Receipt)
		if err := r.UnmarshalBinary(raw); err != nil {
			return nil, err
		}
		enc, err := r.MarshalBinary()
		if err != nil {
			return nil, err
		}
		out = append(out, enc)
	}
	return out, nil
}

// HeaderKeyBinding: does header RLP `raw` answer the content key?
//
//	0x00 ‖ hash      → keccak(raw) == hash
//	0x03 ‖ uint64 LE → header number == that number
//
// Returned: decoded header (nil when raw is not a header), bound?
func HeaderKeyBinding(key []byte, raw []byte) (*types.Header, bool) {
	h := new(types.Header)
	if err := rlp.DecodeBytes(raw, h); err != nil {
		return nil, false
	}
	if len(key) == 0 {
		return h, false
	}
	switch key[0] {
	case 0x00:
		hash := Keccak(raw)
		canon := H32(h.Hash())
		return h, len(key) == 33 && (bytes.Equal(hash[:], key[1:]) || bytes.Equal(canon[:], key[1:]))
	case 0x03:
		// the key is the selector and exactly eight bytes: a longer byte string is another key (another
		// content id) and names no block number
		if len(key) != 9 || h.Number == nil {
			return h, false
		}
		n := new(big.Int).SetUint64(binary.LittleEndian.Uint64(key[1:9]))
		return h, h.Number.Cmp(n) == 0
	}
	return h, false
}
