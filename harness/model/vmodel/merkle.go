package vmodel

// SHA-256 binary Merkle trees as used by SSZ, written from the consensus-spec
// definitions (is_valid_merkle_branch / generalized indices), independently of
// fastssz and zrnt which the code under test uses.

import (
	"crypto/sha256"
	"encoding/binary"
	"math/bits"
	"sort"
)

type H32 = [32]byte

// HashPair is H(a || b).
func HashPair(a, b H32) H32 {
	var buf [64]byte
	copy(buf[:32], a[:])
	copy(buf[32:], b[:])
	return sha256.Sum256(buf[:])
}

// ZeroHash(d) is the root of a depth-d tree whose leaves are all zero chunks.
func ZeroHash(d int) H32 {
	zeroOnce()
	return zeroHashes[d]
}

var zeroHashes [65]H32
var zeroDone bool

func zeroOnce() {
	if zeroDone {
		return
	}
	for i := 1; i < len(zeroHashes); i++ {
		zeroHashes[i] = HashPair(zeroHashes[i-1], zeroHashes[i-1])
	}
	zeroDone = true
}

func init() { zeroOnce() }

// GindexDepth is floor(log2(g)) for g >= 1: the number of siblings on the way
// from generalized index g to the root (gindex 1).
func GindexDepth(g uint64) int { return bits.Len64(g) - 1 }

// FoldBranch recomputes the root from a leaf at generalized index g and its
// bottom-up siblings. ok is false when the number of siblings is not exactly
// the depth of g (a branch of any other length does not name position g).
func FoldBranch(leaf H32, branch []H32, g uint64) (root H32, ok bool) {
	if g == 0 || len(branch) != GindexDepth(g) {
		return H32{}, false
	}
	v := leaf
	for _, s := range branch {
		if g&1 == 1 {
			v = HashPair(s, v)
		} else {
			v = HashPair(v, s)
		}
		g >>= 1
	}
	return v, true
}

// VerifyBranch says whether `leaf` is the node at generalized index g of the
// tree with the given root, as witnessed by `branch`.
func VerifyBranch(leaf H32, branch []H32, g uint64, root H32) bool {
	r, ok := FoldBranch(leaf, branch, g)
	return ok && r == root
}

// Uint64Chunk is the SSZ chunk of a uint64 (little endian, zero padded).
func Uint64Chunk(v uint64) H32 {
	var c H32
	binary.LittleEndian.PutUint64(c[:8], v)
	return c
}

// SparseTree is a complete binary tree of a fixed depth whose unset leaves are
// zero chunks. Only non-default nodes are kept, so a tree with few leaves is
// cheap regardless of depth, and a full 8192-leaf tree costs 8191 hashes.
type SparseTree struct {
	Depth  int
	levels []map[uint64]H32 // levels[0] = leaves ... levels[Depth] = {0: root}
}

func NewSparseTree(depth int, leaves map[uint64]H32) *SparseTree {
	t := &SparseTree{Depth: depth, levels: make([]map[uint64]H32, depth+1)}
	t.levels[0] = make(map[uint64]H32, len(leaves))
	for i, v := range leaves {
		if i>>uint(depth) != 0 {
			panic("model: leaf index beyond tree")
		}
		t.levels[0][i] = v
	}
	for l := 0; l < depth; l++ {
		cur := t.levels[l]
		next := make(map[uint64]H32, len(cur)/2+1)
		parents := make([]uint64, 0, len(cur))
		seen := make(map[uint64]struct{}, len(cur))
		for i := range cur {
			p := i >> 1
			if _, ok := seen[p]; !ok {
				seen[p] = struct{}{}
				parents = append(parents, p)
			}
		}
		sort.Slice(parents, func(a, b int) bool { return parents[a] < parents[b] })
		for _, p := range parents {
			next[p] = HashPair(t.node(l, 2*p), t.node(l, 2*p+1))
		}
		t.levels[l+1] = next
	}
	return t
}

func (t *SparseTree) node(level int, idx uint64) H32 {
	if v, ok := t.levels[level][idx]; ok {
		return v
	}
	return ZeroHash(level)
}

func (t *SparseTree) Root() H32 { return t.node(t.Depth, 0) }

// Leaf returns the leaf at index i (zero chunk when unset).
func (t *SparseTree) Leaf(i uint64) H32 { return t.node(0, i) }

// Branch returns the bottom-up siblings of leaf i (length Depth).
func (t *SparseTree) Branch(i uint64) []H32 {
	out := make([]H32, t.Depth)
	for l := 0; l < t.Depth; l++ {
		out[l] = t.node(l, (i>>uint(l))^1)
	}
	return out
}
