package vmodel

// Loaders for the repository's genuine mainnet vectors and accumulator assets.
// The accumulator files are parsed with a few lines of explicit SSZ reading
// (they are flat lists of 32-byte roots), not with the code under test.

import (
	"encoding/hex"
	"encoding/json"
	"fmt"
	"os"
	"path/filepath"
	"sort"
	"strings"

	"gopkg.in/yaml.v3"
)

// RepoDir is the checkout the harness is built against.
func RepoDir() string {
	if d := os.Getenv("VERIF_REPO"); d != "" {
		return d
	}
	return "/repo"
}

func MustHex(s string) []byte {
	s = strings.TrimPrefix(strings.TrimSpace(s), "0x")
	b, err := hex.DecodeString(s)
	if err != nil {
		panic(fmt.Sprintf("bad hex in vector: %v", err))
	}
	return b
}

// LoadMainnetAccumulators reads the embedded mainnet assets and the historical
// summaries test file.
func LoadMainnetAccumulators() (*Accumulators, error) {
	acc := &Accumulators{}
	macc, err := os.ReadFile(filepath.Join(RepoDir(), "validation/assets/merge_macc.bin"))
	if err != nil {
		return nil, err
	}
	// Container(historical_epochs: List[Bytes32, 1897]) = offset(4) ‖ roots
	if len(macc) < 4 || macc[0] != 4 || macc[1]|macc[2]|macc[3] != 0 || (len(macc)-4)%32 != 0 {
		return nil, fmt.Errorf("merge_macc.bin: unexpected layout")
	}
	acc.PreMergeEpochs = chunks(macc[4:])
	hr, err := os.ReadFile(filepath.Join(RepoDir(), "validation/assets/historical_roots.ssz"))
	if err != nil {
		return nil, err
	}
	if len(hr)%32 != 0 {
		return nil, fmt.Errorf("historical_roots.ssz: unexpected layout")
	}
	acc.HistoricalRoots = chunks(hr)
	hs, err := os.ReadFile(filepath.Join(RepoDir(), "validation/testdata/beacon_data/historical_summaries_at_slot_11476992.ssz"))
	if err != nil {
		return nil, err
	}
	// List[HistoricalSummary(block_summary_root, state_summary_root)]
	if len(hs)%64 != 0 {
		return nil, fmt.Errorf("historical_summaries: unexpected layout")
	}
	for i := 0; i < len(hs); i += 64 {
		var r H32
		copy(r[:], hs[i:])
		acc.Summaries = append(acc.Summaries, r)
	}
	return acc, nil
}

// RawSummaries returns the summaries test file as (block_summary_root, state_summary_root) pairs.
func RawSummaries() ([][2]H32, error) {
	hs, err := os.ReadFile(filepath.Join(RepoDir(), "validation/testdata/beacon_data/historical_summaries_at_slot_11476992.ssz"))
	if err != nil {
		return nil, err
	}
	var out [][2]H32
	for i := 0; i+64 <= len(hs); i += 64 {
		var p [2]H32
		copy(p[0][:], hs[i:])
		copy(p[1][:], hs[i+32:])
		out = append(out, p)
	}
	return out, nil
}

// ForksFile holds bodies/receipts of all eras but header proofs in an obsolete format.
const ForksFile = "history/testdata/test_data_collection_of_forks_blocks.yaml"

// KV is one (content key, content value) vector.
type KV struct {
	Source string
	Key    []byte
	Value  []byte
}

type yamlKV struct {
	ContentKey   string `yaml:"content_key"`
	ContentValue string `yaml:"content_value"`
}

// LoadHistoryVectors returns the genuine history vectors: the four pre-merge
// blocks of history/testdata/validation, the nine post-merge headers of
// types/history/testdata/header_with_proof.yaml and the six blocks (all four
// eras) of history/testdata/test_data_collection_of_forks_blocks.yaml.
func LoadHistoryVectors() ([]KV, error) {
	files, _ := filepath.Glob(filepath.Join(RepoDir(), "history/testdata/validation/*.yaml"))
	sort.Strings(files)
	// post-merge headers with proofs of the current format (3 Bellatrix, 4 Capella, 2 Deneb)
	files = append(files, filepath.Join(RepoDir(), "types/history/testdata/header_with_proof.yaml"))
	// bodies and receipts of all four eras; its post-merge header entries still carry the
	// obsolete union-style proof, so only their header RLP is genuine
	files = append(files, filepath.Join(RepoDir(), ForksFile))
	var out []KV
	seen := map[string]bool{}
	for _, f := range files {
		b, err := os.ReadFile(f)
		if err != nil {
			return nil, err
		}
		var es []yamlKV
		if err := yaml.Unmarshal(b, &es); err != nil {
			return nil, fmt.Errorf("%s: %v", f, err)
		}
		for _, e := range es {
			k := MustHex(e.ContentKey)
			if seen[string(k)] {
				continue
			}
			seen[string(k)] = true
			val := MustHex(e.ContentValue)
			if filepath.Base(f) == "header_with_proof.yaml" {
				if val, err = reorderOldPostMergeProof(val); err != nil {
					return nil, fmt.Errorf("%s: %v", f, err)
				}
			}
			out = append(out, KV{Source: filepath.Base(f), Key: k, Value: val})
		}
	}
	return out, nil
}

// reorderOldPostMergeProof: the three Bellatrix entries of
// types/history/testdata/header_with_proof.yaml were recorded when the spec
// ordered BlockProofHistoricalRoots as (block-hash branch[11], beacon_block_root,
// historical-roots branch[14], slot); the spec and the code now use
// (beacon_block_proof[14], beacon_block_root, execution_block_proof[11], slot),
// like the Capella/Deneb entries of the same file already do. The data is
// genuine mainnet data, so the loader moves the two branches into today's
// order. (The repository only uses this file for a decode test, which cannot
// notice the difference: both layouts are 840 bytes.)
func reorderOldPostMergeProof(content []byte) ([]byte, error) {
	hdr, proof, err := SplitHeaderWithProof(content)
	if err != nil {
		return nil, err
	}
	it, _, err := RLPSplit(hdr)
	if err != nil {
		return nil, err
	}
	items, err := RLPListItems(it.Payload)
	if err != nil || len(items) < 9 {
		return nil, fmt.Errorf("not a header")
	}
	var n uint64
	for _, c := range items[8].Payload {
		n = n<<8 | uint64(c)
	}
	if EraOf(n) != EraBellatrix {
		return content, nil
	}
	if len(proof) != 840 {
		return nil, fmt.Errorf("unexpected proof size %d", len(proof))
	}
	nb, nx := 14, 11
	np := make([]byte, 0, len(proof))
	np = append(np, proof[nx*32+32:nx*32+32+nb*32]...)
	np = append(np, proof[nx*32:nx*32+32]...)
	np = append(np, proof[:nx*32]...)
	np = append(np, proof[len(proof)-8:]...)
	out := append(le32(8), le32(8+len(hdr))...)
	out = append(out, hdr...)
	return append(out, np...), nil
}

// LoadPreMergeHeaderVectors: validation/testdata/header_with_proofs.json.
func LoadPreMergeHeaderVectors() ([]KV, error) {
	b, err := os.ReadFile(filepath.Join(RepoDir(), "validation/testdata/header_with_proofs.json"))
	if err != nil {
		return nil, err
	}
	m := map[string]map[string]string{}
	if err := json.Unmarshal(b, &m); err != nil {
		return nil, err
	}
	names := make([]string, 0, len(m))
	for k := range m {
		names = append(names, k)
	}
	sort.Strings(names)
	var out []KV
	for _, n := range names {
		out = append(out, KV{Source: "header_with_proofs.json:" + n, Key: MustHex(m[n]["content_key"]), Value: MustHex(m[n]["value"])})
	}
	return out, nil
}

// BlockProofVector is one validation/testdata/block_proofs_*/ file.
type BlockProofVector struct {
	Source     string
	Number     uint64
	HeaderHash H32
	Proof      []byte // the era's proof container, serialised
}

type yamlBlockProof struct {
	ExecutionBlockHeader string   `yaml:"execution_block_header"`
	ExecutionBlockProof  []string `yaml:"execution_block_proof"`
	BeaconBlockRoot      string   `yaml:"beacon_block_root"`
	BeaconBlockProof     []string `yaml:"beacon_block_proof"`
	Slot                 uint64   `yaml:"slot"`
}

func LoadBlockProofVectors() ([]BlockProofVector, error) {
	var out []BlockProofVector
	for _, era := range []string{"bellatrix", "capella", "deneb"} {
		files, _ := filepath.Glob(filepath.Join(RepoDir(), "validation/testdata/block_proofs_"+era, "*.yaml"))
		sort.Strings(files)
		for _, f := range files {
			b, err := os.ReadFile(f)
			if err != nil {
				return nil, err
			}
			var y yamlBlockProof
			if err := yaml.Unmarshal(b, &y); err != nil {
				return nil, err
			}
			v := BlockProofVector{Source: era + "/" + filepath.Base(f)}
			if _, err := fmt.Sscanf(filepath.Base(f), "beacon_block_proof-%d.yaml", &v.Number); err != nil {
				return nil, err
			}
			copy(v.HeaderHash[:], MustHex(y.ExecutionBlockHeader))
			for _, s := range y.BeaconBlockProof {
				v.Proof = append(v.Proof, MustHex(s)...)
			}
			v.Proof = append(v.Proof, MustHex(y.BeaconBlockRoot)...)
			for _, s := range y.ExecutionBlockProof {
				v.Proof = append(v.Proof, MustHex(s)...)
			}
			sc := Uint64Chunk(y.Slot)
			v.Proof = append(v.Proof, sc[:8]...)
			out = append(out, v)
		}
	}
	return out, nil
}

// StateVector is one case of state/testdata/*.yaml.
type StateVector struct {
	Source      string
	BlockHeader []byte
	Key         []byte
	Offer       []byte
	Retrieval   []byte
}

type yamlState struct {
	BlockHeader           string `yaml:"block_header"`
	ContentKey            string `yaml:"content_key"`
	ContentValueOffer     string `yaml:"content_value_offer"`
	ContentValueRetrieval string `yaml:"content_value_retrieval"`
}

func LoadStateVectors() ([]StateVector, error) {
	var out []StateVector
	for _, name := range []string{"account_trie_node.yaml", "contract_storage_trie_node.yaml", "contract_bytecode.yaml"} {
		b, err := os.ReadFile(filepath.Join(RepoDir(), "state/testdata", name))
		if err != nil {
			return nil, err
		}
		var ys []yamlState
		if err := yaml.Unmarshal(b, &ys); err != nil {
			return nil, err
		}
		for _, y := range ys {
			out = append(out, StateVector{Source: name, BlockHeader: MustHex(y.BlockHeader), Key: MustHex(y.ContentKey),
				Offer: MustHex(y.ContentValueOffer), Retrieval: MustHex(y.ContentValueRetrieval)})
		}
	}
	return out, nil
}
