package vmodel

// Minimal RLP reader/writer written from the yellow paper (appendix B).
// Used by the reference MPT walker and the ordered-trie root calculator so
// that they do not depend on go-ethereum's rlp or trie packages.

import (
	"errors"
)

type RLPItem struct {
	IsList  bool
	Payload []byte // string content, or concatenated encodings of the list members
	Raw     []byte // the complete encoding of this item
}

var errRLP = errors.New("model: malformed rlp")

// RLPSplit reads one item from the front of b.
func RLPSplit(b []byte) (it RLPItem, rest []byte, err error) {
	if len(b) == 0 {
		return it, nil, errRLP
	}
	p := b[0]
	var hdr, n uint64
	switch {
	case p < 0x80:
		return RLPItem{Payload: b[:1], Raw: b[:1]}, b[1:], nil
	case p <= 0xb7:
		hdr, n = 1, uint64(p-0x80)
	case p <= 0xbf:
		ll := uint64(p - 0xb7)
		if uint64(len(b)) < 1+ll {
			return it, nil, errRLP
		}
		for _, c := range b[1 : 1+ll] {
			n = n<<8 | uint64(c)
		}
		hdr = 1 + ll
	case p <= 0xf7:
		hdr, n = 1, uint64(p-0xc0)
		it.IsList = true
	default:
		ll := uint64(p - 0xf7)
		if uint64(len(b)) < 1+ll {
			return it, nil, errRLP
		}
		for _, c := range b[1 : 1+ll] {
			n = n<<8 | uint64(c)
		}
		hdr = 1 + ll
		it.IsList = true
	}
	if n > uint64(len(b)) || hdr+n > uint64(len(b)) {
		return RLPItem{}, nil, errRLP
	}
	it.Payload = b[hdr : hdr+n]
	it.Raw = b[:hdr+n]
	return it, b[hdr+n:], nil
}

// RLPListItems splits the payload of a list into its members.
func RLPListItems(payload []byte) ([]RLPItem, error) {
	var out []RLPItem
	for len(payload) > 0 {
		it, rest, err := RLPSplit(payload)
		if err != nil {
			return nil, err
		}
		out = append(out, it)
		payload = rest
	}
	return out, nil
}

func rlpLenPrefix(n int, short, long byte) []byte {
	if n < 56 {
		return []byte{short + byte(n)}
	}
	var lb []byte
	for v := n; v > 0; v >>= 8 {
		lb = append([]byte{byte(v)}, lb...)
	}
	return append([]byte{long + byte(len(lb))}, lb...)
}

// RLPString encodes a byte string.
func RLPString(s []byte) []byte {
	if len(s) == 1 && s[0] < 0x80 {
		return []byte{s[0]}
	}
	return append(rlpLenPrefix(len(s), 0x80, 0xb7), s...)
}

// RLPList wraps already-encoded members into a list.
func RLPList(members ...[]byte) []byte {
	n := 0
	for _, m := range members {
		n += len(m)
	}
	out := rlpLenPrefix(n, 0xc0, 0xf7)
	for _, m := range members {
		out = append(out, m...)
	}
	return out
}

// RLPUint encodes an unsigned integer (big endian, no leading zeros).
func RLPUint(v uint64) []byte {
	var b []byte
	for ; v > 0; v >>= 8 {
		b = append([]byte{byte(v)}, b...)
	}
	return RLPString(b)
}
