package vmodel

// SSZ readers/writers for the state-network keys and content values, from the
// portal state spec, and the acceptance predicate of property C13.

import (
	"encoding/binary"
	"errors"
	"fmt"
)

const (
	StateAccountTrieNode byte = 0x20
	StateStorageTrieNode byte = 0x21
	StateBytecode        byte = 0x22
)

// StateKey is a decoded state content key.
type StateKey struct {
	Kind        byte
	AddressHash H32    // storage node, bytecode
	Path        []byte // nibbles (trie node kinds)
	Hash        H32    // node hash / code hash
}

// PackNibbles is the spec's Nibbles encoding: flag byte 0x00 (even) or 0x1n (odd, n = first nibble).
func PackNibbles(n []byte) []byte {
	var out []byte
	if len(n)%2 == 0 {
		out = append(out, 0)
	} else {
		out = append(out, 0x10|n[0])
		n = n[1:]
	}
	for i := 0; i < len(n); i += 2 {
		out = append(out, n[i]<<4|n[i+1])
	}
	return out
}

func UnpackNibbles(b []byte) ([]byte, error) {
	if len(b) == 0 {
		return nil, errors.New("model: empty nibbles")
	}
	var out []byte
	switch b[0] >> 4 {
	case 0:
		if b[0]&15 != 0 {
			return nil, errors.New("model: nibbles padding")
		}
	case 1:
		out = append(out, b[0]&15)
	default:
		return nil, errors.New("model: nibbles flag")
	}
	for _, c := range b[1:] {
		out = append(out, c>>4, c&15)
	}
	if len(out) > 64 {
		return nil, errors.New("model: more than 64 nibbles")
	}
	return out, nil
}

func le32(v int) []byte {
	var b [4]byte
	binary.LittleEndian.PutUint32(b[:], uint32(v))
	return b[:]
}

func (k StateKey) Encode() []byte {
	out := []byte{k.Kind}
	switch k.Kind {
	case StateAccountTrieNode:
		out = append(out, le32(36)...)
		out = append(out, k.Hash[:]...)
		out = append(out, PackNibbles(k.Path)...)
	case StateStorageTrieNode:
		out = append(out, k.AddressHash[:]...)
		out = append(out, le32(68)...)
		out = append(out, k.Hash[:]...)
		out = append(out, PackNibbles(k.Path)...)
	case StateBytecode:
		out = append(out, k.AddressHash[:]...)
		out = append(out, k.Hash[:]...)
	}
	return out
}

func DecodeStateKey(b []byte) (*StateKey, error) {
	if len(b) == 0 {
		return nil, errors.New("model: empty key")
	}
	k := &StateKey{Kind: b[0]}
	b = b[1:]
	switch k.Kind {
	case StateAccountTrieNode:
		if len(b) < 36 || binary.LittleEndian.Uint32(b) != 36 {
			return nil, errSSZ
		}
		copy(k.Hash[:], b[4:36])
		p, err := UnpackNibbles(b[36:])
		if err != nil {
			return nil, err
		}
		k.Path = p
	case StateStorageTrieNode:
		if len(b) < 68 || binary.LittleEndian.Uint32(b[32:]) != 68 {
			return nil, errSSZ
		}
		copy(k.AddressHash[:], b[:32])
		copy(k.Hash[:], b[36:68])
		p, err := UnpackNibbles(b[68:])
		if err != nil {
			return nil, err
		}
		k.Path = p
	case StateBytecode:
		if len(b) != 64 {
			return nil, errSSZ
		}
		copy(k.AddressHash[:], b[:32])
		copy(k.Hash[:], b[32:])
	default:
		return nil, fmt.Errorf("model: unknown state key selector %#x", k.Kind)
	}
	return k, nil
}

// StateOffer is a decoded offer content value.
type StateOffer struct {
	Proof        [][]byte // account trie node: the proof; storage node: the storage proof
	AccountProof [][]byte // storage node, bytecode
	Code         []byte   // bytecode
	BlockHash    H32
}

func encodeByteLists(items [][]byte) []byte {
	var out []byte
	off := 4 * len(items)
	for _, it := range items {
		out = append(out, le32(off)...)
		off += len(it)
	}
	for _, it := range items {
		out = append(out, it...)
	}
	return out
}

func (o StateOffer) Encode(kind byte) []byte {
	switch kind {
	case StateAccountTrieNode:
		out := append(le32(36), o.BlockHash[:]...)
		return append(out, encodeByteLists(o.Proof)...)
	case StateStorageTrieNode:
		sp := encodeByteLists(o.Proof)
		out := append(le32(40), le32(40+len(sp))...)
		out = append(out, o.BlockHash[:]...)
		out = append(out, sp...)
		return append(out, encodeByteLists(o.AccountProof)...)
	case StateBytecode:
		out := append(le32(40), le32(40+len(o.Code))...)
		out = append(out, o.BlockHash[:]...)
		out = append(out, o.Code...)
		return append(out, encodeByteLists(o.AccountProof)...)
	}
	return nil
}

func DecodeStateOffer(kind byte, b []byte) (*StateOffer, error) {
	o := &StateOffer{}
	var err error
	switch kind {
	case StateAccountTrieNode:
		if len(b) < 36 || binary.LittleEndian.Uint32(b) != 36 {
			return nil, errSSZ
		}
		copy(o.BlockHash[:], b[4:36])
		if o.Proof, err = sszListOfByteLists(b[36:]); err != nil {
			return nil, err
		}
	case StateStorageTrieNode, StateBytecode:
		if len(b) < 40 || binary.LittleEndian.Uint32(b) != 40 {
			return nil, errSSZ
		}
		o1 := int(binary.LittleEndian.Uint32(b[4:]))
		if o1 < 40 || o1 > len(b) {
			return nil, errSSZ
		}
		copy(o.BlockHash[:], b[8:40])
		if o.AccountProof, err = sszListOfByteLists(b[o1:]); err != nil {
			return nil, err
		}
		if kind == StateBytecode {
			o.Code = b[40:o1]
		} else if o.Proof, err = sszListOfByteLists(b[40:o1]); err != nil {
			return nil, err
		}
	default:
		return nil, fmt.Errorf("model: unknown state kind %#x", kind)
	}
	return o, nil
}

// StateRetrievalValue is what a node stores and serves for an accepted offer:
// Container(node: ByteList) resp. Container(code: ByteList) = offset(4) ‖ bytes.
func StateRetrievalValue(payload []byte) []byte {
	return append(le32(4), payload...)
}

// StateOfferVerdict is the reference acceptance predicate of C13. stateRoot is
// the state root of the header whose hash is offer.BlockHash (the caller
// resolves it; an unknown block hash must be rejected before getting here).
// On acceptance it returns the bytes that are to be stored (the final node, or
// the code).
func StateOfferVerdict(k *StateKey, o *StateOffer, stateRoot H32) (store []byte, err error) {
	switch k.Kind {
	case StateAccountTrieNode:
		if err := VerifyMPTNodeProof(stateRoot, k.Path, k.Hash, o.Proof); err != nil {
			return nil, err
		}
		return o.Proof[len(o.Proof)-1], nil
	case StateStorageTrieNode:
		acct, err := VerifyMPTAccountProof(stateRoot, k.AddressHash, o.AccountProof)
		if err != nil {
			return nil, fmt.Errorf("account proof: %w", err)
		}
		if err := VerifyMPTNodeProof(acct.StorageRoot, k.Path, k.Hash, o.Proof); err != nil {
			return nil, fmt.Errorf("storage proof: %w", err)
		}
		return o.Proof[len(o.Proof)-1], nil
	case StateBytecode:
		acct, err := VerifyMPTAccountProof(stateRoot, k.AddressHash, o.AccountProof)
		if err != nil {
			return nil, fmt.Errorf("account proof: %w", err)
		}
		if acct.CodeHash != k.Hash {
			return nil, errors.New("proven account's code hash differs from the key's")
		}
		if Keccak(o.Code) != k.Hash {
			return nil, errors.New("code does not hash to the key's code hash")
		}
		return o.Code, nil
	}
	return nil, errors.New("unknown kind")
}
