package vmodel

// Unit tests of the C02/C03/C13 reference models against the repository's
// genuine mainnet vectors and against go-ethereum's trie (differentially).

import (
	"bytes"
	"encoding/binary"
	"math/rand"
	"path/filepath"
	"testing"

	"github.com/ethereum/go-ethereum/core/rawdb"
	"github.com/ethereum/go-ethereum/core/types"
	"github.com/ethereum/go-ethereum/rlp"
	"github.com/ethereum/go-ethereum/trie"
	"github.com/ethereum/go-ethereum/triedb"
)

func TestModelHeaderProofsGenuine(t *testing.T) {
	acc, err := LoadMainnetAccumulators()
	if err != nil {
		t.Fatal(err)
	}
	if len(acc.PreMergeEpochs) != PreMergeEpochs || len(acc.HistoricalRoots) != 758 {
		t.Fatalf("unexpected accumulator sizes %d %d", len(acc.PreMergeEpochs), len(acc.HistoricalRoots))
	}
	bp, err := LoadBlockProofVectors()
	if err != nil || len(bp) < 8 {
		t.Fatalf("block proof vectors: %v (%d)", err, len(bp))
	}
	eras := map[Era]int{}
	for _, v := range bp {
		ok, why := HeaderProofVerdict(acc, v.Number, v.HeaderHash, v.Proof)
		if !ok {
			t.Errorf("%s: genuine proof rejected by the reference: %s", v.Source, why)
		}
		eras[EraOf(v.Number)]++
		// any single flipped byte must be rejected
		nb, _ := PostMergeProofLayout(EraOf(v.Number))
		positions := []int{0, 31, 32 * 5, len(v.Proof) - 9, len(v.Proof) - 40}
		if !bytes.Equal(v.Proof[:32], v.Proof[nb*32:nb*32+32]) {
			// (when the neighbouring slot was missed its block root repeats this one, and the
			// proof is genuinely valid for slot^1 as well: block 17034870)
			positions = append(positions, len(v.Proof)-8)
		}
		for _, pos := range positions {
			m := append([]byte{}, v.Proof...)
			m[pos] ^= 0x01
			if ok, _ := HeaderProofVerdict(acc, v.Number, v.HeaderHash, m); ok {
				t.Errorf("%s: proof with byte %d flipped accepted by the reference", v.Source, pos)
			}
		}
	}
	if eras[EraBellatrix] == 0 || eras[EraCapella] == 0 || eras[EraDeneb] == 0 {
		t.Fatalf("eras not covered: %v", eras)
	}
	pm, err := LoadPreMergeHeaderVectors()
	if err != nil || len(pm) == 0 {
		t.Fatalf("pre-merge vectors: %v", err)
	}
	for _, v := range pm {
		hdr, proof, err := SplitHeaderWithProof(v.Value)
		if err != nil {
			t.Fatalf("%s: %v", v.Source, err)
		}
		h, bound := HeaderKeyBinding(v.Key, hdr)
		if h == nil || !bound {
			t.Errorf("%s: header not bound to its key", v.Source)
			continue
		}
		if ok, why := HeaderProofVerdict(acc, h.Number.Uint64(), Keccak(hdr), proof); !ok {
			t.Errorf("%s: genuine pre-merge proof rejected by the reference: %s", v.Source, why)
		}
		if ok, _ := HeaderProofVerdict(acc, h.Number.Uint64()+1, Keccak(hdr), proof); ok {
			t.Errorf("%s: proof accepted for the neighbouring position", v.Source)
		}
	}
}

func TestModelHistoryContentGenuine(t *testing.T) {
	acc, err := LoadMainnetAccumulators()
	if err != nil {
		t.Fatal(err)
	}
	vs, err := LoadHistoryVectors()
	if err != nil {
		t.Fatal(err)
	}
	headers := map[H32]*types.Header{}
	nh, nb, nr := 0, 0, 0
	for _, v := range vs {
		if v.Key[0] == 0 || v.Key[0] == 3 {
			hdr, proof, err := SplitHeaderWithProof(v.Value)
			if err != nil {
				t.Fatalf("%s %x: %v", v.Source, v.Key, err)
			}
			h, bound := HeaderKeyBinding(v.Key, hdr)
			if h == nil || !bound {
				t.Errorf("%s %x: header not bound to key", v.Source, v.Key)
				continue
			}
			if Keccak(hdr) != H32(h.Hash()) {
				t.Errorf("keccak(raw header) differs from go-ethereum's header hash")
			}
			headers[Keccak(hdr)] = h
			if v.Source == filepath.Base(ForksFile) && h.Number.Uint64() >= MergeBlock {
				if ok, _ := HeaderProofVerdict(acc, h.Number.Uint64(), Keccak(hdr), proof); ok {
					t.Errorf("obsolete proof format accepted by the reference")
				}
				continue
			}
			if ok, why := HeaderProofVerdict(acc, h.Number.Uint64(), Keccak(hdr), proof); !ok {
				t.Errorf("%s %x (block %d): genuine proof rejected by the reference: %s", v.Source, v.Key, h.Number, why)
			}
			nh++
		}
	}
	for _, v := range vs {
		var hash H32
		if len(v.Key) == 33 {
			copy(hash[:], v.Key[1:])
		}
		switch v.Key[0] {
		case 1:
			h := headers[hash]
			if h == nil {
				t.Fatalf("no header for body %x", v.Key)
			}
			b, err := SplitPortalBody(v.Value)
			if err != nil {
				t.Fatalf("%s %x: %v", v.Source, v.Key, err)
			}
			if r := BodyBoundRaw(b, h); !r.Bound {
				t.Errorf("%s %x (block %d): genuine body not bound: %s", v.Source, v.Key, h.Number, r.Reason)
			}
			cb, err := CanonicalBody(b)
			if err != nil {
				t.Fatalf("canonical body: %v", err)
			}
			if r := BodyBoundRaw(cb, h); !r.Bound {
				t.Errorf("%s %x: canonical body not bound: %s", v.Source, v.Key, r.Reason)
			}
			// a body bound to its header is not bound to any other
			for oh, other := range headers {
				if oh != hash && other.TxHash != h.TxHash {
					if BodyBoundRaw(b, other).Bound {
						t.Errorf("body %x bound to foreign header", v.Key)
					}
				}
			}
			nb++
		case 2:
			h := headers[hash]
			if h == nil {
				t.Fatalf("no header for receipts %x", v.Key)
			}
			rs, err := SplitPortalReceipts(v.Value)
			if err != nil {
				t.Fatalf("%s %x: %v", v.Source, v.Key, err)
			}
			if !ReceiptsBoundRaw(rs, h) {
				t.Errorf("%s %x (block %d): genuine receipts not bound", v.Source, v.Key, h.Number)
			}
			cr, err := CanonicalReceipts(rs)
			if err != nil || !ReceiptsBoundRaw(cr, h) {
				t.Errorf("%s %x: canonical receipts not bound (%v)", v.Source, v.Key, err)
			}
			nr++
		}
	}
	if nh < 10 || nb < 6 || nr < 6 {
		t.Fatalf("too few vectors: %d headers %d bodies %d receipts", nh, nb, nr)
	}
}

func TestModelStateGenuine(t *testing.T) {
	vs, err := LoadStateVectors()
	if err != nil || len(vs) < 3 {
		t.Fatalf("state vectors: %v", err)
	}
	kinds := map[byte]int{}
	for _, v := range vs {
		hdr := new(types.Header)
		if err := rlp.DecodeBytes(v.BlockHeader, hdr); err != nil {
			t.Fatal(err)
		}
		k, err := DecodeStateKey(v.Key)
		if err != nil {
			t.Fatalf("%s: key: %v", v.Source, err)
		}
		if !bytes.Equal(k.Encode(), v.Key) {
			t.Errorf("%s: key does not re-encode", v.Source)
		}
		o, err := DecodeStateOffer(k.Kind, v.Offer)
		if err != nil {
			t.Fatalf("%s: offer: %v", v.Source, err)
		}
		if !bytes.Equal(o.Encode(k.Kind), v.Offer) {
			t.Errorf("%s: offer does not re-encode", v.Source)
		}
		if o.BlockHash != H32(hdr.Hash()) {
			t.Errorf("%s: offer names another block", v.Source)
		}
		store, err := StateOfferVerdict(k, o, H32(hdr.Root))
		if err != nil {
			t.Errorf("%s: genuine offer rejected by the reference: %v", v.Source, err)
			continue
		}
		if !bytes.Equal(StateRetrievalValue(store), v.Retrieval) {
			t.Errorf("%s: retrieval value differs from the vector's", v.Source)
		}
		kinds[k.Kind]++
		// wrong root, shortened path, dropped node
		bad := H32(hdr.Root)
		bad[7] ^= 1
		if _, err := StateOfferVerdict(k, o, bad); err == nil {
			t.Errorf("%s: accepted under a wrong state root", v.Source)
		}
		if k.Kind != StateBytecode && len(k.Path) > 0 {
			k2 := *k
			k2.Path = k.Path[:len(k.Path)-1]
			if _, err := StateOfferVerdict(&k2, o, H32(hdr.Root)); err == nil {
				t.Errorf("%s: accepted with a shortened path", v.Source)
			}
		}
		if len(o.Proof) > 1 {
			o2 := *o
			o2.Proof = append(append([][]byte{}, o.Proof[:len(o.Proof)-2]...), o.Proof[len(o.Proof)-1])
			if _, err := StateOfferVerdict(k, &o2, H32(hdr.Root)); err == nil {
				t.Errorf("%s: accepted with a dropped node", v.Source)
			}
		}
	}
	if kinds[StateAccountTrieNode] == 0 || kinds[StateStorageTrieNode] == 0 || kinds[StateBytecode] == 0 {
		t.Fatalf("kinds not covered: %v", kinds)
	}
}

// MPTRoot against go-ethereum's trie on random key sets including short keys,
// shared prefixes and keys that are prefixes of others.
func TestModelMPTRootDifferential(t *testing.T) {
	rng := rand.New(rand.NewSource(7))
	for iter := 0; iter < 400; iter++ {
		n := 1 + rng.Intn(60)
		tr := trie.NewEmpty(triedb.NewDatabase(rawdb.NewMemoryDatabase(), nil))
		var keys, vals [][]byte
		for i := 0; i < n; i++ {
			kl := []int{1, 2, 3, 32}[rng.Intn(4)]
			k := make([]byte, kl)
			rng.Read(k)
			if rng.Intn(3) == 0 {
				for j := range k {
					k[j] &= 0x11
				}
			}
			vl := []int{1, 2, 5, 31, 32, 33, 70}[rng.Intn(7)]
			v := make([]byte, vl)
			rng.Read(v)
			v[0] |= 1
			tr.MustUpdate(k, v)
			keys = append(keys, BytesToNibbles(k))
			vals = append(vals, v)
		}
		if got, want := MPTRoot(keys, vals), H32(tr.Hash()); got != want {
			t.Fatalf("iter %d: MPTRoot %x, go-ethereum %x", iter, got, want)
		}
	}
	// ordered tries of every size around the rlp(index) encoding boundaries
	for _, n := range []int{0, 1, 2, 16, 17, 127, 128, 129, 200, 300} {
		items := make([][]byte, n)
		for i := range items {
			items[i] = bytes.Repeat([]byte{byte(i)}, 1+i%90)
			items[i][0] |= 0x80
			items[i] = binary.BigEndian.AppendUint16(items[i], uint16(i))
		}
		tr := trie.NewEmpty(triedb.NewDatabase(rawdb.NewMemoryDatabase(), nil))
		for i, it := range items {
			tr.MustUpdate(rlp.AppendUint64(nil, uint64(i)), it)
		}
		if got, want := OrderedTrieRoot(items), H32(tr.Hash()); got != want {
			t.Fatalf("ordered trie of %d items: %x vs %x", n, got, want)
		}
	}
}

func TestModelSparseTree(t *testing.T) {
	leaves := map[uint64]H32{0: {1}, 5: {2}, 8191: {3}}
	tr := NewSparseTree(13, leaves)
	for i, v := range leaves {
		if !VerifyBranch(v, tr.Branch(i), 8192+i, tr.Root()) {
			t.Fatalf("leaf %d does not verify", i)
		}
		if VerifyBranch(v, tr.Branch(i), 8192+(i^1), tr.Root()) {
			t.Fatalf("leaf %d verifies at the neighbouring position", i)
		}
	}
	if !VerifyBranch(H32{}, tr.Branch(77), 8192+77, tr.Root()) {
		t.Fatal("zero leaf does not verify")
	}
	if VerifyBranch(H32{1}, tr.Branch(0)[:12], 8192, tr.Root()) {
		t.Fatal("short branch verifies")
	}
	if NewSparseTree(13, nil).Root() != ZeroHash(13) {
		t.Fatal("empty tree root")
	}
}
