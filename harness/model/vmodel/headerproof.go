package vmodel

// Reference for "does this proof show that the header hash is the leaf
// committed at the position fixed by the block number (pre-merge) or by the
// proof's slot (post-merge) of the supplied accumulators" — property C03.
// Written from the portal history spec and the consensus-spec container
// layouts; it shares no code with validation/header_validator.go.

import "encoding/binary"

const (
	MergeBlock       uint64 = 15_537_394
	ShanghaiBlock    uint64 = 17_034_870
	CancunBlock      uint64 = 19_426_587
	EpochSize        uint64 = 8192
	CapellaStartSlot uint64 = 194_048 * 32
	PreMergeEpochs          = 1897

	// generalized index of execution_payload.block_hash inside a BeaconBlock
	// Bellatrix/Capella: BeaconBlock(5 fields → 8) .body(4) → BeaconBlockBody(10/11 fields → 16) .execution_payload(9)
	//   → ExecutionPayload(14/15 fields → 16) .block_hash(12)
	GindexBlockHashBellatrix uint64 = ((1*8+4)*16+9)*16 + 12 // 3228
	// Deneb: ExecutionPayload has 17 fields → 32
	GindexBlockHashDeneb uint64 = ((1*8+4)*16+9)*32 + 12 // 6444
)

type Era int

const (
	EraPreMerge Era = iota
	EraBellatrix
	EraCapella
	EraDeneb
)

func (e Era) String() string { return [...]string{"premerge", "bellatrix", "capella", "deneb"}[e] }

func EraOf(number uint64) Era {
	switch {
	case number < MergeBlock:
		return EraPreMerge
	case number < ShanghaiBlock:
		return EraBellatrix
	case number < CancunBlock:
		return EraCapella
	default:
		return EraDeneb
	}
}

// Accumulators is the trusted input of the header validator.
type Accumulators struct {
	PreMergeEpochs  []H32 // epoch accumulator roots, index = number / 8192
	HistoricalRoots []H32 // state.historical_roots, index = slot / 8192
	Summaries       []H32 // historical_summaries[i].block_summary_root, index = (slot - capella start) / 8192
}

// Reasons returned by HeaderProofVerdict.
const (
	HPOk           = "ok"
	HPSize         = "proof-size"
	HPPosition     = "position-out-of-range"
	HPLeaf         = "leaf-branch-mismatch"   // pre-merge branch / post-merge execution branch does not fold to the committed node
	HPBeaconBranch = "beacon-branch-mismatch" // beacon block root is not at the slot's position
)

func chunks(b []byte) []H32 {
	out := make([]H32, len(b)/32)
	for i := range out {
		copy(out[i][:], b[i*32:])
	}
	return out
}

// PostMergeProofLayout: beacon branch length, execution branch length per era.
func PostMergeProofLayout(e Era) (beacon, exec int) {
	switch e {
	case EraBellatrix:
		return 14, 11
	case EraCapella:
		return 13, 11
	case EraDeneb:
		return 13, 12
	}
	return 0, 0
}

// PostMergeProofSize is the byte size of the fixed-size proof container of an era.
func PostMergeProofSize(e Era) int {
	b, x := PostMergeProofLayout(e)
	return b*32 + 32 + x*32 + 8
}

// HeaderProofVerdict is the reference verdict for (header number, header hash, proof bytes).
func HeaderProofVerdict(acc *Accumulators, number uint64, hash H32, proof []byte) (bool, string) {
	era := EraOf(number)
	if era == EraPreMerge {
		// BlockProofHistoricalHashesAccumulator = Vector[Bytes32, 15]
		if len(proof) != 15*32 {
			return false, HPSize
		}
		epoch := number / EpochSize
		if epoch >= uint64(len(acc.PreMergeEpochs)) {
			return false, HPPosition
		}
		// EpochAccumulator = List[HeaderRecord, 8192]: root -> (data, length); data tree depth 13;
		// HeaderRecord = (block_hash, total_difficulty) -> block_hash is the left child.
		g := ((1*2+0)*EpochSize+number%EpochSize)*2 + 0
		if !VerifyBranch(hash, chunks(proof), g, acc.PreMergeEpochs[epoch]) {
			return false, HPLeaf
		}
		return true, HPOk
	}
	nb, nx := PostMergeProofLayout(era)
	if len(proof) != PostMergeProofSize(era) {
		return false, HPSize
	}
	beaconBranch := chunks(proof[:nb*32])
	var blockRoot H32
	copy(blockRoot[:], proof[nb*32:])
	execBranch := chunks(proof[nb*32+32 : nb*32+32+nx*32])
	slot := binary.LittleEndian.Uint64(proof[len(proof)-8:])

	g := GindexBlockHashBellatrix
	if era == EraDeneb {
		g = GindexBlockHashDeneb
	}
	if !VerifyBranch(hash, execBranch, g, blockRoot) {
		return false, HPLeaf
	}
	if era == EraBellatrix {
		// HistoricalBatch = (block_roots: Vector[Root, 8192], state_roots: Vector[Root, 8192])
		idx := slot / EpochSize
		if idx >= uint64(len(acc.HistoricalRoots)) {
			return false, HPPosition
		}
		g := (1*2+0)*EpochSize + slot%EpochSize
		if !VerifyBranch(blockRoot, beaconBranch, g, acc.HistoricalRoots[idx]) {
			return false, HPBeaconBranch
		}
		return true, HPOk
	}
	// HistoricalSummary.block_summary_root = hash_tree_root(block_roots: Vector[Root, 8192])
	if slot < CapellaStartSlot {
		return false, HPPosition
	}
	idx := (slot - CapellaStartSlot) / EpochSize
	if idx >= uint64(len(acc.Summaries)) {
		return false, HPPosition
	}
	gi := EpochSize + slot%EpochSize
	if !VerifyBranch(blockRoot, beaconBranch, gi, acc.Summaries[idx]) {
		return false, HPBeaconBranch
	}
	return true, HPOk
}
