package kad

// Bucket-policy reference model of the Kademlia routing table (properties C07/C18).
//
// Written from the statements:
//
//   - 17 buckets; the farthest log-distance (256) has the last bucket, every bucket
//     above the first holds exactly one log-distance, everything closer shares bucket 0;
//   - a bucket holds <= 16 entries and <= 10 replacements (most recent first);
//   - a newcomer for a full bucket only enters the replacement list, no entry leaves;
//   - an entry leaves only (a) on a failed liveness answer when credit/3 reaches 0,
//     (b) on a fruitless node query when it is at least the fifth consecutive one and
//     the bucket has >= 4 entries, (c) by explicit deletion; one replacement (any)
//     then takes its place;
//   - a stored record changes only to a higher sequence number (any change on inbound
//     contact); an endpoint change clears the verified flag;
//   - among non-LAN addresses <= 2 per bucket and <= 10 per table from one /24,
//     counted over the nodes present (entries and replacements).
//
// The one choice the statement leaves open (WHICH replacement is promoted) is
// resolved by a callback, so the model stays deterministic and the caller can
// accept every allowed outcome.

import (
	"fmt"
	"math/bits"
	"net/netip"
	"sort"
)

const (
	KadBucketSize       = 16
	KadMaxReplacements  = 10
	KadBuckets          = 17
	KadBucketIPLimit    = 2
	KadTableIPLimit     = 10
	KadAlpha            = 3 // lookup concurrency
	KadMaxFindFails     = 5
	KadMinBucketForDrop = 4 // a fruitless-query removal needs this many entries in the bucket
)

type KadID = [32]byte

// KadLogDist is the logarithmic XOR distance (0 for equal ids, 256 for ids
// differing in the top bit).
func KadLogDist(a, b KadID) int {
	for i := range a {
		if x := a[i] ^ b[i]; x != 0 {
			return (31-i)*8 + bits.Len8(x)
		}
	}
	return 0
}

// KadBucketOf maps a log-distance to its bucket index.
func KadBucketOf(d int) int {
	if d <= 256-(KadBuckets-1) {
		return 0
	}
	return d - (256 - (KadBuckets - 1))
}

// KadIsLAN: loopback and private-use ranges are exempt from the /24 limits.
func KadIsLAN(ip netip.Addr) bool {
	ip = ip.Unmap()
	if ip.IsLoopback() || ip.IsPrivate() {
		return true
	}
	return false
}

// KadSubnetKey is the /24 an address counts under ("" = not counted).
func KadSubnetKey(ip netip.Addr) string {
	if !ip.IsValid() || KadIsLAN(ip) {
		return ""
	}
	p, err := ip.Prefix(24)
	if err != nil {
		return ""
	}
	return p.String()
}

// KadRec is a node record as the table sees it.
type KadRec struct {
	ID  KadID
	Seq uint64
	IP  netip.Addr
	UDP int
}

type KadNode struct {
	KadRec
	Live   bool
	Credit uint
	Gen    int // identity of this table membership (a re-added node gets a new one)
}

type KadBucket struct {
	Entries []*KadNode // order is not part of the model
	Repl    []*KadNode // most recent first
}

type KadTable struct {
	Local KadID
	B     [KadBuckets]KadBucket
	fails map[string]int
	gen   int

	// Events of the last operation (for class counting by the caller).
	Ev []string
}

func NewKadTable(local KadID) *KadTable {
	return &KadTable{Local: local, fails: map[string]int{}}
}

// Promote chooses which of the candidates (the bucket's replacement list, in
// order) succeeds a removed entry.
type Promote func(bucket int, removed KadID, candidates []KadID) (KadID, error)

func (t *KadTable) ev(s string) { t.Ev = append(t.Ev, s) }

func (t *KadTable) bucket(id KadID) (int, *KadBucket) {
	i := KadBucketOf(KadLogDist(t.Local, id))
	return i, &t.B[i]
}

func find(list []*KadNode, id KadID) int {
	for i, n := range list {
		if n.ID == id {
			return i
		}
	}
	return -1
}

// Entry returns the entry with this id or nil.
func (t *KadTable) Entry(id KadID) *KadNode {
	_, b := t.bucket(id)
	if i := find(b.Entries, id); i >= 0 {
		return b.Entries[i]
	}
	return nil
}

// ipFits reports whether one more node with this address may be admitted to
// bucket bi, optionally not counting one node (the record being replaced).
func (t *KadTable) ipFits(bi int, ip netip.Addr, except *KadNode) bool {
	if !ip.IsValid() || ip.IsUnspecified() {
		return false
	}
	key := KadSubnetKey(ip)
	if key == "" {
		return true
	}
	inBucket, inTable := 0, 0
	for i := range t.B {
		for _, l := range [][]*KadNode{t.B[i].Entries, t.B[i].Repl} {
			for _, n := range l {
				if n == except || KadSubnetKey(n.IP) != key {
					continue
				}
				inTable++
				if i == bi {
					inBucket++
				}
			}
		}
	}
	return inBucket < KadBucketIPLimit && inTable < KadTableIPLimit
}

// update applies the record rule to an existing entry.
func (t *KadTable) update(bi int, n *KadNode, rec KadRec, inbound bool) {
	if rec.Seq <= n.Seq && !inbound {
		if rec.Seq < n.Seq || rec.IP != n.IP || rec.UDP != n.UDP {
			t.ev("update-rejected-not-newer")
		}
		return
	}
	ipChanged := rec.IP != n.IP
	portChanged := rec.UDP != n.UDP
	if ipChanged && !t.ipFits(bi, rec.IP, n) {
		t.ev("update-rejected-ip")
		return
	}
	if rec.Seq != n.Seq {
		t.ev("record-updated")
	}
	n.KadRec = rec
	if ipChanged || portChanged {
		n.Live = false
		t.ev("endpoint-changed")
	}
}

// Add is a discovery (inbound=false) or an inbound contact.
func (t *KadTable) Add(rec KadRec, inbound, forceLive bool) {
	if rec.ID == t.Local {
		t.ev("add-self")
		return
	}
	bi, b := t.bucket(rec.ID)
	if i := find(b.Entries, rec.ID); i >= 0 {
		t.update(bi, b.Entries[i], rec, inbound)
		return
	}
	if len(b.Entries) >= KadBucketSize {
		t.ev("newcomer-full-bucket")
		if find(b.Repl, rec.ID) >= 0 {
			t.ev("replacement-already-present")
			return
		}
		if !t.ipFits(bi, rec.IP, nil) {
			t.ev("ip-reject")
			return
		}
		t.gen++
		b.Repl = append([]*KadNode{{KadRec: rec, Gen: t.gen}}, b.Repl...)
		if len(b.Repl) > KadMaxReplacements {
			b.Repl = b.Repl[:KadMaxReplacements]
			t.ev("replacement-oldest-dropped")
		}
		t.ev("replacement-added")
		return
	}
	if !t.ipFits(bi, rec.IP, nil) {
		t.ev("ip-reject")
		return
	}
	t.gen++
	n := &KadNode{KadRec: rec, Gen: t.gen}
	if forceLive {
		n.Live, n.Credit = true, 1
	}
	b.Entries = append(b.Entries, n)
	if i := find(b.Repl, rec.ID); i >= 0 {
		b.Repl = append(b.Repl[:i:i], b.Repl[i+1:]...)
	}
	t.ev("entry-added")
}

// remove deletes an entry and lets one replacement succeed it.
func (t *KadTable) remove(id KadID, why string, promote Promote) error {
	bi, b := t.bucket(id)
	i := find(b.Entries, id)
	if i < 0 {
		return nil
	}
	b.Entries = append(b.Entries[:i:i], b.Entries[i+1:]...)
	t.ev("removed:" + why)
	if len(b.Repl) == 0 {
		return nil
	}
	cands := make([]KadID, len(b.Repl))
	for k, r := range b.Repl {
		cands[k] = r.ID
	}
	pid, err := promote(bi, id, cands)
	if err != nil {
		return err
	}
	k := find(b.Repl, pid)
	if k < 0 {
		return fmt.Errorf("model: promoted id is not a replacement")
	}
	p := b.Repl[k]
	b.Repl = append(b.Repl[:k:k], b.Repl[k+1:]...)
	b.Entries = append(b.Entries, p)
	t.ev("promoted")
	return nil
}

func (t *KadTable) Delete(id KadID, promote Promote) error {
	return t.remove(id, "deleted", promote)
}

func failKey(id KadID, ip netip.Addr) string { return string(id[:]) + "|" + ip.String() }

// Track is the feedback of one node query: fruitless (found empty) or not.
func (t *KadTable) Track(rec KadRec, success bool, found []KadRec, promote Promote) error {
	k := failKey(rec.ID, rec.IP)
	fails := 0
	if success {
		t.fails[k] = 0
	} else {
		t.fails[k]++
		fails = t.fails[k]
	}
	_, b := t.bucket(rec.ID)
	if fails >= KadMaxFindFails {
		if len(b.Entries) >= KadMinBucketForDrop {
			if err := t.remove(rec.ID, "fruitless-queries", promote); err != nil {
				return err
			}
		} else if find(b.Entries, rec.ID) >= 0 {
			t.ev("fruitless-kept-small-bucket")
		}
	}
	for _, f := range found {
		t.Add(f, false, false)
	}
	return nil
}

// PingAnswer is the outcome of a liveness check started on the membership `gen`
// of node id. newRec is the record fetched because the node announced a higher
// sequence number (nil: none fetched).
func (t *KadTable) PingAnswer(id KadID, gen int, alive bool, newRec *KadRec, promote Promote) error {
	n := t.Entry(id)
	if n == nil || n.Gen != gen {
		t.ev("answer-for-departed-node")
		return nil
	}
	bi, _ := t.bucket(id)
	if !alive {
		n.Credit /= 3
		if n.Credit == 0 {
			return t.remove(id, "credit-exhausted", promote)
		}
		t.ev("failed-but-credit-left")
		return nil
	}
	n.Credit++
	n.Live = true
	if newRec != nil {
		t.update(bi, n, *newRec, false)
	}
	return nil
}

// Flat view for comparison.
type KadView struct {
	Entries []KadNode // sorted by id
	Repl    []KadNode // in list order
}

func (t *KadTable) View(bi int) KadView {
	var v KadView
	for _, n := range t.B[bi].Entries {
		v.Entries = append(v.Entries, *n)
	}
	sort.Slice(v.Entries, func(i, j int) bool { return string(v.Entries[i].ID[:]) < string(v.Entries[j].ID[:]) })
	for _, n := range t.B[bi].Repl {
		v.Repl = append(v.Repl, *n)
	}
	return v
}
