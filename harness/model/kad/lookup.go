package kad

// Specification side of the iterative lookup (property C10): the answer is the k
// nodes closest to the target, by XOR distance read as a big-endian number, among
// everything the lookup has seen.

import "sort"

// DistLess reports whether a is strictly closer to target than b.
func DistLess(target, a, b KadID) bool {
	for i := range target {
		da, db := a[i]^target[i], b[i]^target[i]
		if da != db {
			return da < db
		}
	}
	return false
}

// ClosestK returns the (at most) k distinct ids closest to target, closest first.
func ClosestK(target KadID, ids []KadID, k int) []KadID {
	seen := map[KadID]bool{}
	var out []KadID
	for _, id := range ids {
		if !seen[id] {
			seen[id] = true
			out = append(out, id)
		}
	}
	sort.Slice(out, func(i, j int) bool { return DistLess(target, out[i], out[j]) })
	if len(out) > k {
		out = out[:k]
	}
	return out
}
