// Package stats is the evidence side of the harness: every property check
// reports each generated case here (was it non-trivial, which classes did it
// hit, a digest that makes "distinct" measurable), violations and known-finding
// hits. TestMain flushes one JSON file per process; the driver merges shards.
package stats

import (
	"crypto/sha256"
	"encoding/binary"
	"encoding/json"
	"fmt"
	"os"
	"path/filepath"
	"sort"
	"sync"
	"time"
)

const maxSamples = 6

// Recorder collects what one property saw in this process.
type Recorder struct {
	mu          sync.Mutex
	ID          string
	evaluations int64
	digests     map[uint64]struct{}
	classes     map[string]int64
	samples     []any
	ntSamples   int
	excluded    map[string]int64  // known-finding id -> cases excluded / classified
	known       map[string]string // known-finding id -> what fails (printed once)
	violations  []Violation
	notes       map[string]any
	health      []string // generator-health failures: run is inconclusive
	exhaustive  bool
	start       time.Time
}

type Violation struct {
	Message string `json:"message"`
	Replay  string `json:"replay"`
}

var (
	regMu sync.Mutex
	reg   = map[string]*Recorder{}
)

// For returns the process-wide recorder of a property.
func For(id string) *Recorder {
	regMu.Lock()
	defer regMu.Unlock()
	r, ok := reg[id]
	if !ok {
		r = &Recorder{ID: id, digests: map[uint64]struct{}{}, classes: map[string]int64{},
			excluded: map[string]int64{}, known: map[string]string{}, notes: map[string]any{}, start: time.Now()}
		reg[id] = r
	}
	return r
}

// Digest hashes an arbitrary JSON-able value to 64 bits.
func Digest(v any) uint64 {
	b, err := json.Marshal(v)
	if err != nil {
		b = []byte(fmt.Sprintf("%#v", v))
	}
	return DigestBytes(b)
}

func DigestBytes(b []byte) uint64 {
	h := sha256.Sum256(b)
	return binary.BigEndian.Uint64(h[:8])
}

// Case is the per-case accumulator handed to a property's run function.
type Case struct {
	NonTrivial bool
	classes    []string
	notes      []string
}

func (c *Case) Class(name string)  { c.classes = append(c.classes, name) }
func (c *Case) NT(name string)     { c.NonTrivial = true; c.classes = append(c.classes, name) }
func (c *Case) Notef(f string, a ...any) { c.notes = append(c.notes, fmt.Sprintf(f, a...)) }
func (c *Case) Has(name string) bool {
	for _, x := range c.classes {
		if x == name {
			return true
		}
	}
	return false
}

// Commit records one executed case.
func (r *Recorder) Commit(c *Case, digest uint64, sample func() any) {
	r.mu.Lock()
	defer r.mu.Unlock()
	r.evaluations++
	seen := map[string]bool{}
	for _, cl := range c.classes {
		if !seen[cl] {
			seen[cl] = true
			r.classes[cl]++
		}
	}
	if c.NonTrivial {
		_, dup := r.digests[digest]
		r.digests[digest] = struct{}{}
		if !dup && r.ntSamples < maxSamples && sample != nil {
			r.ntSamples++
			r.samples = append(r.samples, sample())
		}
	} else if len(r.samples) < 2 && sample != nil && r.ntSamples == 0 {
		r.samples = append(r.samples, sample())
	}
}

// Count adds n to a class counter without creating a case.
func (r *Recorder) Count(class string, n int64) {
	r.mu.Lock()
	r.classes[class] += n
	r.mu.Unlock()
}

// AddEvaluations is for sub-checks that evaluate many inputs per rapid case.
func (r *Recorder) AddEvaluations(n int64) {
	r.mu.Lock()
	r.evaluations += n
	r.mu.Unlock()
}

// AddDistinct registers a non-trivial digest without a full Case.
func (r *Recorder) AddDistinct(digest uint64) {
	r.mu.Lock()
	r.digests[digest] = struct{}{}
	r.mu.Unlock()
}

func (r *Recorder) Sample(v any) {
	r.mu.Lock()
	if len(r.samples) < maxSamples+4 {
		r.samples = append(r.samples, v)
	}
	r.mu.Unlock()
}

func (r *Recorder) Note(key string, v any) {
	r.mu.Lock()
	r.notes[key] = v
	r.mu.Unlock()
}

func (r *Recorder) SetExhaustive(b bool) { r.mu.Lock(); r.exhaustive = b; r.mu.Unlock() }

// Known records that an open known finding was reproduced (and excluded).
func (r *Recorder) Known(findingID, what string) {
	r.mu.Lock()
	r.excluded[findingID]++
	r.known[findingID] = what
	r.mu.Unlock()
}

func (r *Recorder) Violation(msg, replay string) {
	r.mu.Lock()
	r.violations = append(r.violations, Violation{msg, replay})
	r.mu.Unlock()
}

// Unhealthy marks the run inconclusive (generator produced nothing useful,
// honest inputs rejected, ...). Exit code 2 in the driver.
func (r *Recorder) Unhealthy(msg string) {
	r.mu.Lock()
	r.health = append(r.health, msg)
	r.mu.Unlock()
}

type dump struct {
	ID          string            `json:"property_id"`
	Evaluations int64             `json:"evaluations"`
	Digests     []uint64          `json:"digests"`
	Classes     map[string]int64  `json:"classes"`
	Samples     []any             `json:"samples"`
	Excluded    map[string]int64  `json:"excluded_known"`
	Known       map[string]string `json:"known"`
	Violations  []Violation       `json:"violations"`
	Notes       map[string]any    `json:"notes"`
	Health      []string          `json:"health"`
	Exhaustive  bool              `json:"exhaustive"`
	WallS       float64           `json:"wall_s"`
}

// Flush writes every recorder to $VERIF_STATS_DIR/<id>.<pid>.json.
func Flush() {
	dir := os.Getenv("VERIF_STATS_DIR")
	if dir == "" {
		return
	}
	_ = os.MkdirAll(dir, 0o755)
	regMu.Lock()
	defer regMu.Unlock()
	for id, r := range reg {
		r.mu.Lock()
		d := dump{ID: id, Evaluations: r.evaluations, Classes: r.classes, Samples: r.samples,
			Excluded: r.excluded, Known: r.known, Violations: r.violations, Notes: r.notes,
			Health: r.health, Exhaustive: r.exhaustive, WallS: time.Since(r.start).Seconds()}
		for k := range r.digests {
			d.Digests = append(d.Digests, k)
		}
		sort.Slice(d.Digests, func(i, j int) bool { return d.Digests[i] < d.Digests[j] })
		r.mu.Unlock()
		b, err := json.Marshal(d)
		if err != nil {
			fmt.Fprintf(os.Stderr, "stats: marshal %s: %v\n", id, err)
			continue
		}
		name := filepath.Join(dir, fmt.Sprintf("%s.%d.json", id, os.Getpid()))
		if err := os.WriteFile(name, b, 0o644); err != nil {
			fmt.Fprintf(os.Stderr, "stats: write %s: %v\n", name, err)
		}
	}
}
