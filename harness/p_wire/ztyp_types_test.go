package p_wire

// Hand-written wrappers for the containers that are not fastssz structs with
// tags (ping-extension payloads, state keys/containers, one beacon key). Each
// wrapper is a JSON-able mirror of the real type and converts on the fly, so the
// plan stays plain data.

import (
	"bytes"
	"encoding/hex"
	"fmt"

	"github.com/protolambda/zrnt/eth2/beacon/common"
	"github.com/protolambda/ztyp/codec"
	"github.com/protolambda/ztyp/view"
	pingext "github.com/zen-eth/shisui/portalwire/ping_ext"
	"github.com/zen-eth/shisui/state"
	tbeacon "github.com/zen-eth/shisui/types/beacon"
	"pgregory.net/rapid"
)

type h32 [32]byte

func (h h32) MarshalText() ([]byte, error) { return []byte(hex.EncodeToString(h[:])), nil }
func (h *h32) UnmarshalText(b []byte) error {
	d, err := hex.DecodeString(string(b))
	if err != nil || len(d) != 32 {
		return fmt.Errorf("bad h32")
	}
	copy(h[:], d)
	return nil
}

func drawH32(t *rapid.T, label string) h32 {
	var h h32
	copy(h[:], rapid.SliceOfN(rapid.Byte(), 32, 32).Draw(t, label))
	return h
}

type serializable interface {
	Serialize(w *codec.EncodingWriter) error
}
type deserializable interface {
	Deserialize(dr *codec.DecodingReader) error
}

func zEnc(s serializable) ([]byte, error) {
	var buf bytes.Buffer
	err := s.Serialize(codec.NewEncodingWriter(&buf))
	return buf.Bytes(), err
}

func zDec(d deserializable, b []byte) error {
	return d.Deserialize(codec.NewDecodingReader(bytes.NewReader(b), uint64(len(b))))
}

// byte-list length for a limit: "" in-limit, "limit" exactly, "over" limit+1
func zLen(t *rapid.T, label string, limit int, kind string) int {
	switch kind {
	case "limit":
		return limit
	case "over":
		return limit + rapid.SampledFrom([]int{1, 1, 2, 7}).Draw(t, label+"ov")
	}
	hi := limit
	if hi > 40 {
		hi = 40
	}
	if rapid.IntRange(0, 4).Draw(t, label+"z") == 0 {
		return 0
	}
	return rapid.IntRange(0, hi).Draw(t, label)
}

func caps(t *rapid.T, n int) []uint16 {
	out := make([]uint16, n)
	for i := range out {
		out[i] = rapid.Uint16().Draw(t, "cap")
	}
	return out
}

func toViews(c []uint16) pingext.CapabilitiesPayload {
	out := make(pingext.CapabilitiesPayload, len(c))
	for i, v := range c {
		out[i] = view.Uint16View(v)
	}
	return out
}

func fromViews(c pingext.CapabilitiesPayload) []uint16 {
	out := make([]uint16, len(c))
	for i, v := range c {
		out[i] = uint16(v)
	}
	return out
}

// --- ping extension payloads ------------------------------------------------

type zClientInfo struct {
	ClientInfo []byte
	Radius     h32
	Caps       []uint16
}

func (z *zClientInfo) real() pingext.ClientInfoAndCapabilitiesPayload {
	return pingext.ClientInfoAndCapabilitiesPayload{ClientInfo: pingext.ClientInfoBytes(z.ClientInfo), DataRadius: common.Root(z.Radius), Capabilities: toViews(z.Caps)}
}
func (z *zClientInfo) MarshalSSZ() ([]byte, error) { return z.real().MarshalSSZ() }
func (z *zClientInfo) UnmarshalSSZ(b []byte) error {
	var r pingext.ClientInfoAndCapabilitiesPayload
	if err := r.UnmarshalSSZ(b); err != nil {
		return err
	}
	z.ClientInfo, z.Radius, z.Caps = []byte(r.ClientInfo), h32(r.DataRadius), fromViews(r.Capabilities)
	return nil
}

type zBasicRadius struct{ Radius h32 }

func (z *zBasicRadius) MarshalSSZ() ([]byte, error) {
	return pingext.BasicRadiusPayload{DataRadius: common.Root(z.Radius)}.MarshalSSZ()
}
func (z *zBasicRadius) UnmarshalSSZ(b []byte) error {
	var r pingext.BasicRadiusPayload
	if err := r.UnmarshalSSZ(b); err != nil {
		return err
	}
	z.Radius = h32(r.DataRadius)
	return nil
}

type zHistoryRadius struct {
	Radius h32
	Count  uint16
}

func (z *zHistoryRadius) MarshalSSZ() ([]byte, error) {
	return pingext.HistoryRadiusPayload{DataRadius: common.Root(z.Radius), EphemeralHeaderCount: view.Uint16View(z.Count)}.MarshalSSZ()
}
func (z *zHistoryRadius) UnmarshalSSZ(b []byte) error {
	var r pingext.HistoryRadiusPayload
	if err := r.UnmarshalSSZ(b); err != nil {
		return err
	}
	z.Radius, z.Count = h32(r.DataRadius), uint16(r.EphemeralHeaderCount)
	return nil
}

type zErrorPayload struct {
	Code    uint16
	Message []byte
}

func (z *zErrorPayload) MarshalSSZ() ([]byte, error) {
	return pingext.ErrorPayload{ErrorCode: view.Uint16View(z.Code), Message: pingext.ErrMessage(z.Message)}.MarshalSSZ()
}
func (z *zErrorPayload) UnmarshalSSZ(b []byte) error {
	var r pingext.ErrorPayload
	if err := r.UnmarshalSSZ(b); err != nil {
		return err
	}
	z.Code, z.Message = uint16(r.ErrorCode), []byte(r.Message)
	return nil
}

type zCapabilities struct{ Caps []uint16 }

func (z *zCapabilities) MarshalSSZ() ([]byte, error) { return toViews(z.Caps).MarshalSSZ() }
func (z *zCapabilities) UnmarshalSSZ(b []byte) error {
	var r pingext.CapabilitiesPayload
	if err := r.UnmarshalSSZ(b); err != nil {
		return err
	}
	z.Caps = fromViews(r)
	return nil
}

// --- state keys and containers ----------------------------------------------

func nibblesLimits(n []byte) error {
	if len(n) > 64 {
		return fmt.Errorf("nibbles: %d > 64", len(n))
	}
	for _, x := range n {
		if x > 0xf {
			return fmt.Errorf("nibble out of range")
		}
	}
	return nil
}

func drawNibbles(t *rapid.T, kind string) []byte {
	n := 0
	switch kind {
	case "limit":
		n = rapid.SampledFrom([]int{63, 64}).Draw(t, "nl")
	case "over":
		n = rapid.SampledFrom([]int{65, 66, 67}).Draw(t, "no")
	default:
		n = rapid.IntRange(0, 64).Draw(t, "nn")
	}
	out := make([]byte, n)
	for i := range out {
		out[i] = rapid.ByteRange(0, 0xf).Draw(t, "nib")
	}
	return out
}

type zNibbles struct{ Nibbles []byte }

func (z *zNibbles) MarshalSSZ() ([]byte, error) { return zEnc(&state.Nibbles{Nibbles: z.Nibbles}) }
func (z *zNibbles) UnmarshalSSZ(b []byte) error {
	var r state.Nibbles
	if err := zDec(&r, b); err != nil {
		return err
	}
	z.Nibbles = r.Nibbles
	return nil
}

type zAccountKey struct {
	Path     []byte
	NodeHash h32
}

func (z *zAccountKey) MarshalSSZ() ([]byte, error) {
	return zEnc(&state.AccountTrieNodeKey{Path: state.Nibbles{Nibbles: z.Path}, NodeHash: common.Bytes32(z.NodeHash)})
}
func (z *zAccountKey) UnmarshalSSZ(b []byte) error {
	var r state.AccountTrieNodeKey
	if err := zDec(&r, b); err != nil {
		return err
	}
	z.Path, z.NodeHash = r.Path.Nibbles, h32(r.NodeHash)
	return nil
}

type zStorageKey struct {
	AddressHash h32
	Path        []byte
	NodeHash    h32
}

func (z *zStorageKey) MarshalSSZ() ([]byte, error) {
	return zEnc(&state.ContractStorageTrieNodeKey{AddressHash: common.Bytes32(z.AddressHash), Path: state.Nibbles{Nibbles: z.Path}, NodeHash: common.Bytes32(z.NodeHash)})
}
func (z *zStorageKey) UnmarshalSSZ(b []byte) error {
	var r state.ContractStorageTrieNodeKey
	if err := zDec(&r, b); err != nil {
		return err
	}
	z.AddressHash, z.Path, z.NodeHash = h32(r.AddressHash), r.Path.Nibbles, h32(r.NodeHash)
	return nil
}

type zBytecodeKey struct{ AddressHash, CodeHash h32 }

func (z *zBytecodeKey) MarshalSSZ() ([]byte, error) {
	return zEnc(&state.ContractBytecodeKey{AddressHash: common.Bytes32(z.AddressHash), CodeHash: common.Bytes32(z.CodeHash)})
}
func (z *zBytecodeKey) UnmarshalSSZ(b []byte) error {
	var r state.ContractBytecodeKey
	if err := zDec(&r, b); err != nil {
		return err
	}
	z.AddressHash, z.CodeHash = h32(r.AddressHash), h32(r.CodeHash)
	return nil
}

type zHistSummKey struct{ Epoch uint64 }

func (z *zHistSummKey) MarshalSSZ() ([]byte, error) {
	return zEnc(tbeacon.HistoricalSummariesWithProofKey{Epoch: z.Epoch})
}
func (z *zHistSummKey) UnmarshalSSZ(b []byte) error {
	var r tbeacon.HistoricalSummariesWithProofKey
	if err := zDec(&r, b); err != nil {
		return err
	}
	z.Epoch = r.Epoch
	return nil
}

func toProof(p [][]byte) state.TrieProof {
	out := make(state.TrieProof, len(p))
	for i := range p {
		out[i] = state.EncodedTrieNode(p[i])
	}
	return out
}
func fromProof(p state.TrieProof) [][]byte {
	out := make([][]byte, len(p))
	for i := range p {
		out[i] = []byte(p[i])
	}
	return out
}

func drawProof(t *rapid.T, label, kind string) [][]byte {
	n := rapid.IntRange(0, 6).Draw(t, label+"n")
	switch kind {
	case "limit":
		n = state.MaxTrieProofLength
	case "overN":
		n = state.MaxTrieProofLength + 1
	}
	out := make([][]byte, n)
	for i := range out {
		l := rapid.IntRange(0, 40).Draw(t, label+"l")
		if kind == "overItem" && i == 0 {
			l = state.MaxTrieNodeLength + 1
		}
		if kind == "limit" && i == 0 {
			l = state.MaxTrieNodeLength
		}
		out[i] = drawBytes(t, l, label+"b")
	}
	if kind == "overItem" && n == 0 {
		out = [][]byte{drawBytes(t, state.MaxTrieNodeLength+1, label+"b")}
	}
	return out
}

func proofLimits(p [][]byte) error {
	if len(p) > state.MaxTrieProofLength {
		return fmt.Errorf("proof has %d nodes > %d", len(p), state.MaxTrieProofLength)
	}
	for _, n := range p {
		if len(n) > state.MaxTrieNodeLength {
			return fmt.Errorf("trie node of %d bytes > %d", len(n), state.MaxTrieNodeLength)
		}
	}
	return nil
}

type zAccountProof struct {
	Proof     [][]byte
	BlockHash h32
}

func (z *zAccountProof) MarshalSSZ() ([]byte, error) {
	return zEnc(&state.AccountTrieNodeWithProof{Proof: toProof(z.Proof), BlockHash: common.Bytes32(z.BlockHash)})
}
func (z *zAccountProof) UnmarshalSSZ(b []byte) error {
	var r state.AccountTrieNodeWithProof
	if err := zDec(&r, b); err != nil {
		return err
	}
	z.Proof, z.BlockHash = fromProof(r.Proof), h32(r.BlockHash)
	return nil
}

type zStorageProof struct {
	StorageProof [][]byte
	AccountProof [][]byte
	BlockHash    h32
}

func (z *zStorageProof) MarshalSSZ() ([]byte, error) {
	return zEnc(&state.ContractStorageTrieNodeWithProof{StorageProof: toProof(z.StorageProof), AccountProof: toProof(z.AccountProof), BlockHash: common.Bytes32(z.BlockHash)})
}
func (z *zStorageProof) UnmarshalSSZ(b []byte) error {
	var r state.ContractStorageTrieNodeWithProof
	if err := zDec(&r, b); err != nil {
		return err
	}
	z.StorageProof, z.AccountProof, z.BlockHash = fromProof(r.StorageProof), fromProof(r.AccountProof), h32(r.BlockHash)
	return nil
}

type zBytecodeProof struct {
	Code         []byte
	AccountProof [][]byte
	BlockHash    h32
}

func (z *zBytecodeProof) MarshalSSZ() ([]byte, error) {
	return zEnc(&state.ContractBytecodeWithProof{Code: state.ContractByteCode(z.Code), AccountProof: toProof(z.AccountProof), BlockHash: common.Bytes32(z.BlockHash)})
}
func (z *zBytecodeProof) UnmarshalSSZ(b []byte) error {
	var r state.ContractBytecodeWithProof
	if err := zDec(&r, b); err != nil {
		return err
	}
	z.Code, z.AccountProof, z.BlockHash = []byte(r.Code), fromProof(r.AccountProof), h32(r.BlockHash)
	return nil
}

type zTrieNode struct{ Node []byte }

func (z *zTrieNode) MarshalSSZ() ([]byte, error) {
	return zEnc(state.TrieNode{Node: state.EncodedTrieNode(z.Node)})
}
func (z *zTrieNode) UnmarshalSSZ(b []byte) error {
	var r state.TrieNode
	if err := zDec(&r, b); err != nil {
		return err
	}
	z.Node = []byte(r.Node)
	return nil
}

type zBytecode struct{ Code []byte }

func (z *zBytecode) MarshalSSZ() ([]byte, error) {
	return zEnc(state.ContractBytecodeContainer{Code: state.ContractByteCode(z.Code)})
}
func (z *zBytecode) UnmarshalSSZ(b []byte) error {
	var r state.ContractBytecodeContainer
	if err := zDec(&r, b); err != nil {
		return err
	}
	z.Code = []byte(r.Code)
	return nil
}

func registerZtypTypes() {
	reg(wireType{name: "ClientInfoAndCapabilitiesPayload", strict: true, hasOver: true,
		newObj: func() sszObj { return &zClientInfo{} },
		fill: func(t *rapid.T, o sszObj, kind string) bool {
			z := o.(*zClientInfo)
			which := rapid.IntRange(0, 1).Draw(t, "which")
			k0, k1 := "", ""
			if which == 0 {
				k0 = kind
			} else {
				k1 = kind
			}
			z.ClientInfo = drawBytes(t, zLen(t, "ci", pingext.MaxClientInfoByteLength, k0), "cib")
			z.Radius = drawH32(t, "radius")
			z.Caps = caps(t, zLen(t, "caps", pingext.MaxCapabilitiesLength, k1))
			return true
		},
		limits: func(o sszObj) error {
			z := o.(*zClientInfo)
			if len(z.ClientInfo) > pingext.MaxClientInfoByteLength {
				return fmt.Errorf("client info %d > %d", len(z.ClientInfo), pingext.MaxClientInfoByteLength)
			}
			if len(z.Caps) > pingext.MaxCapabilitiesLength {
				return fmt.Errorf("capabilities %d > %d", len(z.Caps), pingext.MaxCapabilitiesLength)
			}
			return nil
		}})
	reg(wireType{name: "BasicRadiusPayload", strict: true, newObj: func() sszObj { return &zBasicRadius{} },
		fill: func(t *rapid.T, o sszObj, kind string) bool {
			o.(*zBasicRadius).Radius = drawH32(t, "radius")
			return kind != "over"
		},
		limits: func(o sszObj) error { return nil }})
	reg(wireType{name: "HistoryRadiusPayload", strict: true, newObj: func() sszObj { return &zHistoryRadius{} },
		fill: func(t *rapid.T, o sszObj, kind string) bool {
			z := o.(*zHistoryRadius)
			z.Radius, z.Count = drawH32(t, "radius"), rapid.Uint16().Draw(t, "count")
			return kind != "over"
		},
		limits: func(o sszObj) error { return nil }})
	reg(wireType{name: "ErrorPayload", strict: true, hasOver: true, newObj: func() sszObj { return &zErrorPayload{} },
		fill: func(t *rapid.T, o sszObj, kind string) bool {
			z := o.(*zErrorPayload)
			z.Code = rapid.Uint16().Draw(t, "code")
			z.Message = drawBytes(t, zLen(t, "msg", pingext.MaxErrorByteLength, kind), "msgb")
			return true
		},
		limits: func(o sszObj) error {
			if n := len(o.(*zErrorPayload).Message); n > pingext.MaxErrorByteLength {
				return fmt.Errorf("error message %d > %d", n, pingext.MaxErrorByteLength)
			}
			return nil
		}})
	reg(wireType{name: "CapabilitiesPayload", strict: true, hasOver: true, newObj: func() sszObj { return &zCapabilities{} },
		fill: func(t *rapid.T, o sszObj, kind string) bool {
			o.(*zCapabilities).Caps = caps(t, zLen(t, "caps", pingext.MaxCapabilitiesLength, kind))
			return true
		},
		limits: func(o sszObj) error {
			if n := len(o.(*zCapabilities).Caps); n > pingext.MaxCapabilitiesLength {
				return fmt.Errorf("capabilities %d > %d", n, pingext.MaxCapabilitiesLength)
			}
			return nil
		}})
	reg(wireType{name: "Nibbles", strict: true, hasOver: true, newObj: func() sszObj { return &zNibbles{} },
		fill: func(t *rapid.T, o sszObj, kind string) bool {
			o.(*zNibbles).Nibbles = drawNibbles(t, kind)
			return true
		},
		limits: func(o sszObj) error { return nibblesLimits(o.(*zNibbles).Nibbles) }})
	reg(wireType{name: "AccountTrieNodeKey", strict: true, hasOver: true, newObj: func() sszObj { return &zAccountKey{} },
		fill: func(t *rapid.T, o sszObj, kind string) bool {
			z := o.(*zAccountKey)
			z.Path, z.NodeHash = drawNibbles(t, kind), drawH32(t, "nh")
			return true
		},
		limits: func(o sszObj) error { return nibblesLimits(o.(*zAccountKey).Path) }})
	reg(wireType{name: "ContractStorageTrieNodeKey", strict: true, hasOver: true, newObj: func() sszObj { return &zStorageKey{} },
		fill: func(t *rapid.T, o sszObj, kind string) bool {
			z := o.(*zStorageKey)
			z.AddressHash, z.Path, z.NodeHash = drawH32(t, "ah"), drawNibbles(t, kind), drawH32(t, "nh")
			return true
		},
		limits: func(o sszObj) error { return nibblesLimits(o.(*zStorageKey).Path) }})
	reg(wireType{name: "ContractBytecodeKey", strict: true, newObj: func() sszObj { return &zBytecodeKey{} },
		fill: func(t *rapid.T, o sszObj, kind string) bool {
			z := o.(*zBytecodeKey)
			z.AddressHash, z.CodeHash = drawH32(t, "ah"), drawH32(t, "ch")
			return kind != "over"
		},
		limits: func(o sszObj) error { return nil }})
	reg(wireType{name: "HistoricalSummariesWithProofKey", strict: true, newObj: func() sszObj { return &zHistSummKey{} },
		fill: func(t *rapid.T, o sszObj, kind string) bool {
			o.(*zHistSummKey).Epoch = rapid.Uint64().Draw(t, "epoch")
			return kind != "over"
		},
		limits: func(o sszObj) error { return nil }})
	// state content containers: value round trip
	pk := func(kind string, t *rapid.T) string {
		if kind == "over" {
			return rapid.SampledFrom([]string{"overN", "overItem"}).Draw(t, "ok")
		}
		return kind
	}
	reg(wireType{name: "AccountTrieNodeWithProof", hasOver: true, newObj: func() sszObj { return &zAccountProof{} },
		fill: func(t *rapid.T, o sszObj, kind string) bool {
			z := o.(*zAccountProof)
			z.Proof, z.BlockHash = drawProof(t, "p", pk(kind, t)), drawH32(t, "bh")
			return true
		},
		limits: func(o sszObj) error { return proofLimits(o.(*zAccountProof).Proof) }})
	reg(wireType{name: "ContractStorageTrieNodeWithProof", hasOver: true, newObj: func() sszObj { return &zStorageProof{} },
		fill: func(t *rapid.T, o sszObj, kind string) bool {
			z := o.(*zStorageProof)
			z.StorageProof, z.AccountProof, z.BlockHash = drawProof(t, "sp", pk(kind, t)), drawProof(t, "ap", ""), drawH32(t, "bh")
			return true
		},
		limits: func(o sszObj) error {
			z := o.(*zStorageProof)
			if err := proofLimits(z.StorageProof); err != nil {
				return err
			}
			return proofLimits(z.AccountProof)
		}})
	reg(wireType{name: "ContractBytecodeWithProof", hasOver: true, newObj: func() sszObj { return &zBytecodeProof{} },
		fill: func(t *rapid.T, o sszObj, kind string) bool {
			z := o.(*zBytecodeProof)
			z.Code = drawBytes(t, zLen(t, "code", state.MaxContractBytecodeLength, kind), "codeb")
			z.AccountProof, z.BlockHash = drawProof(t, "ap", ""), drawH32(t, "bh")
			return true
		},
		limits: func(o sszObj) error {
			z := o.(*zBytecodeProof)
			if len(z.Code) > state.MaxContractBytecodeLength {
				return fmt.Errorf("code %d > %d", len(z.Code), state.MaxContractBytecodeLength)
			}
			return proofLimits(z.AccountProof)
		}})
	reg(wireType{name: "TrieNode", hasOver: true, newObj: func() sszObj { return &zTrieNode{} },
		fill: func(t *rapid.T, o sszObj, kind string) bool {
			o.(*zTrieNode).Node = drawBytes(t, zLen(t, "node", state.MaxTrieNodeLength, kind), "nodeb")
			return true
		},
		limits: func(o sszObj) error {
			if n := len(o.(*zTrieNode).Node); n > state.MaxTrieNodeLength {
				return fmt.Errorf("node %d > %d", n, state.MaxTrieNodeLength)
			}
			return nil
		}})
	reg(wireType{name: "ContractBytecodeContainer", hasOver: true, newObj: func() sszObj { return &zBytecode{} },
		fill: func(t *rapid.T, o sszObj, kind string) bool {
			o.(*zBytecode).Code = drawBytes(t, zLen(t, "code", state.MaxContractBytecodeLength, kind), "codeb")
			return true
		},
		limits: func(o sszObj) error {
			if n := len(o.(*zBytecode).Code); n > state.MaxContractBytecodeLength {
				return fmt.Errorf("code %d > %d", n, state.MaxContractBytecodeLength)
			}
			return nil
		}})
}
