package p_wire

import (
	"bytes"
	"encoding/binary"
	"encoding/json"
	"fmt"
	"sort"
	"testing"

	"github.com/protolambda/ztyp/codec"
	"github.com/zen-eth/shisui/history"
	"github.com/zen-eth/shisui/portalwire"
	tbeacon "github.com/zen-eth/shisui/types/beacon"
	thistory "github.com/zen-eth/shisui/types/history"
	"pgregory.net/rapid"
	"verifharness/pbt"
	"verifharness/stats"
)

// wireType describes one container for the generic checks.
type wireType struct {
	name   string
	strict bool // statement clauses "re-encodes to the same bytes" and "limits enforced when decoding" apply
	newObj func() sszObj
	// for hand-written (non tag-driven) types:
	fill   func(t *rapid.T, obj sszObj, kind string) bool // draws a value; kind "", "limit", "over"
	limits func(obj sszObj) error
	// hasLimits: whether an over-limit value exists at all
	hasOver bool
}

var wireTypes []wireType
var wireByName = map[string]*wireType{}

func reg(w wireType) {
	wireTypes = append(wireTypes, w)
}

func init() {
	tagged := func(name string, strict bool, f func() sszObj) {
		reg(wireType{name: name, strict: strict, newObj: f, hasOver: len(limitDims(f())) > 0})
	}
	// portal wire messages
	tagged("Ping", true, func() sszObj { return &portalwire.Ping{} })
	tagged("Pong", true, func() sszObj { return &portalwire.Pong{} })
	tagged("FindNodes", true, func() sszObj { return &portalwire.FindNodes{} })
	tagged("Nodes", true, func() sszObj { return &portalwire.Nodes{} })
	tagged("FindContent", true, func() sszObj { return &portalwire.FindContent{} })
	tagged("Content", true, func() sszObj { return &portalwire.Content{} })
	tagged("ConnectionId", true, func() sszObj { return &portalwire.ConnectionId{} })
	tagged("Enrs", true, func() sszObj { return &portalwire.Enrs{} })
	tagged("Offer", true, func() sszObj { return &portalwire.Offer{} })
	tagged("Accept", true, func() sszObj { return &portalwire.Accept{} })
	tagged("AcceptV1", true, func() sszObj { return &portalwire.AcceptV1{} })
	// content-key containers (fastssz)
	tagged("FindContentEphemeralHeadersKey", true, func() sszObj { return &thistory.FindContentEphemeralHeadersKey{} })
	tagged("OfferEphemeralHeaderKey", true, func() sszObj { return &thistory.OfferEphemeralHeaderKey{} })
	tagged("LightClientUpdateKey", true, func() sszObj { return &tbeacon.LightClientUpdateKey{} })
	tagged("LightClientBootstrapKey", true, func() sszObj { return &tbeacon.LightClientBootstrapKey{} })
	tagged("LightClientFinalityUpdateKey", true, func() sszObj { return &tbeacon.LightClientFinalityUpdateKey{} })
	tagged("LightClientOptimisticUpdateKey", true, func() sszObj { return &tbeacon.LightClientOptimisticUpdateKey{} })
	// history containers: value round trip (statement's last clause)
	tagged("BlockHeaderWithProof", false, func() sszObj { return &thistory.BlockHeaderWithProof{} })
	tagged("BlockProofHistoricalHashesAccumulator", false, func() sszObj { return &thistory.BlockProofHistoricalHashesAccumulator{} })
	tagged("BlockProofHistoricalRoots", false, func() sszObj { return &thistory.BlockProofHistoricalRoots{} })
	tagged("BlockProofHistoricalSummariesCapella", false, func() sszObj { return &thistory.BlockProofHistoricalSummariesCapella{} })
	tagged("BlockProofHistoricalSummariesDeneb", false, func() sszObj { return &thistory.BlockProofHistoricalSummariesDeneb{} })
	tagged("EphemeralHeaderPayload", false, func() sszObj { return &thistory.EphemeralHeaderPayload{} })
	tagged("OfferEphemeralHeader", false, func() sszObj { return &thistory.OfferEphemeralHeader{} })
	tagged("BlockBodyLegacy", false, func() sszObj { return &history.BlockBodyLegacy{} })
	tagged("PortalBlockBodyShanghai", false, func() sszObj { return &history.PortalBlockBodyShanghai{} })
	tagged("PortalReceipts", false, func() sszObj { return &history.PortalReceipts{} })
	tagged("HeaderRecord", false, func() sszObj { return &history.HeaderRecord{} })
	tagged("SSZProof", false, func() sszObj { return &history.SSZProof{} })
	tagged("MasterAccumulator", false, func() sszObj { return &history.MasterAccumulator{} })
	registerZtypTypes()
	for i := range wireTypes {
		wireByName[wireTypes[i].name] = &wireTypes[i]
	}
}

func typeNames(strictOnly bool) []string {
	var out []string
	for _, w := range wireTypes {
		if !strictOnly || w.strict {
			out = append(out, w.name)
		}
	}
	sort.Strings(out)
	return out
}

// drawValue draws a value of w. kind: "" in-limit, "limit" one dimension at its limit, "over" one dimension beyond.
func drawValue(t *rapid.T, w *wireType, kind string) (sszObj, bool) {
	obj := w.newObj()
	if w.fill != nil {
		return obj, w.fill(t, obj, kind)
	}
	m := genMode{field: -1}
	if kind == "allmax" {
		if len(limitDims(obj)) == 0 {
			return obj, false
		}
		return obj, fillValue(t, obj, genMode{field: -1, kind: "allmax"})
	}
	if kind != "" {
		ld := limitDims(obj)
		if len(ld) == 0 {
			return obj, false
		}
		pick := ld[rapid.IntRange(0, len(ld)-1).Draw(t, "which")]
		m = genMode{field: pick[0], dim: pick[1], kind: kind}
	}
	ok := fillValue(t, obj, m)
	return obj, ok
}

func limitsOf(w *wireType, obj sszObj) error {
	if w.limits != nil {
		return w.limits(obj)
	}
	return checkLimits(obj)
}

// ---------------------------------------------------------------------------
// C14 (1)+(2): value -> bytes -> value

type c14Value struct {
	Type  string
	Kind  string // "", "limit", "over"
	Value json.RawMessage
}

func genC14Value(name string) func(t *rapid.T) c14Value {
	return func(t *rapid.T) c14Value { return genC14ValueOf(t, name) }
}

func genC14ValueOf(t *rapid.T, name string) c14Value {
	w := wireByName[name]
	kind := rapid.SampledFrom([]string{"", "", "", "", "", "limit", "limit", "over", "over", "allmax"}).Draw(t, "kind")
	if kind == "over" && !w.hasOver {
		kind = ""
	}
	obj, ok := drawValue(t, w, kind)
	if !ok {
		kind = ""
		obj, _ = drawValue(t, w, "")
	}
	js, err := json.Marshal(obj)
	if err != nil {
		panic(err)
	}
	return c14Value{Type: name, Kind: kind, Value: js}
}

func runC14Value(p c14Value, c *stats.Case) error {
	w := wireByName[p.Type]
	if w == nil {
		return fmt.Errorf("unknown type %s", p.Type)
	}
	obj := w.newObj()
	if err := json.Unmarshal(p.Value, obj); err != nil {
		return fmt.Errorf("harness: plan value does not decode: %v", err)
	}
	c.Class("type:" + p.Type)
	overLimit := limitsOf(w, obj) != nil
	enc, err := obj.MarshalSSZ()
	if overLimit {
		c.NT("over-limit")
		if err != nil {
			c.Class("over-limit:encode-fails")
			// the decoder must enforce the limit by itself: feed it what an encoder without limits emits
			if w.fill == nil {
				ref := refEncode(obj)
				back := w.newObj()
				if derr := back.UnmarshalSSZ(ref); derr == nil {
					if w.strict {
						return fmt.Errorf("%s: the encoding of an over-limit value (%v), %d bytes from an encoder without limits, is accepted by the decoder", p.Type, limitsOf(w, obj), len(ref))
					}
					c.Class("nonstrict:over-limit-accepted-on-decode")
				} else {
					c.Class("over-limit:ref-encoded-decode-rejects")
				}
			}
			return nil
		}
		back := w.newObj()
		if derr := back.UnmarshalSSZ(enc); derr == nil {
			return fmt.Errorf("%s: over-limit value (%v) encodes to %d bytes that the decoder accepts", p.Type, limitsOf(w, obj), len(enc))
		}
		c.Class("over-limit:decode-rejects")
		return nil
	}
	if p.Kind == "limit" {
		c.NT("at-limit")
	}
	if p.Kind == "allmax" {
		c.NT("all-dimensions-at-limit:" + p.Type)
	}
	if err != nil {
		return fmt.Errorf("%s: in-limit value fails to encode: %v", p.Type, err)
	}
	if w.fill == nil {
		if ref := refEncode(obj); !bytes.Equal(ref, enc) {
			return fmt.Errorf("%s: encoding differs from the reference SSZ encoder: code %x reference %x", p.Type, clipHex(enc), clipHex(ref))
		}
		c.Class("ref-encoder-agrees")
	}
	back := w.newObj()
	if err := back.UnmarshalSSZ(append([]byte{}, enc...)); err != nil {
		return fmt.Errorf("%s: decode(encode(v)) fails: %v (encoding %d bytes: %x)", p.Type, err, len(enc), clipHex(enc))
	}
	if !sszEqual(obj, back) {
		return fmt.Errorf("%s: decode(encode(v)) != v (encoding %x)", p.Type, clipHex(enc))
	}
	if len(enc) > 0 {
		c.NT("roundtrip")
	}
	return nil
}

// One rapid run per container type, so every type gets the full case count and
// every failing type is reported in the same run.
func TestC14_Value(t *testing.T) {
	for _, name := range typeNames(false) {
		t.Run(name, func(t *testing.T) { pbt.Run(t, "C14", "value-"+name, genC14Value(name), runC14Value) })
	}
}

// ---------------------------------------------------------------------------
// C14 (3)+(4): bytes -> value -> bytes

type c14Bytes struct {
	Type  string
	Class string
	Data  []byte
}

var hostile = [][]byte{
	{}, {0}, {0, 0, 0, 0}, {4, 0, 0, 0}, {4, 0, 0, 0, 0, 0, 0, 0}, {4, 0, 0, 0, 4, 0, 0, 0}, {4, 0, 0, 0, 8, 0, 0, 0, 4, 0, 0, 0},
	{5, 0, 0, 0}, {1, 5, 0, 0, 0}, {1, 5, 0, 0, 0, 0, 0, 0, 0}, {0xff, 0xff, 0xff, 0xff}, {8, 0, 0, 0, 8, 0, 0, 0},
	{0, 0, 6, 0, 0, 0}, {0, 0, 6, 0, 0, 0, 1}, {0, 0, 1}, {0, 0, 0}, {0, 0, 0x80}, {0, 0, 1, 0},
}

func mutate(t *rapid.T, data []byte, other []byte) ([]byte, string) {
	d := append([]byte{}, data...)
	class := rapid.SampledFrom([]string{"valid", "bitflip", "byteset", "offset", "truncate", "extend", "splice", "gap"}).Draw(t, "mut")
	switch class {
	case "bitflip":
		if len(d) > 0 {
			i := rapid.IntRange(0, len(d)-1).Draw(t, "pos")
			d[i] ^= 1 << uint(rapid.IntRange(0, 7).Draw(t, "bit"))
		}
	case "byteset":
		if len(d) > 0 {
			i := rapid.IntRange(0, len(d)-1).Draw(t, "pos")
			d[i] = rapid.SampledFrom([]byte{0, 0xff, 0x80, 1}).Draw(t, "val")
		}
	case "offset":
		if len(d) >= 4 {
			// offsets live in the first part of a container; bias to the front and 4-byte strides
			hi := len(d) - 4
			if hi > 64 {
				hi = 64
			}
			i := rapid.IntRange(0, hi).Draw(t, "pos")
			if rapid.Bool().Draw(t, "align") {
				i -= i % 4
			}
			v := binary.LittleEndian.Uint32(d[i:])
			switch rapid.IntRange(0, 6).Draw(t, "how") {
			case 0:
				v++
			case 1:
				v--
			case 2:
				v += 4
			case 3:
				v -= 4
			case 4:
				v = 0
			case 5:
				v = uint32(len(d))
			default:
				v = uint32(len(d)) + 1
			}
			binary.LittleEndian.PutUint32(d[i:], v)
		}
	case "gap":
		// the same elements behind k filler bytes: if the data starts with a table of n offsets (a bare list of
		// variable-size items, or a container whose first fields are variable), every offset is raised by k and k
		// bytes are inserted behind the table
		if len(d) >= 4 {
			o0 := int(binary.LittleEndian.Uint32(d))
			if o0 >= 4 && o0%4 == 0 && o0 <= len(d) && o0 <= 4*64 {
				k := rapid.IntRange(1, 5).Draw(t, "gapk")
				out := append([]byte{}, d[:o0]...)
				for i := 0; i+4 <= o0; i += 4 {
					binary.LittleEndian.PutUint32(out[i:], binary.LittleEndian.Uint32(out[i:])+uint32(k))
				}
				out = append(out, rapid.SliceOfN(rapid.Byte(), k, k).Draw(t, "gapfill")...)
				d = append(out, d[o0:]...)
			}
		}
	case "truncate":
		if len(d) > 0 {
			d = d[:rapid.IntRange(0, len(d)-1).Draw(t, "cut")]
		}
	case "extend":
		d = append(d, rapid.SliceOfN(rapid.Byte(), 1, 8).Draw(t, "tail")...)
	case "splice":
		a := rapid.IntRange(0, len(d)).Draw(t, "a")
		b := rapid.IntRange(0, len(other)).Draw(t, "b")
		d = append(d[:a:a], other[b:]...)
	}
	return d, class
}

func genC14Bytes(name string) func(t *rapid.T) c14Bytes {
	return func(t *rapid.T) c14Bytes { return genC14BytesOf(t, name) }
}

func genC14BytesOf(t *rapid.T, name string) c14Bytes {
	w := wireByName[name]
	switch rapid.IntRange(0, 9).Draw(t, "src") {
	case 0:
		return c14Bytes{Type: name, Class: "hostile", Data: rapid.SampledFrom(hostile).Draw(t, "h")}
	case 1:
		n := rapid.SampledFrom([]int{0, 1, 2, 3, 4, 5, 6, 13, 14, 15, 33, 40}).Draw(t, "n")
		return c14Bytes{Type: name, Class: "raw", Data: rapid.SliceOfN(rapid.Byte(), n, n).Draw(t, "raw")}
	}
	obj, _ := drawValue(t, w, "")
	enc, err := obj.MarshalSSZ()
	if err != nil {
		enc = nil
	}
	obj2, _ := drawValue(t, w, "")
	enc2, _ := obj2.MarshalSSZ()
	d, class := mutate(t, enc, enc2)
	return c14Bytes{Type: name, Class: class, Data: d}
}

func runC14Bytes(p c14Bytes, c *stats.Case) error {
	w := wireByName[p.Type]
	if w == nil {
		return fmt.Errorf("unknown type %s", p.Type)
	}
	c.Class("type:" + p.Type)
	c.Class("class:" + p.Class)
	obj := w.newObj()
	if err := obj.UnmarshalSSZ(append([]byte{}, p.Data...)); err != nil {
		c.Class("rejected")
		if p.Class == "offset" || p.Class == "truncate" || p.Class == "extend" {
			c.NT("mutation-rejected:" + p.Class)
		}
		return nil
	}
	c.NT("decodes")
	if !w.strict {
		// only the value round trip is claimed for these containers; count what a strict reading would see
		if re, err := obj.MarshalSSZ(); err != nil || !bytes.Equal(re, p.Data) {
			c.Class("nonstrict:noncanonical-accepted")
		}
		return nil
	}
	if err := limitsOf(w, obj); err != nil {
		return fmt.Errorf("%s: decoder accepted a value beyond its declared limits: %v (input %x)", p.Type, err, clipHex(p.Data))
	}
	re, err := obj.MarshalSSZ()
	if err != nil {
		return fmt.Errorf("%s: decoded value does not re-encode: %v (input %x)", p.Type, err, clipHex(p.Data))
	}
	if !bytes.Equal(re, p.Data) {
		return fmt.Errorf("%s: accepted input does not re-encode to itself: in %x out %x", p.Type, clipHex(p.Data), clipHex(re))
	}
	return nil
}

func TestC14_Bytes(t *testing.T) {
	for _, name := range typeNames(false) {
		t.Run(name, func(t *testing.T) { pbt.Run(t, "C14", "bytes-"+name, genC14Bytes(name), runC14Bytes) })
	}
}

// FuzzC14Bytes: coverage-guided variant; first byte selects the type.
func FuzzC14Bytes(f *testing.F) {
	names := typeNames(true)
	for i := range names {
		for _, h := range hostile {
			f.Add(append([]byte{byte(i)}, h...))
		}
	}
	f.Fuzz(func(t *testing.T, data []byte) {
		if len(data) == 0 {
			return
		}
		name := names[int(data[0])%len(names)]
		if err := runC14Bytes(c14Bytes{Type: name, Class: "fuzz", Data: data[1:]}, &stats.Case{}); err != nil {
			t.Fatal(err)
		}
	})
}

var _ = codec.NewDecodingReader
