package p_wire

import (
	"bytes"
	"fmt"
	"github.com/ethereum/go-ethereum/p2p/enode"
	"testing"

	"github.com/zen-eth/shisui/portalwire"
	"pgregory.net/rapid"
	"verifharness/gen"
	model "verifharness/mframing"
	"verifharness/pbt"
	"verifharness/pp"
	"verifharness/stats"
)

func TestMain(m *testing.M) { pbt.Main(m) }

// ---------------------------------------------------------------------------
// C15 (a): decode(join(xs)) == xs

type itemSpec struct {
	Len  int
	Fill byte
}

func (s itemSpec) bytes() []byte {
	b := make([]byte, s.Len)
	for i := range b {
		b[i] = byte(i*31) + s.Fill
	}
	return b
}

type c15Join struct {
	Items []itemSpec
	Then  []itemSpec // another list joined (and other streams split) between joining Items and splitting its stream
}

var boundaryLens = []int{0, 0, 1, 2, 126, 127, 128, 129, 255, 256, 16382, 16383, 16384, 16385}

func genItemLen(t *rapid.T, allowHuge bool) int {
	switch rapid.IntRange(0, 9).Draw(t, "lenClass") {
	case 0, 1, 2:
		return rapid.SampledFrom(boundaryLens).Draw(t, "blen")
	case 3:
		if allowHuge && rapid.IntRange(0, 7).Draw(t, "hugeGate") == 0 {
			return rapid.SampledFrom([]int{1<<21 - 1, 1 << 21, 1<<21 + 1, 1 << 20, 1<<14 + 7}).Draw(t, "huge")
		}
		return rapid.IntRange(0, 20000).Draw(t, "big")
	default:
		return rapid.IntRange(0, 600).Draw(t, "len")
	}
}

func genC15Join(t *rapid.T) c15Join {
	// "any list of byte strings": the framing knows nothing of the 64-key limit of an offer, longer lists round-trip too
	n := rapid.IntRange(0, 64).Draw(t, "n")
	long := rapid.IntRange(0, 7).Draw(t, "longGate") == 0
	if long {
		n = rapid.SampledFrom([]int{63, 64, 65, 66, 100, 129, 300}).Draw(t, "nlong")
	}
	p := c15Join{Items: make([]itemSpec, n)}
	huge := 0
	for i := range p.Items {
		l := genItemLen(t, huge < 2)
		if long {
			l = rapid.SampledFrom([]int{0, 0, 1, 2, 5, 127, 128, 300}).Draw(t, "llong")
		}
		if l >= 1<<20 {
			huge++
		}
		p.Items[i] = itemSpec{Len: l, Fill: rapid.Byte().Draw(t, "fill")}
	}
	if rapid.IntRange(0, 2).Draw(t, "thenGate") == 0 {
		for i, m := 0, rapid.IntRange(1, 6).Draw(t, "nthen"); i < m; i++ {
			p.Then = append(p.Then, itemSpec{Len: rapid.SampledFrom([]int{0, 1, 5, 127, 128, 300, 5000}).Draw(t, "lthen"), Fill: rapid.Byte().Draw(t, "fthen")})
		}
	}
	return p
}

func runC15Join(p c15Join, c *stats.Case) error {
	xs := make([][]byte, len(p.Items))
	hasEmpty, hasBig := false, false
	for i, s := range p.Items {
		xs[i] = s.bytes()
		if s.Len == 0 {
			hasEmpty = true
		}
		if s.Len >= 128 {
			hasBig = true
		}
		if s.Len >= 16384 {
			c.Class("item>=16384")
		}
		if s.Len >= 1<<20 {
			c.Class("item>=2^20")
		}
	}
	if hasEmpty && hasBig {
		c.NT("empty+>=128")
	}
	if len(xs) == 0 {
		c.Class("empty-list")
	}
	if len(xs) > 64 {
		c.NT("list-longer-than-64-items")
	}
	enc := portalwire.VerifEncodeContents(xs)
	if want := model.JoinStream(xs); !bytes.Equal(enc, want) {
		return fmt.Errorf("encodeContents differs from reference join: got %d bytes want %d", len(enc), len(want))
	}
	if len(p.Then) > 0 {
		// the stream of a list is a value: joining and splitting other lists in between (as concurrent transfers
		// do) must not change what it splits into
		ys := make([][]byte, len(p.Then))
		for i, s := range p.Then {
			ys[i] = s.bytes()
		}
		enc2 := portalwire.VerifEncodeContents(ys)
		if dec2, err := portalwire.VerifDecodeContents(enc2); err != nil || len(dec2) != len(ys) {
			return fmt.Errorf("second list of %d items does not round-trip (err %v)", len(ys), err)
		}
		if want := model.JoinStream(xs); !bytes.Equal(enc, want) {
			return fmt.Errorf("the stream of the first list (%d items) changed while a second list (%d items) was joined and split", len(xs), len(ys))
		}
		if len(xs) > 0 {
			c.NT("other-list-joined-in-between")
		}
	}
	dec, err := portalwire.VerifDecodeContents(enc)
	if err != nil {
		return fmt.Errorf("decodeContents(encodeContents(xs)) failed: %v", err)
	}
	if len(dec) != len(xs) {
		return fmt.Errorf("round trip changed item count %d -> %d", len(xs), len(dec))
	}
	for i := range xs {
		if !bytes.Equal(dec[i], xs[i]) {
			return fmt.Errorf("round trip changed item %d (len %d -> %d)", i, len(xs[i]), len(dec[i]))
		}
	}
	// single item helpers
	for i, x := range xs {
		if i > 3 {
			break
		}
		e := portalwire.VerifEncodeSingleContent(x)
		got, rest, err := portalwire.VerifDecodeSingleContent(append(append([]byte{}, e...), 0xAA, 0xBB))
		if err != nil || !bytes.Equal(got, x) || !bytes.Equal(rest, []byte{0xAA, 0xBB}) {
			return fmt.Errorf("single content round trip failed for len %d: err=%v rest=%x", len(x), err, rest)
		}
	}
	return nil
}

func TestC15_Join(t *testing.T) { pbt.Run(t, "C15", "join", genC15Join, runC15Join) }

// ---------------------------------------------------------------------------
// C15 (b): arbitrary bytes against the reference splitter

type c15Split struct {
	Class    string
	Data     []byte
	ViaOffer bool // also hand the stream to the offer path (handleOfferedContents) of a protocol instance
}

func genVarintBytes(t *rapid.T) []byte {
	switch rapid.IntRange(0, 8).Draw(t, "vclass") {
	case 6: // overflows 32 bits but its low 32 bits are a small length that the following bytes cover
		low := rapid.ByteRange(0, 6).Draw(t, "low")
		hi := rapid.SampledFrom([]byte{0x10, 0x20, 0x30, 0x70, 0x7f}).Draw(t, "hi")
		return []byte{low | 0x80, 0x80, 0x80, 0x80, hi}
	case 7: // over-long (6+ bytes) with a small low part
		low := rapid.ByteRange(0, 6).Draw(t, "low")
		n := rapid.IntRange(4, 8).Draw(t, "n")
		b := append([]byte{low | 0x80}, bytes.Repeat([]byte{0x80}, n)...)
		return append(b, rapid.SampledFrom([]byte{0x00, 0x01}).Draw(t, "last"))
	case 8: // values next to 2^32 and 2^31: end-offset arithmetic in 32 bits wraps here
		v := rapid.SampledFrom([]uint32{1<<32 - 1, 1<<32 - 2, 1<<32 - 5, 1<<32 - 6, 1<<32 - 40, 1 << 31, 1<<31 - 1, 1<<31 + 5}).Draw(t, "near")
		return model.PutUvarint32(v)
	case 0: // 5-byte varint with high bits set in last byte
		return []byte{0xff, 0xff, 0xff, 0xff, rapid.ByteRange(0x01, 0x7f).Draw(t, "last")}
	case 1: // 6+ byte varint
		n := rapid.IntRange(5, 9).Draw(t, "n")
		b := bytes.Repeat([]byte{0x80}, n)
		return append(b, rapid.ByteRange(0, 0x7f).Draw(t, "last"))
	case 2: // non minimal
		n := rapid.IntRange(1, 4).Draw(t, "n")
		b := []byte{rapid.Byte().Draw(t, "first") | 0x80}
		for i := 1; i < n; i++ {
			b = append(b, 0x80)
		}
		return append(b, 0x00)
	case 3: // unterminated
		n := rapid.IntRange(1, 4).Draw(t, "n")
		return bytes.Repeat([]byte{0x81}, n)
	default:
		return model.PutUvarint32(rapid.Uint32().Draw(t, "v"))
	}
}

func genC15Split(t *rapid.T) c15Split {
	class := rapid.SampledFrom([]string{"valid", "truncate", "overshoot", "varint", "trailing", "raw", "splice"}).Draw(t, "class")
	small := func(label string) [][]byte {
		n := rapid.IntRange(0, 8).Draw(t, label+"n")
		if rapid.IntRange(0, 5).Draw(t, label+"manyGate") == 0 {
			n = rapid.SampledFrom([]int{63, 64, 64, 65, 70, 130}).Draw(t, label+"many") // the malformed part then lies behind 64 or more good items
		}
		xs := make([][]byte, n)
		for i := range xs {
			l := rapid.SampledFrom([]int{0, 0, 1, 2, 5, 127, 128, 129, 300}).Draw(t, label+"l")
			xs[i] = itemSpec{Len: l, Fill: rapid.Byte().Draw(t, label+"f")}.bytes()
		}
		return xs
	}
	var data []byte
	switch class {
	case "valid":
		data = model.JoinStream(small("v"))
	case "truncate":
		data = model.JoinStream(small("t"))
		if len(data) > 0 {
			cut := rapid.IntRange(0, len(data)-1).Draw(t, "cut")
			data = data[:cut]
		}
	case "overshoot":
		xs := small("o")
		data = model.JoinStream(xs)
		extra := rapid.SampledFrom([]uint32{1, 2, 127, 128, 1 << 14, 1 << 21, 1<<31 - 1, 1 << 31, 1<<32 - 1}).Draw(t, "extra")
		have := rapid.IntRange(0, 40).Draw(t, "have")
		data = append(data, model.PutUvarint32(uint32(have)+extra)...)
		data = append(data, make([]byte, have)...)
	case "varint":
		data = model.JoinStream(small("p"))
		data = append(data, genVarintBytes(t)...)
		data = append(data, rapid.SliceOfN(rapid.Byte(), 0, 20).Draw(t, "tail")...)
	case "trailing":
		data = model.JoinStream(small("r"))
		data = append(data, rapid.SliceOfN(rapid.Byte(), 1, 6).Draw(t, "tail")...)
	case "splice":
		a, b := model.JoinStream(small("a")), model.JoinStream(small("b"))
		if len(a) > 0 {
			a = a[:rapid.IntRange(0, len(a)).Draw(t, "ca")]
		}
		if len(b) > 0 {
			b = b[rapid.IntRange(0, len(b)).Draw(t, "cb"):]
		}
		data = append(a, b...)
	default:
		n := rapid.SampledFrom([]int{0, 1, 2, 3, 4, 5, 6, 13, 14, 15, 40, 200}).Draw(t, "rawn")
		data = rapid.SliceOfN(rapid.Byte(), n, n).Draw(t, "raw")
	}
	return c15Split{Class: class, Data: data, ViaOffer: rapid.IntRange(0, 9).Draw(t, "viaOffer") == 0}
}

// goodLeadingItems counts the well-formed items a stream starts with (minimal or not, 32-bit prefixes).
func goodLeadingItems(b []byte) int {
	n := 0
	for len(b) > 0 {
		var v uint64
		i := 0
		for ; i < len(b) && i < 5; i++ {
			v |= uint64(b[i]&0x7f) << (7 * uint(i))
			if b[i]&0x80 == 0 {
				break
			}
		}
		if i >= len(b) || i >= 5 || v > 1<<32-1 || uint64(len(b)-i-1) < v {
			return n
		}
		b = b[i+1+int(v):]
		n++
	}
	return n
}

func runC15Split(p c15Split, c *stats.Case) error {
	c.Class("class:" + p.Class)
	want, minimal, werr := model.SplitStream(p.Data)
	if p.ViaOffer {
		// the same stream as the body of an accepted offer: it is handed to validation only if it is well formed and
		// holds exactly one item per accepted key (1, the true number, or one more accepted keys)
		proto := pp.Bare(5, []byte{0, 1}, nil, portalwire.History)
		tried := map[int]bool{}
		for _, nk := range []int{1, len(want), len(want) + 1} {
			if nk < 1 || nk > 64 || tried[nk] {
				continue
			}
			tried[nk] = true
			keys := make([][]byte, nk)
			for i := range keys {
				keys[i] = []byte{0x00, byte(i), 0xc1, 0x5e}
			}
			err := proto.VerifHandleOfferedContents(enode.ID{}, keys, append([]byte{}, p.Data...))
			select {
			case <-proto.GetContent():
			default:
			}
			okRef := werr == nil && len(want) == nk
			if err == nil && !okRef {
				return fmt.Errorf("offer with %d accepted keys: a stream that is not exactly %d well-formed items (reference: %v, %d items) was handed to validation: %x", nk, nk, werr, len(want), clipHex(p.Data))
			}
			if err != nil && okRef && minimal {
				return fmt.Errorf("offer with %d accepted keys: the well-formed stream of %d items was refused: %v", nk, nk, err)
			}
		}
		c.NT("stream-as-body-of-an-accepted-offer")
	}
	got, gerr := portalwire.VerifDecodeContents(append([]byte{}, p.Data...))
	if werr != nil {
		c.NT("malformed:" + werr.Error())
		if goodLeadingItems(p.Data) >= 64 {
			c.NT("malformed-behind-64-or-more-good-items")
		}
		if gerr == nil {
			return fmt.Errorf("malformed stream (%v) was split into %d items instead of rejected: %x", werr, len(got), clipHex(p.Data))
		}
		return nil
	}
	if len(want) > 0 {
		c.NT("decodes")
	}
	if gerr != nil {
		if minimal {
			return fmt.Errorf("well-formed stream rejected: %v: %x", gerr, clipHex(p.Data))
		}
		c.Class("nonminimal-rejected")
		return nil
	}
	if !minimal {
		c.Class("nonminimal-accepted")
	}
	if len(got) != len(want) {
		return fmt.Errorf("split differently: %d items, reference %d: %x", len(got), len(want), clipHex(p.Data))
	}
	for i := range got {
		if !bytes.Equal(got[i], want[i]) {
			return fmt.Errorf("item %d differs from reference split: %x", i, clipHex(p.Data))
		}
	}
	return nil
}

func clipHex(b []byte) []byte {
	if len(b) > 96 {
		return b[:96]
	}
	return b
}

func TestC15_Split(t *testing.T) { pbt.Run(t, "C15", "split", genC15Split, runC15Split) }

// ---------------------------------------------------------------------------
// C15 (c): single-item stream as used after a FINDCONTENT uTP transfer

type c15Single struct {
	PeerVersions []byte // advertised by the peer; local is {0,1}
	Data         []byte
	Class        string
}

func genC15Single(t *rapid.T) c15Single {
	pv := rapid.SampledFrom([][]byte{{0}, {1}, {0, 1}, {1, 0}}).Draw(t, "pv")
	class := rapid.SampledFrom([]string{"exact", "trailing", "short", "two", "raw", "empty"}).Draw(t, "class")
	item := itemSpec{Len: rapid.SampledFrom([]int{0, 1, 2, 127, 128, 300, 2000}).Draw(t, "l"), Fill: rapid.Byte().Draw(t, "f")}.bytes()
	var data []byte
	switch class {
	case "exact":
		data = model.JoinStream([][]byte{item})
	case "trailing":
		data = append(model.JoinStream([][]byte{item}), rapid.SliceOfN(rapid.Byte(), 1, 5).Draw(t, "tail")...)
	case "short":
		data = model.JoinStream([][]byte{item})
		data = data[:rapid.IntRange(0, len(data)-1).Draw(t, "cut")]
	case "two":
		data = model.JoinStream([][]byte{item, itemSpec{Len: rapid.IntRange(0, 5).Draw(t, "l2")}.bytes()})
	case "empty":
		data = nil
	default:
		data = rapid.SliceOfN(rapid.Byte(), 0, 40).Draw(t, "raw")
	}
	return c15Single{PeerVersions: pv, Data: data, Class: class}
}

func runC15Single(p c15Single, c *stats.Case) error {
	c.Class("class:" + p.Class)
	local := pp.Bare(1, []byte{0, 1}, nil, portalwire.History)
	peer := gen.SignedNode(gen.NodeOpts{KeyIdx: 2, Seq: 1, IP: []byte{127, 0, 0, 1}, UDP: 9010, Versions: p.PeerVersions})
	v1 := bytes.Contains(p.PeerVersions, []byte{1})
	got, err := local.VerifDecodeUtpContent(peer, append([]byte{}, p.Data...))
	if !v1 {
		c.Class("v0")
		if err != nil || !bytes.Equal(got, p.Data) {
			return fmt.Errorf("version 0 framing must be the identity: err=%v", err)
		}
		// and encode is the identity too
		e, err := local.VerifEncodeUtpContent(peer, p.Data)
		if err != nil || !bytes.Equal(e, p.Data) {
			return fmt.Errorf("version 0 encode must be the identity: err=%v", err)
		}
		return nil
	}
	c.Class("v1")
	l, n, minimal, verr := model.Uvarint32(p.Data)
	exact := verr == nil && uint64(len(p.Data)-n) == uint64(l)
	if !exact {
		c.NT("v1-malformed-single")
		if err == nil {
			return fmt.Errorf("single-item stream whose prefix does not cover exactly the rest was accepted: %x -> %x", clipHex(p.Data), clipHex(got))
		}
		return nil
	}
	c.NT("v1-exact")
	if err != nil {
		if minimal {
			return fmt.Errorf("exact single-item stream rejected: %v", err)
		}
		return nil
	}
	if !bytes.Equal(got, p.Data[n:]) {
		return fmt.Errorf("single-item stream decoded to different bytes")
	}
	// encode then decode gives the item back
	e, err := local.VerifEncodeUtpContent(peer, got)
	if err != nil {
		return err
	}
	back, err := local.VerifDecodeUtpContent(peer, e)
	if err != nil || !bytes.Equal(back, got) {
		return fmt.Errorf("v1 encode/decode of a single item is not the identity: %v", err)
	}
	return nil
}

func TestC15_Single(t *testing.T) { pbt.Run(t, "C15", "single", genC15Single, runC15Single) }

// FuzzC15Split is the coverage-guided variant of the split check (thorough tier).
func FuzzC15Split(f *testing.F) {
	for _, s := range [][]byte{{}, {0}, {1, 7}, {0x80, 0}, {0xff, 0xff, 0xff, 0xff, 0x0f}, {0xff, 0xff, 0xff, 0xff, 0x10}, {0x80, 0x80, 0x80, 0x80, 0x80, 0}, {2, 1, 2, 0, 1, 9}, {5, 1, 2}} {
		f.Add(s)
	}
	f.Fuzz(func(t *testing.T, data []byte) {
		c := &stats.Case{}
		if err := runC15Split(c15Split{Class: "fuzz", Data: data}, c); err != nil {
			t.Fatal(err)
		}
	})
}
