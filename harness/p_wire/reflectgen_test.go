package p_wire

// Tag-driven generator and limit checker for the fastssz containers of the
// repository: the declared limits are read from the struct tags (ssz-max,
// ssz-size, ssz:"bitlist"), which are the declaration the generated codecs were
// produced from and the place the property's limits (64 keys, 2048-byte keys and
// ENRs, 32 ENRs, 256 distances, 1100-byte payload, 2-byte connection id) are
// written down.

import (
	"fmt"
	"reflect"
	"strconv"
	"strings"

	"pgregory.net/rapid"
)

type sszObj interface {
	MarshalSSZ() ([]byte, error)
	UnmarshalSSZ([]byte) error
}

type dim struct {
	fixed int // >=0: fixed size, -1: dynamic
	max   int // limit when dynamic (-1 unknown)
}

type fieldSpec struct {
	name    string
	bitlist bool
	dims    []dim
}

func parseDims(tag reflect.StructTag) []dim {
	parse := func(s string) []string {
		if s == "" {
			return nil
		}
		return strings.Split(s, ",")
	}
	sz, mx := parse(tag.Get("ssz-size")), parse(tag.Get("ssz-max"))
	n := len(sz)
	if len(mx) > n {
		n = len(mx)
	}
	out := make([]dim, n)
	for i := range out {
		out[i] = dim{fixed: -1, max: -1}
		if i < len(sz) && sz[i] != "?" {
			out[i].fixed, _ = strconv.Atoi(sz[i])
		}
		if i < len(mx) {
			out[i].max, _ = strconv.Atoi(mx[i])
		}
	}
	return out
}

func specOf(f reflect.StructField) fieldSpec {
	return fieldSpec{name: f.Name, bitlist: f.Tag.Get("ssz") == "bitlist", dims: parseDims(f.Tag)}
}

// genMode says how one container value is drawn.
type genMode struct {
	field int    // index of the field that is pushed, -1 none
	dim   int    // which dimension of it
	kind  string // "over": exceed the limit / wrong fixed size, "limit": exactly at the limit
}

const maxAffordable = 70000

func drawLen(t *rapid.T, d dim, label string, want string) int {
	if d.fixed >= 0 {
		switch want {
		case "over":
			return d.fixed + rapid.SampledFrom([]int{-1, 1}).Draw(t, label+"fx")
		}
		return d.fixed
	}
	max := d.max
	if max < 0 {
		max = 64
	}
	switch want {
	case "over":
		return max + rapid.SampledFrom([]int{1, 1, 2}).Draw(t, label+"ov")
	case "limit":
		return max
	}
	hi := max
	if hi > 48 {
		hi = 48
	}
	switch rapid.IntRange(0, 5).Draw(t, label+"lc") {
	case 0:
		return 0
	case 1:
		if max <= 4096 {
			return rapid.IntRange(0, max).Draw(t, label+"lw")
		}
	}
	return rapid.IntRange(0, hi).Draw(t, label+"ln")
}

func drawBytes(t *rapid.T, n int, label string) []byte {
	if n < 0 {
		n = 0
	}
	if n <= 64 {
		return rapid.SliceOfN(rapid.Byte(), n, n).Draw(t, label)
	}
	b := make([]byte, n)
	seed := rapid.Byte().Draw(t, label+"fill")
	for i := range b {
		b[i] = byte(i*7) ^ seed
	}
	return b
}

// fillValue draws a value for every field of the struct pointed to by obj.
// It returns false when the requested over-limit value is not affordable.
func fillValue(t *rapid.T, obj any, m genMode) bool {
	v := reflect.ValueOf(obj).Elem()
	ty := v.Type()
	for i := 0; i < ty.NumField(); i++ {
		f := ty.Field(i)
		fs := specOf(f)
		fv := v.Field(i)
		want := func(d int) string {
			if m.kind == "allmax" {
				return "limit" // every dimension of every field at its limit at once (the largest in-limit value)
			}
			if m.field == i && m.dim == d {
				return m.kind
			}
			return ""
		}
		switch fv.Kind() {
		case reflect.Uint64:
			fv.SetUint(rapid.Uint64().Draw(t, f.Name))
		case reflect.Uint16:
			fv.SetUint(uint64(rapid.Uint16().Draw(t, f.Name)))
		case reflect.Uint8:
			fv.SetUint(uint64(rapid.Uint8().Draw(t, f.Name)))
		case reflect.Slice:
			et := f.Type.Elem()
			switch {
			case et.Kind() == reflect.Uint8 && fs.bitlist:
				d := dim{fixed: -1, max: 64}
				if len(fs.dims) > 0 {
					d = fs.dims[0]
				}
				nbits := drawLen(t, d, f.Name, want(0))
				if nbits < 0 {
					nbits = 0
				}
				b := make([]byte, nbits/8+1)
				for j := 0; j < nbits; j++ {
					if rapid.Bool().Draw(t, f.Name+"bit") {
						b[j/8] |= 1 << uint(j%8)
					}
				}
				b[nbits/8] |= 1 << uint(nbits%8)
				fv.SetBytes(b)
			case et.Kind() == reflect.Uint8:
				d := dim{fixed: -1, max: 64}
				if len(fs.dims) > 0 {
					d = fs.dims[0]
				}
				n := drawLen(t, d, f.Name, want(0))
				if n > maxAffordable {
					return false
				}
				fv.SetBytes(drawBytes(t, n, f.Name))
			case et.Kind() == reflect.Array && et.Elem().Kind() == reflect.Uint8:
				d := dim{fixed: -1, max: 64}
				if len(fs.dims) > 0 {
					d = fs.dims[0]
				}
				n := drawLen(t, d, f.Name, want(0))
				if n*et.Len() > maxAffordable {
					return false
				}
				sl := reflect.MakeSlice(f.Type, n, n)
				for j := 0; j < n; j++ {
					b := drawBytes(t, et.Len(), f.Name+"e")
					reflect.Copy(sl.Index(j), reflect.ValueOf(b))
				}
				fv.Set(sl)
			case et.Kind() == reflect.Slice && et.Elem().Kind() == reflect.Uint8:
				outer, inner := dim{fixed: -1, max: 16}, dim{fixed: -1, max: 64}
				if len(fs.dims) > 0 {
					outer = fs.dims[0]
				}
				if len(fs.dims) > 1 {
					inner = fs.dims[1]
				}
				n := drawLen(t, outer, f.Name+"o", want(0))
				if n < 0 {
					n = 0
				}
				total := 0
				items := make([][]byte, n)
				overIdx := -1
				if want(1) != "" && n == 0 {
					n = 1
					items = make([][]byte, 1)
				}
				if want(1) != "" {
					overIdx = rapid.IntRange(0, n-1).Draw(t, f.Name+"oi")
				}
				for j := 0; j < n; j++ {
					w := ""
					if j == overIdx || m.kind == "allmax" {
						w = want(1)
					}
					l := drawLen(t, inner, f.Name+"i", w)
					if inner.fixed < 0 && w == "" && n > 64 && l > 8 {
						l = l % 8 // keep very long lists cheap
					}
					total += l + 4
					if total > 4*maxAffordable {
						return false
					}
					items[j] = drawBytes(t, l, f.Name+"b")
				}
				fv.Set(reflect.ValueOf(items))
			default:
				panic("unsupported slice elem " + f.Type.String())
			}
		default:
			panic("unsupported kind " + f.Type.String())
		}
	}
	return true
}

// limitDims lists (field, dim) pairs that have a limit or fixed size.
func limitDims(obj any) [][2]int {
	ty := reflect.TypeOf(obj).Elem()
	var out [][2]int
	for i := 0; i < ty.NumField(); i++ {
		fs := specOf(ty.Field(i))
		for d := range fs.dims {
			out = append(out, [2]int{i, d})
		}
	}
	return out
}

// checkLimits verifies every declared limit on a decoded value.
func checkLimits(obj any) error {
	v := reflect.ValueOf(obj).Elem()
	ty := v.Type()
	for i := 0; i < ty.NumField(); i++ {
		f := ty.Field(i)
		fs := specOf(f)
		fv := v.Field(i)
		if fv.Kind() != reflect.Slice {
			continue
		}
		chk := func(n int, d dim, what string) error {
			if d.fixed >= 0 && n != d.fixed {
				return fmt.Errorf("%s.%s %s: size %d, declared %d", ty.Name(), f.Name, what, n, d.fixed)
			}
			if d.fixed < 0 && d.max >= 0 && n > d.max {
				return fmt.Errorf("%s.%s %s: length %d exceeds declared limit %d", ty.Name(), f.Name, what, n, d.max)
			}
			return nil
		}
		if len(fs.dims) == 0 {
			continue
		}
		if fs.bitlist {
			b := fv.Bytes()
			if len(b) == 0 || b[len(b)-1] == 0 {
				return fmt.Errorf("%s.%s: bitlist without length bit", ty.Name(), f.Name)
			}
			nbits := 8*(len(b)-1) + bitsLen8(b[len(b)-1]) - 1
			if err := chk(nbits, fs.dims[0], "bits"); err != nil {
				return err
			}
			continue
		}
		if err := chk(fv.Len(), fs.dims[0], "outer"); err != nil {
			return err
		}
		if len(fs.dims) > 1 && f.Type.Elem().Kind() == reflect.Slice {
			for j := 0; j < fv.Len(); j++ {
				if err := chk(fv.Index(j).Len(), fs.dims[1], fmt.Sprintf("item %d", j)); err != nil {
					return err
				}
			}
		}
	}
	return nil
}

func bitsLen8(b byte) int {
	n := 0
	for b != 0 {
		n++
		b >>= 1
	}
	return n
}

// sszEqual compares two containers treating nil and empty slices as equal.
func sszEqual(a, b any) bool {
	return eqValue(reflect.ValueOf(a), reflect.ValueOf(b))
}

func eqValue(a, b reflect.Value) bool {
	if a.Kind() != b.Kind() {
		return false
	}
	switch a.Kind() {
	case reflect.Ptr, reflect.Interface:
		if a.IsNil() || b.IsNil() {
			return a.IsNil() == b.IsNil()
		}
		return eqValue(a.Elem(), b.Elem())
	case reflect.Struct:
		for i := 0; i < a.NumField(); i++ {
			if !a.Type().Field(i).IsExported() {
				continue
			}
			if !eqValue(a.Field(i), b.Field(i)) {
				return false
			}
		}
		return true
	case reflect.Slice, reflect.Array:
		if a.Len() != b.Len() {
			return false
		}
		for i := 0; i < a.Len(); i++ {
			if !eqValue(a.Index(i), b.Index(i)) {
				return false
			}
		}
		return true
	default:
		return reflect.DeepEqual(a.Interface(), b.Interface())
	}
}

// refEncode is an independent SSZ encoder for the tagged containers, written from the SSZ rules (fixed
// fields inline, one 4-byte offset per variable field, lists of variable items carry their own offset
// table). It applies no limits, so it can produce the encoding of an over-limit value that the code's
// own encoder refuses to emit; for in-limit values it must agree with the code's encoder.
func refEncode(obj any) []byte {
	v := reflect.ValueOf(obj).Elem()
	ty := v.Type()
	type part struct {
		fixed []byte // inline bytes, or nil when variable
		vari  []byte
	}
	parts := make([]part, ty.NumField())
	le := func(n uint64, size int) []byte {
		b := make([]byte, size)
		for i := 0; i < size; i++ {
			b[i] = byte(n >> (8 * uint(i)))
		}
		return b
	}
	for i := 0; i < ty.NumField(); i++ {
		f := ty.Field(i)
		fs := specOf(f)
		fv := v.Field(i)
		switch fv.Kind() {
		case reflect.Uint64:
			parts[i].fixed = le(fv.Uint(), 8)
		case reflect.Uint16:
			parts[i].fixed = le(fv.Uint(), 2)
		case reflect.Uint8:
			parts[i].fixed = le(fv.Uint(), 1)
		case reflect.Slice:
			et := f.Type.Elem()
			switch {
			case et.Kind() == reflect.Uint8: // bytes or bitlist
				b := append([]byte{}, fv.Bytes()...)
				if !fs.bitlist && len(fs.dims) > 0 && fs.dims[0].fixed >= 0 {
					parts[i].fixed = b
				} else {
					parts[i].vari = b
					if parts[i].vari == nil {
						parts[i].vari = []byte{}
					}
				}
			case et.Kind() == reflect.Array: // list of fixed arrays
				var b []byte
				for j := 0; j < fv.Len(); j++ {
					for k := 0; k < et.Len(); k++ {
						b = append(b, byte(fv.Index(j).Index(k).Uint()))
					}
				}
				if b == nil {
					b = []byte{}
				}
				parts[i].vari = b
			default: // [][]byte
				outerFixed := len(fs.dims) > 0 && fs.dims[0].fixed >= 0
				innerFixed := len(fs.dims) > 1 && fs.dims[1].fixed >= 0
				var b []byte
				if innerFixed {
					for j := 0; j < fv.Len(); j++ {
						b = append(b, fv.Index(j).Bytes()...)
					}
				} else {
					off := 4 * fv.Len()
					for j := 0; j < fv.Len(); j++ {
						b = append(b, le(uint64(off), 4)...)
						off += fv.Index(j).Len()
					}
					for j := 0; j < fv.Len(); j++ {
						b = append(b, fv.Index(j).Bytes()...)
					}
				}
				if b == nil {
					b = []byte{}
				}
				if outerFixed && innerFixed {
					parts[i].fixed = b
				} else {
					parts[i].vari = b
				}
			}
		}
	}
	// four types are bare lists on the wire (the SSZ type is List, not Container): no offset in front
	switch ty.Name() {
	case "Content", "Enrs", "PortalReceipts", "EphemeralHeaderPayload":
		if len(parts) == 1 && parts[0].vari != nil {
			return parts[0].vari
		}
	}
	fixedLen := 0
	for _, p := range parts {
		if p.vari != nil {
			fixedLen += 4
		} else {
			fixedLen += len(p.fixed)
		}
	}
	var out, tail []byte
	for _, p := range parts {
		if p.vari != nil {
			out = append(out, le(uint64(fixedLen+len(tail)), 4)...)
			tail = append(tail, p.vari...)
		} else {
			out = append(out, p.fixed...)
		}
	}
	return append(out, tail...)
}
