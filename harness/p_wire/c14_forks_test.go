package p_wire

// C14, "the ... beacon ... containers round-trip value to bytes to value", for every fork a fork-tagged
// light-client container can carry. The repository's vectors are all Capella, so decoding-first generation
// (c14_beacon_test.go) never produces a Bellatrix, Deneb or Electra *value*. Here the value comes first: the
// genuine Capella value is carried over field by field into the container type the consensus specification
// prescribes for the chosen fork (fields the fork adds start at zero, branches of another depth keep their
// common prefix), a generated set of fixed-size leaves (integers, roots) is overwritten, and the value is
// wrapped with the fork's digest. Its encoding must decode, to a value with the same hash-tree-root, and
// re-encode to the same bytes.

import (
	"bytes"
	"fmt"
	"reflect"
	"testing"

	"github.com/protolambda/zrnt/eth2/beacon/altair"
	"github.com/protolambda/zrnt/eth2/beacon/capella"
	"github.com/protolambda/zrnt/eth2/beacon/common"
	"github.com/protolambda/zrnt/eth2/beacon/deneb"
	"github.com/protolambda/zrnt/eth2/beacon/electra"
	"github.com/protolambda/zrnt/eth2/configs"
	"github.com/protolambda/ztyp/tree"
	tbeacon "github.com/zen-eth/shisui/types/beacon"
	"pgregory.net/rapid"
	"verifharness/pbt"
	"verifharness/stats"
)

var forkNames = []string{"bellatrix", "capella", "deneb", "electra"}

func forkDigest(i int) common.ForkDigest {
	return []common.ForkDigest{tbeacon.Bellatrix, tbeacon.Capella, tbeacon.Deneb, tbeacon.Electra}[i]
}

// the container type the specification prescribes per fork (bellatrix still uses the altair light-client types;
// electra deepens the state branches and leaves the header, hence the optimistic update, as in deneb)
func newForkObj(kind string, fork int) common.SpecObj {
	switch kind {
	case "bootstrap":
		return []common.SpecObj{&altair.LightClientBootstrap{}, &capella.LightClientBootstrap{}, &deneb.LightClientBootstrap{}, &electra.LightClientBootstrap{}}[fork]
	case "update":
		return []common.SpecObj{&altair.LightClientUpdate{}, &capella.LightClientUpdate{}, &deneb.LightClientUpdate{}, &electra.LightClientUpdate{}}[fork]
	case "finality":
		return []common.SpecObj{&altair.LightClientFinalityUpdate{}, &capella.LightClientFinalityUpdate{}, &deneb.LightClientFinalityUpdate{}, &electra.LightClientFinalityUpdate{}}[fork]
	default:
		return []common.SpecObj{&altair.LightClientOptimisticUpdate{}, &capella.LightClientOptimisticUpdate{}, &deneb.LightClientOptimisticUpdate{}, &deneb.LightClientOptimisticUpdate{}}[fork]
	}
}

// carryOver copies src into dst by field name; arrays of different length keep the common prefix.
func carryOver(dst, src reflect.Value) {
	if dst.Kind() != src.Kind() {
		return
	}
	switch dst.Kind() {
	case reflect.Struct:
		for i := 0; i < dst.NumField(); i++ {
			f := dst.Type().Field(i)
			if !f.IsExported() {
				continue
			}
			if sf := src.FieldByName(f.Name); sf.IsValid() {
				carryOver(dst.Field(i), sf)
			}
		}
	case reflect.Array:
		for i := 0; i < dst.Len() && i < src.Len(); i++ {
			carryOver(dst.Index(i), src.Index(i))
		}
	case reflect.Slice:
		if src.IsNil() {
			return
		}
		dst.Set(reflect.MakeSlice(dst.Type(), src.Len(), src.Len()))
		for i := 0; i < src.Len(); i++ {
			carryOver(dst.Index(i), src.Index(i))
		}
	case reflect.Ptr:
		if src.IsNil() {
			return
		}
		dst.Set(reflect.New(dst.Type().Elem()))
		carryOver(dst.Elem(), src.Elem())
	default:
		if src.Type().ConvertibleTo(dst.Type()) && dst.CanSet() {
			dst.Set(src.Convert(dst.Type()))
		}
	}
}

// leaves collects the settable fixed-size leaves that accept any bit pattern: unsigned integers and 32-byte arrays.
func leaves(v reflect.Value, out *[]reflect.Value) {
	switch v.Kind() {
	case reflect.Struct:
		for i := 0; i < v.NumField(); i++ {
			if v.Type().Field(i).IsExported() {
				leaves(v.Field(i), out)
			}
		}
	case reflect.Array:
		if v.Type().Elem().Kind() == reflect.Uint8 {
			if v.Len() == 32 {
				*out = append(*out, v)
			}
			return
		}
		for i := 0; i < v.Len(); i++ {
			leaves(v.Index(i), out)
		}
	case reflect.Ptr:
		if !v.IsNil() {
			leaves(v.Elem(), out)
		}
	case reflect.Uint64:
		*out = append(*out, v)
	}
}

type leafMut struct {
	Leaf uint32
	Val  uint64
}

type c14Fork struct {
	Kind  string // bootstrap, update, finality, optimistic, range
	Forks []int  // one fork per element (range: 1..3 elements)
	Muts  []leafMut
}

func genC14Fork(t *rapid.T) c14Fork {
	p := c14Fork{Kind: rapid.SampledFrom([]string{"bootstrap", "update", "finality", "optimistic", "range"}).Draw(t, "kind")}
	n := 1
	if p.Kind == "range" {
		n = rapid.IntRange(1, 3).Draw(t, "nrange")
	}
	for i := 0; i < n; i++ {
		p.Forks = append(p.Forks, rapid.IntRange(0, 3).Draw(t, "fork"))
	}
	for i, m := 0, rapid.SampledFrom([]int{0, 1, 3, 10, 40}).Draw(t, "nmut"); i < m; i++ {
		p.Muts = append(p.Muts, leafMut{Leaf: rapid.Uint32().Draw(t, "leaf"), Val: rapid.Uint64().Draw(t, "val")})
	}
	return p
}

// capellaSource returns the genuine Capella value of the kind (decoded from the repository's vector).
func capellaSource(kind string) (common.SpecObj, error) {
	vec := map[string]string{"bootstrap": "light_client_bootstrap", "finality": "light_client_finality_update", "optimistic": "light_client_optimistic_update",
		"update": "light_client_updates_by_range", "range": "light_client_updates_by_range"}[kind]
	src, ok := beaconVectors()[vec]
	if !ok {
		return nil, fmt.Errorf("vector %s missing", vec)
	}
	v, err := decodeForked(vec, src)
	if err != nil {
		return nil, err
	}
	switch x := v.(type) {
	case *tbeacon.ForkedLightClientBootstrap:
		return x.Bootstrap, nil
	case *tbeacon.ForkedLightClientFinalityUpdate:
		return x.LightClientFinalityUpdate, nil
	case *tbeacon.ForkedLightClientOptimisticUpdate:
		return x.LightClientOptimisticUpdate, nil
	case *tbeacon.LightClientUpdateRange:
		if len(*x) == 0 {
			return nil, fmt.Errorf("empty range vector")
		}
		return (*x)[0].LightClientUpdate, nil
	}
	return nil, fmt.Errorf("unexpected vector type %T", v)
}

func runC14Fork(p c14Fork, c *stats.Case) error {
	elemKind := p.Kind
	if elemKind == "range" {
		elemKind = "update"
	}
	src, err := capellaSource(p.Kind)
	if err != nil {
		stats.For("C14").Unhealthy("beacon fork values: " + err.Error())
		return nil
	}
	if _, ok := src.(interface {
		HashTreeRoot(*common.Spec, tree.HashFn) common.Root
	}); !ok {
		stats.For("C14").Unhealthy("beacon fork values: source has no hash-tree-root")
		return nil
	}
	objs := make([]common.SpecObj, len(p.Forks))
	for i, f := range p.Forks {
		o := newForkObj(elemKind, f)
		carryOver(reflect.ValueOf(o).Elem(), reflect.ValueOf(src).Elem())
		var ls []reflect.Value
		leaves(reflect.ValueOf(o).Elem(), &ls)
		if len(ls) == 0 {
			return fmt.Errorf("harness: no leaves in %T", o)
		}
		for _, m := range p.Muts {
			l := ls[int(m.Leaf)%len(ls)]
			if l.Kind() == reflect.Uint64 {
				l.SetUint(m.Val)
			} else {
				l.Index(int(m.Val>>8) % 32).SetUint(m.Val & 0xff)
			}
		}
		objs[i] = o
		c.Class("beacon-fork:" + p.Kind + ":" + forkNames[f])
	}
	var v forked
	switch p.Kind {
	case "bootstrap":
		v = &tbeacon.ForkedLightClientBootstrap{ForkDigest: forkDigest(p.Forks[0]), Bootstrap: objs[0]}
	case "update":
		v = &tbeacon.ForkedLightClientUpdate{ForkDigest: forkDigest(p.Forks[0]), LightClientUpdate: objs[0]}
	case "finality":
		v = &tbeacon.ForkedLightClientFinalityUpdate{ForkDigest: forkDigest(p.Forks[0]), LightClientFinalityUpdate: objs[0]}
	case "optimistic":
		v = &tbeacon.ForkedLightClientOptimisticUpdate{ForkDigest: forkDigest(p.Forks[0]), LightClientOptimisticUpdate: objs[0]}
	default:
		r := tbeacon.LightClientUpdateRange{}
		for i := range objs {
			r = append(r, tbeacon.ForkedLightClientUpdate{ForkDigest: forkDigest(p.Forks[i]), LightClientUpdate: objs[i]})
		}
		v = &r
	}
	what := fmt.Sprintf("%s %v", p.Kind, forksOf(p.Forks))
	enc, err := encodeForked(v)
	if err != nil {
		return fmt.Errorf("%s: in-limit value does not encode: %v", what, err)
	}
	var v2 forked
	switch p.Kind {
	case "bootstrap":
		v2 = &tbeacon.ForkedLightClientBootstrap{}
	case "update":
		v2 = &tbeacon.ForkedLightClientUpdate{}
	case "finality":
		v2 = &tbeacon.ForkedLightClientFinalityUpdate{}
	case "optimistic":
		v2 = &tbeacon.ForkedLightClientOptimisticUpdate{}
	default:
		v2 = &tbeacon.LightClientUpdateRange{}
	}
	if err := v2.Deserialize(configs.Mainnet, newReader(enc)); err != nil {
		return fmt.Errorf("%s: decode(encode(v)) fails: %v (%d bytes)", what, err, len(enc))
	}
	enc2, err := encodeForked(v2)
	if err != nil || !bytes.Equal(enc, enc2) {
		return fmt.Errorf("%s: encode(decode(encode(v))) differs from encode(v) (err %v, %d vs %d bytes)", what, err, len(enc2), len(enc))
	}
	// same value: the decoded container has the hash-tree-root of the original and carries the same digest(s)
	type rooter interface {
		HashTreeRoot(*common.Spec, tree.HashFn) common.Root
	}
	h := tree.GetHashFn()
	r1, r2 := v.(rooter).HashTreeRoot(configs.Mainnet, h), v2.(rooter).HashTreeRoot(configs.Mainnet, h)
	if r1 != r2 {
		return fmt.Errorf("%s: decode(encode(v)) is another value (hash-tree-root %x, want %x)", what, r2[:6], r1[:6])
	}
	if d1, d2 := digestsOf(v), digestsOf(v2); !reflect.DeepEqual(d1, d2) {
		return fmt.Errorf("%s: decode(encode(v)) carries fork digests %x, want %x", what, d2, d1)
	}
	for _, f := range p.Forks {
		if f != 1 {
			c.NT("beacon-fork:non-capella-value-roundtrip")
		}
	}
	if len(p.Forks) > 1 {
		c.NT("beacon-fork:range-of-several")
	}
	return nil
}

func forksOf(fs []int) []string {
	out := make([]string, len(fs))
	for i, f := range fs {
		out[i] = forkNames[f]
	}
	return out
}

func digestsOf(v forked) []common.ForkDigest {
	switch x := v.(type) {
	case *tbeacon.ForkedLightClientBootstrap:
		return []common.ForkDigest{x.ForkDigest}
	case *tbeacon.ForkedLightClientUpdate:
		return []common.ForkDigest{x.ForkDigest}
	case *tbeacon.ForkedLightClientFinalityUpdate:
		return []common.ForkDigest{x.ForkDigest}
	case *tbeacon.ForkedLightClientOptimisticUpdate:
		return []common.ForkDigest{x.ForkDigest}
	case *tbeacon.LightClientUpdateRange:
		var out []common.ForkDigest
		for _, e := range *x {
			out = append(out, e.ForkDigest)
		}
		return out
	}
	return nil
}

func TestC14_BeaconForks(t *testing.T) { pbt.Run(t, "C14", "beaconforks", genC14Fork, runC14Fork) }
